"""Access to the real source text under /repo: every run re-parses the files of the working tree and
hands the interpreter the `ast` of exactly the functions that the imported modules execute.

What extraction drops: docstrings/comments (no semantics), decorators other than staticmethod /
classmethod / property / dataclass, type annotations (used only as documentation), `await`/`async`
(single task), `lineno=` keyword arguments have no effect on `ast.unparse`.
"""
from __future__ import annotations

import ast
import hashlib
import importlib
import os
import sys
import types

from .interp import Closure, Env

REPO = os.environ.get("PYVC_REPO", "/repo")

# Code that the repository *emits* (methods of the generated client are built as ASTs by client_generators/client.py and
# exist as Python text only in a generated package).  A provider runs the real generator of the tree under check into a
# scratch directory on every run; the functions of that package are then read exactly like repository functions.
GENERATED = {}     # package name -> provider() -> root directory containing the package
_GEN_ROOTS = {}


def register_generated(pkg, provider):
    GENERATED.setdefault(pkg, provider)


def ensure_generated(module_name):
    pkg = module_name.split(".")[0]
    if pkg in GENERATED and pkg not in _GEN_ROOTS:
        import atexit
        import shutil
        root = os.path.realpath(GENERATED[pkg]())
        _GEN_ROOTS[pkg] = root
        if root not in sys.path:
            sys.path.insert(0, root)
        importlib.invalidate_caches()
        _GEN_OWNER[root] = os.getpid()
        atexit.register(cleanup_generated)
    return _GEN_ROOTS.get(pkg)


_GEN_OWNER = {}


def cleanup_generated():
    """remove the scratch packages this process generated (forked workers call it explicitly: they leave via os._exit)"""
    import shutil
    for root, pid in list(_GEN_OWNER.items()):
        if pid == os.getpid():
            shutil.rmtree(root, ignore_errors=True)
            _GEN_OWNER.pop(root, None)


class SourceIndex:
    def __init__(self, repo=REPO):
        self.repo = os.path.realpath(repo)
        self.files = {}      # path -> (text, tree, {qualname: node})
        self._closures = {}
        self.used = {}       # (module, qualname) -> sha256 of the function source (evidence)

    def under_repo(self, path):
        try:
            rp = os.path.realpath(path)
            return rp.startswith(self.repo + os.sep) or any(rp.startswith(r + os.sep) for r in _GEN_ROOTS.values())
        except Exception:
            return False

    def load_file(self, path):
        path = os.path.realpath(path)
        if path not in self.files:
            text = open(path, encoding="utf-8").read()
            tree = ast.parse(text, filename=path)
            index = {}

            def walk(body, prefix):
                for n in body:
                    if isinstance(n, (ast.FunctionDef, ast.AsyncFunctionDef)):
                        index[prefix + n.name] = n
                        walk(n.body, prefix + n.name + ".<locals>.")
                    elif isinstance(n, ast.ClassDef):
                        index[prefix + n.name] = n
                        walk(n.body, prefix + n.name + ".")
                    elif isinstance(n, (ast.If, ast.Try, ast.With, ast.For, ast.While)):
                        for attr in ("body", "orelse", "finalbody"):
                            walk(getattr(n, attr, []) or [], prefix)
                        for h in getattr(n, "handlers", []) or []:
                            walk(h.body, prefix)
            walk(tree.body, "")
            self.files[path] = (text, tree, index)
        return self.files[path]

    def closure_for_function(self, fn: types.FunctionType):
        """Real function object (from the imported repo module) -> Closure over its source AST, or None
        when the function is not repository code."""
        code = fn.__code__
        path = code.co_filename
        if not self.under_repo(path):
            return None
        key = (fn.__module__, fn.__qualname__)
        if key in self._closures:
            return self._closures[key]
        text, tree, index = self.load_file(path)
        node = index.get(fn.__qualname__)
        if node is None or not isinstance(node, (ast.FunctionDef, ast.AsyncFunctionDef)):
            return None
        module = sys.modules.get(fn.__module__) or importlib.import_module(fn.__module__)
        c = Closure(node, Env(), module, fn.__name__, qualname=fn.__qualname__,
                    is_async=isinstance(node, ast.AsyncFunctionDef))
        self._closures[key] = c
        seg = ast.get_source_segment(text, node) or ""
        self.used[key] = hashlib.sha256(seg.encode()).hexdigest()[:16]
        return c

    def closure(self, module_name, qualname):
        """Closure for `module:qualname` (methods: Class.method; nested: outer.<locals>.inner)."""
        ensure_generated(module_name)
        module = importlib.import_module(module_name)
        path = module.__file__
        if not self.under_repo(path):
            raise LookupError(f"{module_name} is not under {self.repo} ({path})")
        text, tree, index = self.load_file(path)
        node = index.get(qualname)
        if node is None:
            raise LookupError(f"{module_name}:{qualname} not found in source")
        key = (module_name, qualname)
        if key not in self._closures:
            self._closures[key] = Closure(node, Env(), module, qualname.split(".")[-1], qualname=qualname,
                                          is_async=isinstance(node, ast.AsyncFunctionDef))
            seg = ast.get_source_segment(text, node) or ""
            self.used[key] = hashlib.sha256(seg.encode()).hexdigest()[:16]
        return self._closures[key]

    def function_source(self, module_name, qualname):
        module = importlib.import_module(module_name)
        text, tree, index = self.load_file(module.__file__)
        node = index[qualname]
        return ast.get_source_segment(text, node)

    def key_of(self, c: Closure):
        return (getattr(c.module, "__name__", "?"), c.qualname)

    def is_repo_class(self, cls):
        mod = sys.modules.get(getattr(cls, "__module__", ""), None)
        f = getattr(mod, "__file__", None)
        return bool(f) and self.under_repo(f)
