"""Semantics of builtins / library calls on symbolic values (the *trusted* part of the encoding),
plus comprehension-as-map and symbolic loops.

Every function here is an assumed contract on CPython or a dependency; the list of models that a
proof actually used is reported in the evidence (`trusted_base`).
"""
from __future__ import annotations

import ast
import builtins
import enum
import json
import typing
import z3

from . import val as V
from .val import SV, Obj, MList, MDict, PDict, PList, MSet, PSet, norm, lower, deep_symbolic
from .interp import (Unsupported, PyRaise, PathAbort, Closure, BoundMethod, SymMethod, Env, Path,
                     NativeBound, explore, _concrete_list_items)

USED = set()       # names of models used in this process (trusted base reporting)
NATIVE = {}        # callable -> model(interp, args, kwargs)
EFFECT_FREE_NATIVE_WHITELIST = set()


def model(*fns):
    def deco(f):
        for fn in fns:
            NATIVE[fn] = f
        return f
    return deco


def _used(name):
    USED.add(name)


def as_term(v):
    return lower(v)


def sv(t):
    return SV(t)


def _simpl(t):
    return z3.simplify(t)


# --------------------------------------------------------------------------- kind tests on SV

def entailed(I, cond):
    """Is cond implied by the path condition? (solver query; unknown -> False)"""
    cond = z3.simplify(cond)
    if z3.is_true(cond):
        return True
    if z3.is_false(cond):
        return False
    I.p.solver.push()
    try:
        I.p.solver.add(z3.Not(cond))
        return I.p.solver.check() == z3.unsat
    finally:
        I.p.solver.pop()


def require_kind(I, t, test, what):
    """Receiver must have the given kind, otherwise Python raises (AttributeError/TypeError)."""
    c = test(t)
    if not entailed(I, c):
        I.p.oblige(f"no-raise@{what}", c, "no-raise", detail=f"receiver kind for {what}")


def sym_str(I, v, what="str-op"):
    """-> z3 String term for a value used as a string."""
    if isinstance(v, str):
        return V.S(str.__str__(v) if not isinstance(v, enum.Enum) else v.value)
    if isinstance(v, SV):
        t = _simpl(v.t)
        if t.decl().name() == "VStr":
            return t.arg(0)
        require_kind(I, t, V.is_VStr, what)
        return V.vs(t)
    raise PyRaise(TypeError(f"expected str, got {type(v).__name__}"))


# --------------------------------------------------------------------------- attribute access on symbolic values

STR_METHODS = {"startswith", "endswith", "lstrip", "rstrip", "strip", "lower", "upper", "isidentifier", "join",
               "split", "rsplit", "replace", "format", "isdigit", "splitlines", "encode", "capitalize", "title"}
DICT_METHODS = {"get", "items", "keys", "values", "copy", "update", "pop", "setdefault"}
LIST_METHODS = {"append", "extend", "index", "insert", "count", "sort"}


def sym_attr(I, o, name):
    if isinstance(o, (V.DDEntry, V.MDefaultDict, MSet)):
        return SymMethod(o, name)
    if isinstance(o, MList):
        return SymMethod(o, name)
    if isinstance(o, MDict):
        return SymMethod(o, name)
    t = _simpl(o.t)
    if name == "__class__":
        # type(x) / x.__class__ of a symbolic object: case split over the registered classes it can be
        feas = [i for i in V.REG.by_id.values() if isinstance(i.pycls, type) and I.p.feasible(z3.And(V.is_VObj(t), V.cls_of(t) == i.cid))]
        for i in feas[:-1]:
            if I.p.branch(z3.And(V.is_VObj(t), V.cls_of(t) == i.cid), f"class-is-{i.name}"):
                return i.pycls
        if feas:
            I.p.assume(z3.And(V.is_VObj(t), V.cls_of(t) == feas[-1].cid)) if entailed(I, V.is_VObj(t)) else None
            return feas[-1].pycls
        raise Unsupported("__class__ of a symbolic non-object")
    special = [i for i in V.REG.by_id.values() if name in i.computed or name in i.methods]
    if special:
        feas = [i for i in special if I.p.feasible(z3.And(V.is_VObj(t), V.cls_of(t) == i.cid))]
        if feas:
            if len(feas) > 1:
                raise Unsupported(f"computed attribute {name} on several candidate classes")
            info = feas[0]
            c = z3.And(V.is_VObj(t), V.cls_of(t) == info.cid)
            if not entailed(I, c):
                I.p.oblige(f"no-raise@attr.{name}", c, "no-raise", detail=f"AttributeError: .{name}")
            _used(f"{info.name}.{name}")
            if name in info.computed:
                return info.computed[name](I, t)
            return _ObjMethod(info.methods[name], t)
    # method of a repository (or repository-emitted) class looked up on a symbolic receiver of exactly that class:
    # bound to the receiver; the call then goes through the callee's contract, or inlines its body
    import types as _types
    meth = [i for i in V.REG.by_id.values() if isinstance(i.pycls, type) and name not in i.fields
            and isinstance(i.pycls.__dict__.get(name) or getattr(i.pycls, name, None), _types.FunctionType) and I.src.is_repo_class(i.pycls)]
    if meth:
        feas = [i for i in meth if I.p.feasible(z3.And(V.is_VObj(t), V.cls_of(t) == i.cid))]
        if feas:
            if len(feas) > 1:
                raise Unsupported(f"method {name} on a receiver of several candidate classes")
            info = feas[0]
            c = z3.And(V.is_VObj(t), V.cls_of(t) == info.cid)
            if not entailed(I, c):
                I.p.oblige(f"no-raise@attr.{name}", c, "no-raise", detail=f"AttributeError: .{name}")
                I.p.assume(c)
            clos = I.src.closure_for_function(getattr(info.pycls, name))
            if clos is None:
                raise Unsupported(f"method {info.name}.{name} has no source under the tree")
            return BoundMethod(o, clos)
    if name in STR_METHODS or name in DICT_METHODS or name in LIST_METHODS:
        # object classes may also define such names as fields (e.g. `.values`); fields win when the
        # receiver is known to be an object
        if not _may_be_obj_with_field(I, t, name):
            return SymMethod(o, name)
    return obj_field(I, t, name)


class _ObjMethod:
    def __init__(self, f, t):
        self.f, self.t = f, t


def _may_be_obj_with_field(I, t, name):
    infos = [i for i in V.REG.by_id.values() if name in i.fields]
    if not infos:
        return False
    cond = z3.And(V.is_VObj(t), z3.Or(*[V.cls_of(t) == i.cid for i in infos]))
    return I.p.feasible(cond)


def obj_field(I, t, name):
    infos = [i for i in V.REG.by_id.values() if name in i.fields]
    feas = [i for i in infos if I.p.feasible(z3.And(V.is_VObj(t), V.cls_of(t) == i.cid))]
    has = z3.And(V.is_VObj(t), z3.Or(*[V.cls_of(t) == i.cid for i in feas])) if feas else z3.BoolVal(False)
    if not entailed(I, has):
        I.p.oblige(f"no-raise@attr.{name}", has, "no-raise", detail=f"AttributeError: .{name}")
    if not feas:
        raise PathAbort()
    r = None
    for i in feas:
        acc = V.nth(V.fs_of(t), i.fields.index(name))
        r = acc if r is None else z3.If(V.cls_of(t) == i.cid, acc, r)
    r = _simpl(r)
    hook = I.ctx.__dict__.get("on_field_read")
    if hook:
        hook(I, t, name, feas)
    return SV(r)


# --------------------------------------------------------------------------- identity, containment, comparison

def identical(I, a, b):
    if not deep_symbolic(a) and not deep_symbolic(b):
        return a is b
    if isinstance(a, Obj) and isinstance(b, Obj):
        return a is b
    if isinstance(a, Obj) or isinstance(b, Obj):
        other = b if isinstance(a, Obj) else a
        if isinstance(other, SV):
            o = a if isinstance(a, Obj) else b
            if V.REG.info(o.cls).identity:
                return lower(o) == other.t
            return False if not I.p.feasible(lower(o) == other.t) else (lower(o) == other.t)
        return False
    # None / True / False / registered atoms / strings (interned constants compare by value here)
    return lower(a) == lower(b)


def contains(I, container, x):
    """x in container -> bool | BoolRef"""
    if not deep_symbolic(container) and not deep_symbolic(x):
        try:
            return x in container
        except TypeError as ex:
            raise PyRaise(ex)
    if isinstance(container, (list, tuple, set, frozenset, dict)) and len(container) > 8 and isinstance(x, SV) \
            and all(isinstance(e, str) for e in container):
        # large literal string sets: regular-expression membership (same encoding as spec.in_strs)
        return z3.And(V.is_VStr(x.t), z3.InRe(V.vs(x.t), z3.Union(*[z3.Re(str(e)) for e in container])))
    if isinstance(container, (list, tuple, set, frozenset)):
        alts = [I.eq(x, e) for e in container]
        if any(a is True for a in alts):
            return True
        alts = [a for a in alts if a is not False]
        return z3.Or(*alts) if alts else False
    if isinstance(container, dict):
        alts = [I.eq(x, k) for k in container.keys()]
        if any(a is True for a in alts):
            return True
        alts = [a for a in alts if a is not False]
        return z3.Or(*alts) if alts else False
    if isinstance(container, str) or (isinstance(container, SV) and entailed(I, V.is_VStr(container.t))):
        _used("str.__contains__")
        return z3.Contains(sym_str(I, container), sym_str(I, x))
    if isinstance(container, MSet):
        return V.vcontains(container.elems, lower(x))
    if isinstance(container, SV) and is_set_term(I, container.t):
        return V.vcontains(V.set_elems(container.t), lower(x))
    if isinstance(container, MList):
        return V.vcontains(V.vl(container.t), lower(x))
    if isinstance(container, MDict):
        return V.dhas(V.vd(container.t), lower(x))
    if isinstance(container, SV):
        t = _simpl(container.t)
        if entailed(I, V.is_VDict(t)):
            _used("dict.__contains__")
            return V.dhas(V.vd(t), lower(x))
        if entailed(I, V.is_VList(t)):
            return V.vcontains(V.vl(t), lower(x))
        if entailed(I, V.is_VTuple(t)):
            return V.vcontains(V.vt(t), lower(x))
        ok = z3.Or(V.is_VDict(t), V.is_VList(t), V.is_VStr(t), V.is_VTuple(t))
        I.p.oblige("no-raise@in", ok, "no-raise", detail="TypeError: argument of this type is not iterable")
        if I.p.branch(V.is_VDict(t), "in:dict"):
            return V.dhas(V.vd(t), lower(x))
        if I.p.branch(V.is_VList(t), "in:list"):
            return V.vcontains(V.vl(t), lower(x))
        if I.p.branch(V.is_VTuple(t), "in:tuple"):
            return V.vcontains(V.vt(t), lower(x))
        # `x in str` requires x to be a str
        I.p.oblige("no-raise@in.str", V.is_VStr(lower(x)), "no-raise", detail="TypeError: 'in <string>' requires string")
        return z3.Contains(V.vs(t), V.vs(lower(x)))
    raise Unsupported(f"'in' on {type(container).__name__}")


def order_compare(I, op, a, b):
    ta, tb = lower(a), lower(b)
    both_int = z3.And(V.is_VInt(ta), V.is_VInt(tb))
    if not entailed(I, both_int):
        I.p.oblige("no-raise@order", both_int, "no-raise")
    x, y = V.vi(ta), V.vi(tb)
    return {ast.Lt: x < y, ast.LtE: x <= y, ast.Gt: x > y, ast.GtE: x >= y}[type(op)]


# --------------------------------------------------------------------------- strings

def to_str(I, v):
    """str(v) / f-string interpolation"""
    if isinstance(v, SV):
        t = _simpl(v.t)
        if entailed(I, V.is_VStr(t)):
            return SV(V.VStr(V.vs(t)))
        if entailed(I, V.is_VInt(t)):
            _used("str(int)")
            i = V.vi(t)
            return SV(V.VStr(z3.If(i >= 0, z3.IntToStr(i), z3.Concat(V.S("-"), z3.IntToStr(-i)))))
        _used("str(x) of a value of unknown kind: uninterpreted text py_str(x)")
        I.p.imprecise = True          # over-approximation, see str.join
        return SV(V.VStr(PY_STR(t)))
    if isinstance(v, (MList, MDict)):
        return SV(V.VStr(PY_STR(lower(v))))
    if isinstance(v, Obj):
        raise Unsupported("str() of object")
    if isinstance(v, enum.Enum) and isinstance(v, str):
        return str(v)
    return str(v)


PY_STR = z3.Function("py_str", V.Val, z3.StringSort())
PY_SORTED = z3.Function("py_sorted", V.VL, V.VL)
SET_DIFF = z3.Function("set_difference_members", V.VL, V.VL, V.VL)
PY_JOIN = z3.Function("py_join", z3.StringSort(), V.Val, z3.StringSort())


def concat_strs(I, parts):
    if not any(deep_symbolic(x) for x in parts):
        return "".join(parts)
    terms = [sym_str(I, x, "f-string") for x in parts]
    if len(terms) == 1:
        return SV(V.VStr(terms[0]))
    return SV(V.VStr(z3.Concat(*terms)))


def binop(I, op, a, b):
    if isinstance(op, ast.Add):
        ta, tb = (lower(a) if deep_symbolic(a) or not isinstance(a, (list, tuple)) else None), None
        if isinstance(a, str) or isinstance(b, str) or (isinstance(a, SV) and entailed(I, V.is_VStr(a.t))) \
                or (isinstance(b, SV) and entailed(I, V.is_VStr(b.t))):
            return SV(V.VStr(z3.Concat(sym_str(I, a, "str+"), sym_str(I, b, "str+"))))
        if isinstance(a, list) and isinstance(b, list):
            return a + b
        if isinstance(a, (list, MList, SV)) and isinstance(b, (list, MList, SV)):
            la, lb = lower(a), lower(b)
            if isinstance(a, list) or isinstance(b, list) or (entailed(I, V.is_VList(la)) and entailed(I, V.is_VList(lb))):
                return SV(V.VList(V.vconcat(V.vl(la), V.vl(lb))))
        ia, ib = lower(a), lower(b)
        if entailed(I, z3.And(V.is_VInt(ia), V.is_VInt(ib))):
            return SV(V.VInt(V.vi(ia) + V.vi(ib)))
        raise Unsupported("+ on symbolic operands of unknown kind")
    if isinstance(op, ast.Sub) and isinstance(a, MSet) and isinstance(b, MSet):
        # a - b: some enumeration of the members of a that are not members of b (declared; membership quantified)
        _used("set difference: a declared enumeration with  x in (a - b)  <=>  x in a and not x in b")
        r = SET_DIFF(a.elems, b.elems)
        x = z3.Const("__diff_member__", V.Val)
        I.p.assume(z3.ForAll([x], V.vl_contains(r, x) == z3.And(V.vl_contains(a.elems, x), z3.Not(V.vl_contains(b.elems, x))),
                             patterns=[V.vl_contains(r, x)]))
        return MSet(r)
    if isinstance(op, (ast.Sub, ast.Mult)):
        ia, ib = lower(a), lower(b)
        if entailed(I, z3.And(V.is_VInt(ia), V.is_VInt(ib))):
            return SV(V.VInt(V.vi(ia) - V.vi(ib) if isinstance(op, ast.Sub) else V.vi(ia) * V.vi(ib)))
        if isinstance(op, ast.Mult) and isinstance(b, str) and entailed(I, V.is_VInt(ia)):
            raise Unsupported("int * str symbolic")
    raise Unsupported(f"binary operator {type(op).__name__} on symbolic operands")


def get_slice(I, o, lo, hi, st):
    if not deep_symbolic(o) and not deep_symbolic(lo) and not deep_symbolic(hi):
        return o[lo:hi:st]
    if st is not None:
        raise Unsupported("slice step on symbolic")
    if isinstance(o, SV) and entailed(I, V.is_VStr(o.t)):
        s = V.vs(o.t)
        n = z3.Length(s)
        if deep_symbolic(lo) or deep_symbolic(hi):
            raise Unsupported("symbolic slice bounds")
        lo_ = 0 if lo is None else lo
        if lo_ < 0 or (hi is not None and hi < 0):
            raise Unsupported("negative slice bounds on symbolic string")
        _used("str.__getitem__(slice)")
        if hi is None:
            return SV(V.VStr(z3.SubString(s, lo_, n)))
        return SV(V.VStr(z3.SubString(s, lo_, hi - lo_)))
    if isinstance(o, list) and not deep_symbolic(lo) and not deep_symbolic(hi):
        return o[lo:hi]
    if isinstance(o, tuple) and not deep_symbolic(lo) and not deep_symbolic(hi):
        return o[lo:hi]
    raise Unsupported("slice of symbolic value")


def get_item(I, o, k):
    if isinstance(o, V.MDefaultDict):
        return V.DDEntry(o, lower(k))
    if isinstance(o, V.DDEntry):
        return get_item(I, SV(o.t), k)
    if isinstance(o, dict):
        # symbolic key into a concrete dict: ite chain, KeyError otherwise
        kt = lower(k)
        inside = contains(I, o, k)
        if inside is False:
            raise PyRaise(KeyError(repr(k)))
        if inside is not True:
            if not I.p.branch(inside, "dict-key-present"):
                raise PyRaise(KeyError("<symbolic key>"))
        r = None
        for key, v in reversed(list(o.items())):
            r = lower(v) if r is None else z3.If(kt == lower(key), lower(v), r)
        return SV(_simpl(r))
    if isinstance(o, (list, tuple)):
        if isinstance(k, SV):
            raise Unsupported("symbolic index into concrete list")
        try:
            return o[k]
        except (IndexError, TypeError) as ex:
            raise PyRaise(ex)
    if isinstance(o, MDict):
        kt = lower(k)
        for lem in comp_dict_lemmas(o.t, kt):
            I.p.assume(lem)
        has = V.dhas(V.vd(o.t), kt)
        if not I.p.branch(has, "mdict-key-present"):
            raise PyRaise(KeyError("<symbolic key>"))
        # a view of the entry: reads lower to the value bound now, `.append` / `.extend` update the dict in place
        return V.DDEntry(o, kt)
    if isinstance(o, MList):
        o = SV(o.t)
    if isinstance(o, SV):
        t = _simpl(o.t)
        if entailed(I, V.is_VDict(t)):
            kt = lower(k)
            has = V.dhas(V.vd(t), kt)
            if not I.p.branch(has, "dict-key-present"):
                raise PyRaise(KeyError("<symbolic key>"))
            _used("dict.__getitem__")
            r = V.dlookup(V.vd(t), kt)
            dict_lookup_lemma(I, V.vd(t), kt, r)
            return SV(r)
        if entailed(I, z3.Or(V.is_VList(t), V.is_VTuple(t))):
            seq = z3.If(V.is_VList(t), V.vl(t), V.vt(t))
            if isinstance(k, int) and k >= 0:
                inb = V.vl_len(seq) > k
                if not I.p.branch(inb, "index-in-range"):
                    raise PyRaise(IndexError("list index out of range"))
                return SV(V.nth(seq, k))
            raise Unsupported("symbolic / negative index into symbolic list")
        if entailed(I, V.is_VStr(t)) and isinstance(k, int) and k >= 0:
            s = V.vs(t)
            if not I.p.branch(z3.Length(s) > k, "str-index-in-range"):
                raise PyRaise(IndexError("string index out of range"))
            return SV(V.VStr(z3.SubString(s, k, 1)))
        # unknown kind: obligation that it is subscriptable, then split
        I.p.oblige("no-raise@subscript", z3.Or(V.is_VDict(t), V.is_VList(t), V.is_VTuple(t), V.is_VStr(t)), "no-raise",
                   detail="TypeError: object is not subscriptable")
        if I.p.branch(V.is_VDict(t), "subscript:dict"):
            return get_item(I, o, k)
        if I.p.branch(V.is_VList(t), "subscript:list"):
            return get_item(I, o, k)
        if I.p.branch(V.is_VTuple(t), "subscript:tuple"):
            return get_item(I, o, k)
        return get_item(I, o, k)
    if isinstance(o, Obj):
        raise Unsupported(f"subscript on object {o.cls.__name__}")
    raise Unsupported(f"subscript on {type(o).__name__} with symbolic key")


def dict_lookup_lemma(I, d_vl, k, value_term):
    """instantiate the lookup lemma of every DictOf shape assumed for this association list"""
    ents = I.ctx.__dict__.get("dict_value_shapes", {}).get(z3.simplify(d_vl).get_id())
    if not ents:
        return
    for g, sh in ents:
        I.p.assume(z3.Implies(z3.And(g, V.dhas(d_vl, k)), z3.And(sh.key.pred(k), sh.value.pred(value_term))))
        from .shapes import _guarded_on_assume
        _guarded_on_assume(I.ctx, sh.value, z3.simplify(value_term), z3.And(g, V.dhas(d_vl, k)))


def splat_kwargs(I, kwargs, d):
    """f(**d) with a symbolic mapping: carried under the reserved key '__splat__' (consumed by model methods and by
    callees that have a **kwargs parameter)"""
    if isinstance(d, (MDict, SV)):
        out = dict(kwargs)
        if "__splat__" in out:
            raise Unsupported("two symbolic ** arguments")
        out["__splat__"] = d
        return out
    raise Unsupported("** of a non-mapping")


def make_set(I, items):
    """{e(x) for x in <symbolic sequence>}: a set whose members are the elements of the mapped sequence (a set is carried as an
    enumeration of its members; duplicates in the enumeration do not matter to membership, any dependence on the enumeration
    order is an `ord` obligation)"""
    if isinstance(items, MList):
        return MSet(V.vl(items.t))
    if isinstance(items, SV) and entailed(I, V.is_VList(items.t)):
        _used("set comprehension over a symbolic sequence: the set of the mapped elements (membership = membership in the mapped list)")
        return MSet(V.vl(items.t))
    raise Unsupported("set with symbolic elements")


# --------------------------------------------------------------------------- context managers

def enter_context(I, cm):
    if isinstance(cm, Obj) and hasattr(cm.cls, "__pyvc_enter__"):
        return cm.cls.__pyvc_enter__(I, cm)
    h = getattr(I.ctx, "context_enter", None)
    if h:
        return h(I, cm)
    raise Unsupported("with statement without a context model")


def exit_context(I, cm, exc):
    if isinstance(cm, Obj) and hasattr(cm.cls, "__pyvc_exit__"):
        return cm.cls.__pyvc_exit__(I, cm, exc)
    if isinstance(cm, Obj) and hasattr(cm.cls, "__pyvc_enter__"):
        return None
    h = getattr(I.ctx, "context_exit", None)
    if h:
        return h(I, cm, exc)


# --------------------------------------------------------------------------- loops and comprehensions over symbolic sequences

def order_obligation(I, what, lineno):
    """iteration over a set in an order-sensitive position: the result depends on the interpreter's hash seed"""
    fnq = "?"
    allow = getattr(I.ctx, "order_insensitive", set())
    key = (what, lineno)
    if lineno in allow or key in allow or I.ctx.__dict__.get("in_order_insensitive_call", 0) > 0:
        return
    I.p.oblige(f"ord@line{lineno}", z3.BoolVal(False), "ord",
               detail=f"{what} over a set: the iteration order (hash seed) reaches an order-sensitive result", assume_after=False)


def _seq_term(I, it, lineno=None, what="iteration"):
    """If `it` is a symbolic sequence with non-concrete spine return its VL term."""
    if isinstance(it, MSet):
        order_obligation(I, what, lineno)
        return it.elems
    if isinstance(it, SV) and is_set_term(I, it.t):
        order_obligation(I, what, lineno)
        return V.set_elems(it.t)
    if isinstance(it, MDict):
        raise Unsupported(f"{what} over a symbolic dict (its keys)")
    if isinstance(it, (MList, V.DDEntry)):
        it = SV(it.t)
    if isinstance(it, SV):
        t = _simpl(it.t)
        if _concrete_list_items(t) is not None:
            return None
        if entailed(I, V.is_VList(t)):
            return V.vl(t)
        if entailed(I, V.is_VTuple(t)):
            return V.vt(t)
        if entailed(I, V.is_VDict(t)) or isinstance(it, MDict):
            # iterating a symbolic dict (its keys) is not modelled: the function is outside the subset, not at fault
            raise Unsupported(f"{what} over a symbolic dict (its keys)")
        if not entailed(I, z3.Or(V.is_VList(t), V.is_VTuple(t), V.is_VStr(t), V.is_VNone(t), V.is_VInt(t), V.is_VBool(t), V.is_VFloat(t))):
            # the kind of the value is not known to the engine (e.g. the result of an unmodelled construct)
            if not I.p.feasible(z3.Or(V.is_VList(t), V.is_VTuple(t))):
                raise Unsupported(f"{what} over a value that is never a list or tuple in the engine's encoding")
        I.p.oblige("no-raise@iter", z3.Or(V.is_VList(t), V.is_VTuple(t)), "no-raise", detail="TypeError: not iterable")
        return z3.If(V.is_VList(t), V.vl(t), V.vt(t))
    return None


_MAP_CACHE = {}
_MAP_BY_NAME = {}
_MAP_COUNTER = [0]
MAPS = {}   # z3 func name -> dict(xs=VL term, var=elem const, body=Val term, site=str)


def symbolic_comprehension(I, e, env, module):
    """[elt for x in <symbolic list>] (single generator, pure element expression) becomes map_site(xs):
    a recursive function defined by  map(nil)=nil, map(cons(h,t)) = cons(body(h), map(t)), where body is the
    element expression evaluated symbolically on a fresh element (all its paths merged into an if-then-else
    term; obligations raised inside hold for every element)."""
    if len(e.generators) != 1:
        return None
    g = e.generators[0]
    fnq = env.lookup("__fn__").qualname if env.has("__fn__") else "?"
    cspec = (getattr(I.ctx, "comp_loop_specs", {}) or {}).get(fnq)
    if cspec is not None and isinstance(e, (ast.ListComp, ast.GeneratorExp)) and not g.ifs:
        # comprehension whose element expression has effects (the callee's contract mutates state): executed as the loop
        #   __comp_out = []; for <target> in <iter>: __comp_out.append(<elt>)
        # under the loop rule, with the invariant supplied by the contract
        tmp = "__comp_out"
        env.assign(tmp, MList(V.VList(V.VNil)))
        loop = ast.For(target=g.target, iter=g.iter, orelse=[], lineno=getattr(e, "lineno", 0), col_offset=0,
                       body=[ast.Expr(value=ast.Call(func=ast.Attribute(value=ast.Name(id=tmp, ctx=ast.Load()), attr="append", ctx=ast.Load()),
                                                     args=[e.elt], keywords=[]))])
        ast.fix_missing_locations(loop)
        saved = getattr(I.ctx, "loop_specs", {})
        I.ctx.loop_specs = dict(saved)
        I.ctx.loop_specs[fnq] = cspec
        try:
            I.exec_stmt(loop, env, module)
        finally:
            I.ctx.loop_specs = saved
        return env.lookup(tmp)
    it = I.eval(g.iter, env, module)
    xs = _seq_term(I, it, getattr(e, "lineno", None), "comprehension")
    if xs is None:
        # concrete spine: evaluate normally, but we already evaluated the iterable once; re-evaluation
        # is harmless for the pure expressions used as iterables in the code under contract
        return None
    site = f"{getattr(module, '__name__', '?')}:{e.lineno}:{e.col_offset}"
    # map fusion: a comprehension over the result of another (unfiltered) comprehension ranges over the inner source
    pre_image = None
    xs_s = z3.simplify(xs)
    keyed_by_elem = isinstance(e, ast.DictComp) and isinstance(e.key, ast.Name) and isinstance(g.target, ast.Name) \
        and g.target.id == e.key.id and not g.ifs
    if not keyed_by_elem and z3.is_app(xs_s) and xs_s.decl().name() in _MAP_BY_NAME and _MAP_BY_NAME[xs_s.decl().name()]["keep"] is None \
            and xs_s.num_args() == 1:
        inner = _MAP_BY_NAME[xs_s.decl().name()]
        xs = xs_s.arg(0)
        pre_image = inner
    elem = I.p.fresh("elem")
    I.ctx.__dict__.setdefault("elem_parents", {})[elem.get_id()] = xs
    I.ctx.__dict__.setdefault("keepalive", []).append(elem)
    is_dict = isinstance(e, ast.DictComp)
    elt = ast.Tuple(elts=[e.key, e.value], ctx=ast.Load()) if is_dict else e.elt
    bound = None if pre_image is None else z3.substitute(pre_image["body"], (pre_image["var"], elem))
    body = merged_eval(I, elem, xs, g, elt, env, module, site, bound=bound)
    bterm, keep = body
    canon = z3.Const("__elem__", V.Val)
    key = (site, z3.substitute(bterm, (elem, canon)).sexpr(),
           None if keep is None else z3.substitute(keep, (elem, canon)).sexpr())
    ent = _MAP_CACHE.get(key)
    if ent is None:
        _MAP_COUNTER[0] += 1
        fname = f"map!{_MAP_COUNTER[0]}!{site}"
        f = z3.RecFunction(fname, V.VL, V.VL)
        l = z3.FreshConst(V.VL, "l")
        step = z3.substitute(bterm, (elem, V.hd(l)))
        if keep is None:
            z3.RecAddDefinition(f, [l], z3.If(V.is_VNil(l), V.VNil, V.VCons(step, f(V.tl(l)))))
        else:
            kstep = z3.substitute(keep, (elem, V.hd(l)))
            z3.RecAddDefinition(f, [l], z3.If(V.is_VNil(l), V.VNil,
                                              z3.If(kstep, V.VCons(step, f(V.tl(l))), f(V.tl(l)))))
        ent = dict(var=canon, body=z3.substitute(bterm, (elem, canon)),
                   keep=None if keep is None else z3.substitute(keep, (elem, canon)), fn=f, site=site, name=fname)
        _MAP_CACHE[key] = ent
        _MAP_BY_NAME[fname] = ent
    f = ent["fn"]
    m = dict(ent)
    m["xs"] = xs
    MAPS[ent["name"]] = m
    I.p.maps_used[ent["name"]] = m
    if is_dict and keyed_by_elem:
        # {x: value(x) for x in xs}: an association list that may repeat a key, always with the same value (the value is a function of
        # the key): lookups (first binding) agree with Python's (last binding).  A new dict object: the code may go on updating it
        _used("{x: f(x) for x in list}: association list of (x, f(x)); lookups only (a repeated key has the same value)")
        ent["keyed_by_elem"] = True
        return MDict(V.VDict(f(xs)))
    if is_dict:
        # keys of the result: distinct provided the key expression maps distinct source keys to distinct keys; the
        # code under contract only uses the identity on the source dict's keys (checked here)
        if not (isinstance(e.key, ast.Name) and isinstance(g.target, ast.Tuple) and isinstance(g.target.elts[0], ast.Name)
                and g.target.elts[0].id == e.key.id):
            raise Unsupported("dict comprehension whose key is not the source key")
        return SV(V.VDict(f(xs)))
    if isinstance(e, ast.ListComp):
        return MList(V.VList(f(xs)))        # a list comprehension builds a new list object: the code may go on appending to it
    return SV(V.VList(f(xs)))


def lookups_only(t, what):
    """a dict built as {x: f(x) for x in xs} is modelled for lookups and in-place updates of entries only: its association list may
    repeat a key, so its length and its iteration are not the dict's"""
    l = z3.simplify(V.vd(t) if t.sort() == V.Val else t)
    while z3.is_app(l) and l.decl().name() in ("d_set", "d_update", "d_remove") and l.num_args() >= 1:
        l = l.arg(0)
    ent = _MAP_BY_NAME.get(l.decl().name()) if z3.is_app(l) else None
    if ent is not None and ent.get("keyed_by_elem"):
        raise Unsupported(f"{what} of a dict built by a comprehension keyed by its element (modelled for lookups only)")


def comp_dict_lemmas(dterm, k):
    """{x: f(x) for x in xs} looked up at k - instances of two theorems (induction on xs) about the association list
    pairs(xs) = [(x, f(x)) for x in xs]:   has(pairs(xs), k) <=> k in xs      has(pairs(xs), k) => get(pairs(xs), k) = f(k)
    (found below any number of in-place updates d_set(...) of the dict)"""
    out = []
    l = z3.simplify(V.vd(dterm) if dterm.sort() == V.Val else dterm)
    while z3.is_app(l) and l.decl().name() == "d_set":
        l = l.arg(0)
    ent = _MAP_BY_NAME.get(l.decl().name()) if z3.is_app(l) else None
    if ent is not None and ent.get("keyed_by_elem") and l.num_args() == 1:
        xs = l.arg(0)
        pair = z3.simplify(z3.substitute(ent["body"], (ent["var"], k)))
        out.append(V.d_has(l, k) == V.vcontains(xs, k))
        out.append(z3.Implies(V.d_has(l, k), V.d_get(l, k) == z3.simplify(V.pval(pair))))
    return out


def merged_eval(I, elem, xs, gen, elt_expr, env, module, site, bound=None):
    """Evaluate `elt_expr` with gen.target bound to the fresh element under every path; returns
    (body term, keep-condition term or None)."""
    from .interp import Interp
    parent = I.p
    facts = elem_facts(I, xs, elem)
    results = []

    def run(p):
        for c in parent.pc:
            p.assume(c)
        for c in facts:
            p.assume(c)
        p.counter = parent.counter + 1000 * (1 + len(parent.decisions))
        p.call_depth = parent.call_depth
        p.in_comprehension = True        # the element expression is evaluated once, for an arbitrary element: only pure bodies are covered
        sub = Interp(p, I.src)
        inner = Env(env)
        sub.assign_target(gen.target, SV(elem if bound is None else bound), inner, module)
        keep = True
        for c in gen.ifs:
            if not sub.decide(sub.eval(c, inner, module), "comp-if"):
                keep = False
                break
        if not keep:
            return ("skip", None)
        return ("keep", sub.eval(elt_expr, inner, module))

    base = len(parent.pc) + len(facts)
    outs = explore(run, I.ctx)
    body, keep = None, None
    any_skip = False
    raises = []
    for p, (kind, out) in outs:
        parent.obligations.extend(p.obligations)
        parent.maps_used.update(p.maps_used)
        if kind == "abort":
            continue
        if kind == "unsupported":
            raise Unsupported(out)
        cond = z3.And(*p.pc[base:]) if len(p.pc) > base else z3.BoolVal(True)
        if kind == "raise":
            # the comprehension raises iff some element raises (the first one); recorded as a flag map
            raises.append((cond, out))
            continue
        tag, value = out
        if tag == "skip":
            any_skip = True
            keep = z3.Not(cond) if keep is None else z3.And(keep, z3.Not(cond))
            continue
        t = lower(value)
        body = t if body is None else z3.If(cond, t, body)
    if body is None:
        body = V.VNone
    for c in _free_consts(body) + ([] if keep is None else _free_consts(keep)):
        nm = c.decl().name()
        if "!" in nm and not c.eq(elem):
            try:
                num = int(nm.rsplit("!", 1)[1])
            except ValueError:
                continue
            if num > parent.counter:
                raise Unsupported(f"comprehension element at {site} depends on a non-functional intermediate ({nm}); "
                                  "the callee contract needs a result_term")
    if not any_skip:
        keep = None
    elif keep is None:
        keep = z3.BoolVal(True)
    if raises:
        classes = {r[1].exc_class for r in raises}
        if len(classes) != 1:
            raise Unsupported(f"comprehension element may raise several exception classes at {site}")
        rcond = _simpl(z3.Or(*[c for c, _ in raises]))
        flag_key = (site + "#raises", z3.substitute(rcond, (elem, z3.Const("__elem__", V.Val))).sexpr(), None)
        ent = _MAP_CACHE.get(flag_key)
        canon = z3.Const("__elem__", V.Val)
        if ent is None:
            _MAP_COUNTER[0] += 1
            fname = f"any!{_MAP_COUNTER[0]}!{site}#raises"
            f = z3.RecFunction(fname, V.VL, z3.BoolSort())
            l = z3.FreshConst(V.VL, "l")
            z3.RecAddDefinition(f, [l], z3.If(V.is_VNil(l), z3.BoolVal(False), z3.Or(z3.substitute(rcond, (elem, V.hd(l))), f(V.tl(l)))))
            ent = dict(var=canon, body=V.VBool(z3.substitute(rcond, (elem, canon))), keep=None, fn=f, site=site + "#raises",
                       name=fname, kind="any")
            _MAP_CACHE[flag_key] = ent
            _MAP_BY_NAME[fname] = ent
        m = dict(ent)
        m["xs"] = xs
        parent.maps_used[ent["name"]] = m
        if parent.branch(ent["fn"](xs), f"comprehension-raises@{site}"):
            cls = next(iter(classes))
            raise PyRaise(Obj(cls, {"args": (SV(parent.fresh("excarg")),)}) if not isinstance(raises[0][1].exc, Obj) else
                          Obj(cls, {k: SV(parent.fresh("excattr")) for k in raises[0][1].exc.attrs}))
    return _simpl(body), (None if keep is None else _simpl(keep))


def _free_consts(t):
    out, seen, stack = [], set(), [t]
    while stack:
        x = stack.pop()
        if x.get_id() in seen:
            continue
        seen.add(x.get_id())
        if z3.is_const(x) and x.decl().kind() == z3.Z3_OP_UNINTERPRETED:
            out.append(x)
        elif z3.is_app(x):
            stack.extend(x.children())
    return out


def elem_facts(I, xs, elem):
    """What is known about an arbitrary element of the symbolic list xs (registered by shape assumptions)."""
    facts = []
    key = xs.get_id() if hasattr(xs, "get_id") else None
    table = I.ctx.__dict__.setdefault("elem_shapes", {})
    ent = table.get(z3.simplify(xs).get_id()) or table.get(key) or V.elem_shape_of(I.ctx, xs)
    if ent is not None:
        facts.append(ent(elem))
    facts.append(V.vcontains(xs, elem))
    # nested lists of the element: make their element facts available too
    from .shapes import _guarded_on_assume
    for g, sh in I.ctx.__dict__.get("elem_shape_objs", {}).get(z3.simplify(xs).get_id(), []):
        _guarded_on_assume(I.ctx, sh, elem, g)
    # an item of a dict whose values are containers: the element facts of the value (pair = (key, value))
    for g, sh in I.ctx.__dict__.get("dict_value_shapes", {}).get(z3.simplify(xs).get_id(), []):
        _guarded_on_assume(I.ctx, sh.value, z3.simplify(V.pval(elem)), g)
    return facts


class SymEnumerate:
    """enumerate(<symbolic list>, start)"""

    def __init__(self, xs, start):
        self.xs, self.start = xs, start


def _mutated_paths(body):
    """access paths (name, attr, attr, ...) that the loop body may rebind or mutate in place (syntactic)."""
    paths = set()

    def path_of(e):
        parts = []
        while isinstance(e, ast.Attribute):
            parts.append(e.attr)
            e = e.value
        if isinstance(e, ast.Subscript):
            return path_of(e.value)
        if isinstance(e, ast.Name):
            return tuple([e.id] + parts[::-1])
        return None

    def target(t):
        if isinstance(t, ast.Name):
            paths.add((t.id,))
        elif isinstance(t, (ast.Tuple, ast.List)):
            for x in t.elts:
                target(x)
        elif isinstance(t, (ast.Attribute, ast.Subscript)):
            pth = path_of(t if isinstance(t, ast.Attribute) else t.value)
            if pth:
                paths.add(pth)
        elif isinstance(t, ast.Starred):
            target(t.value)
    for node in ast.walk(ast.Module(body=list(body), type_ignores=[])):
        if isinstance(node, ast.Assign):
            for t in node.targets:
                target(t)
        elif isinstance(node, (ast.AugAssign, ast.AnnAssign)):
            target(node.target)
        elif isinstance(node, (ast.For, ast.AsyncFor)):
            target(node.target)
        elif isinstance(node, ast.NamedExpr):
            target(node.target)
        elif isinstance(node, ast.Call) and isinstance(node.func, ast.Attribute) and node.func.attr in MUTATING:
            pth = path_of(node.func.value)
            if pth:
                paths.add(pth)
    return paths


def _havoc(I, env, pth, label):
    """replace the value at an access path by an arbitrary value of the same container kind"""
    def fresh_like(cur):
        cur = norm(cur)
        if isinstance(cur, (list, MList)):
            t = I.p.fresh(label)
            I.p.assume(V.is_VList(t))
            return MList(t)
        if isinstance(cur, (dict, MDict)):
            t = I.p.fresh(label)
            I.p.assume(V.is_VDict(t))
            return MDict(t)
        if isinstance(cur, Obj):
            return cur          # object identity kept; its attributes are havocked through their own paths
        if isinstance(cur, (set, frozenset, V.MSet)):
            return V.MSet(I.p.fresh(label, V.VL))      # an arbitrary set (type kept)
        return SV(I.p.fresh(label))
    name = pth[0]
    if not env.has(name):
        return
    if len(pth) == 1:
        if name not in env.vars and name not in env.nonlocals:
            # a variable of an enclosing scope that the body mutates (it cannot rebind it without `nonlocal`): the object it
            # names gets arbitrary contents - the binding, shared with the enclosing function and its other closures, stays
            cur = env.lookup(name)
            if isinstance(cur, MList):
                t = I.p.fresh(label)
                I.p.assume(V.is_VList(t))
                cur.t = t
                return
            if isinstance(cur, MDict):
                t = I.p.fresh(label)
                I.p.assume(V.is_VDict(t))
                cur.t = t
                return
            if isinstance(cur, V.MSet):
                cur.elems = I.p.fresh(label, V.VL)
                return
        env.assign(name, fresh_like(env.lookup(name)))
        return
    o = env.lookup(name)
    for a in pth[1:-1]:
        if not isinstance(o, Obj) or a not in o.attrs:
            return
        o = o.attrs[a]
    if isinstance(o, Obj) and pth[-1] in o.attrs:
        o.attrs[pth[-1]] = fresh_like(o.attrs[pth[-1]])


class LoopState(dict):
    """the loop-modified program state handed to an invariant, by access path. An invariant that names a local the loop no
    longer modifies (renamed or restructured code) does not apply any more: that is *undecided*, not a violation."""

    def _missing(self, key):
        raise Unsupported(f"the loop invariant of the contract names the local '{key}', which this loop does not modify (renamed or restructured code)")

    def __contains__(self, key):
        if not dict.__contains__(self, key):
            self._missing(key)
        return True

    def __getitem__(self, key):
        if not dict.__contains__(self, key):
            self._missing(key)
        return dict.__getitem__(self, key)


def symbolic_for(I, st, it, env, module):
    """`for x in <symbolic sequence>`: cut at the loop head.
       init:   invariant holds for rest = xs                                   (obligation inv<k>.init)
       step:   arbitrary iteration: modified state havocked, invariant assumed for rest = x::rest', body executed
               once on an arbitrary element x satisfying the element facts, invariant checked for rest'  (inv<k>.step)
       exit:   modified state havocked, invariant assumed for rest = nil, execution continues after the loop.
    Without an invariant (from the contract) the path is marked imprecise: a failing postcondition on it is only
    reported when the native replay confirms it."""
    from .interp import _Break, _Continue
    index_start = None
    if isinstance(it, SymEnumerate):
        index_start = it.start
        xs = it.xs
    elif isinstance(it, Obj) and hasattr(it.cls, "__pyvc_for__"):
        return it.cls.__pyvc_for__(I, st, it, env, module)
    else:
        xs = _seq_term(I, it, st.lineno, "for loop") if isinstance(it, (SV, MList, V.DDEntry, MSet)) else None
    if xs is None:
        return False
    fnq = env.lookup("__fn__").qualname if env.has("__fn__") else "?"
    loops = I.ctx.__dict__.setdefault("loop_ordinals", {})
    key = (fnq, st.lineno)
    specs = getattr(I.ctx, "loop_specs", {}) or {}
    spec = specs.get((fnq, st.lineno)) or specs.get(fnq)
    if spec is not None:
        _raw_spec = spec

        def spec(*a, _f=_raw_spec, **k):
            try:
                return _f(*a, **k)
            except KeyError as e:
                # the invariant looks up a variable of the function by name: renamed or restructured code is undecided, not an engine error
                raise Unsupported(f"the loop invariant of the contract names {e}, which is not a variable of this function any more (renamed or restructured code)")
        spec.extra_mutated = getattr(_raw_spec, "extra_mutated", ())
    label = f"inv@{fnq.split('.')[-1]}:{st.lineno}"
    mod = sorted((_mutated_paths(st.body) | set(getattr(spec, "extra_mutated", ()) or ())) - {(n,) for n in _target_names(st.target)})

    def state():
        out = LoopState()
        for pth in mod:
            try:
                v = env.lookup(pth[0])
                for a in pth[1:]:
                    v = v.attrs[a] if isinstance(v, Obj) else None
                if v is not None:
                    out[".".join(pth)] = lower(v)
            except (KeyError, V.LowerError, AttributeError):
                pass
        return out
    if spec is not None:
        I.p.oblige(f"{label}.init", spec(xs, xs, state(), I, env), "inv-init")
    I.p.counter += 1
    which = z3.Bool(f"loop!{I.p.counter}!iteration")
    if I.p.branch(which, f"loop@{st.lineno}:arbitrary-iteration"):
        x = I.p.fresh("elem")
        rest1 = I.p.fresh("rest", V.VL)
        for f in elem_facts(I, xs, x):
            I.p.assume(f)
        I.ctx.__dict__.setdefault("elem_parents", {})[x.get_id()] = xs
        I.ctx.__dict__.setdefault("keepalive", []).append(x)
        for pth in mod:
            _havoc(I, env, pth, "loopvar")
        rest = V.VCons(x, rest1)
        if spec is not None:
            I.p.assume(spec(rest, xs, state(), I, env))
        else:
            I.p.imprecise = True
        if index_start is not None:
            idx = SV(V.VInt(V.vi(lower(index_start)) + V.vl_len(xs) - V.vl_len(rest)))
            I.assign_target(st.target, (idx, SV(x)), env, module)
        else:
            I.assign_target(st.target, SV(x), env, module)
        try:
            I.exec_block(st.body, env, module)
        except _Continue:
            pass
        except _Break:
            I.p.imprecise = True
            return True          # state after `break` is the state of this iteration
        if spec is not None:
            I.p.oblige(f"{label}.step", spec(rest1, xs, state(), I, env), "inv-step")
        raise PathAbort()
    for pth in mod:
        _havoc(I, env, pth, "loopout")
    if spec is not None:
        I.p.assume(spec(V.VNil, xs, state(), I, env))
    else:
        I.p.imprecise = True
    I.exec_block(st.orelse, env, module)
    return True


def symbolic_while(I, st, env, module):
    """`while <symbolic condition>`: cut at the loop head when the contract supplies an invariant for it
    (contract.while_loops[<function qualname>] = inv(state, I, env) -> BoolRef; `True` for plain havoc).
       init: invariant holds on entry;  step: modified variables havocked, invariant and condition assumed, body run
       once, invariant re-established;  exit: havoc, invariant and negated condition assumed.
    Termination is NOT proved (reported as an assumption of the contract)."""
    from .interp import _Break, _Continue
    fnq = env.lookup("__fn__").qualname if env.has("__fn__") else "?"
    specs = getattr(I.ctx, "while_specs", {}) or {}
    spec = specs.get(fnq)
    if spec is None:
        return False
    label = f"winv@{fnq.split('.')[-1]}:{st.lineno}"
    mod = sorted(_mutated_paths(st.body))

    def state():
        out = LoopState()
        for pth in mod:
            try:
                v = env.lookup(pth[0])
                for a in pth[1:]:
                    v = v.attrs[a] if isinstance(v, Obj) else None
                if v is not None:
                    out[".".join(pth)] = lower(v)
            except (KeyError, V.LowerError, AttributeError):
                pass
        return out
    I.p.oblige(f"{label}.init", spec(state(), I, env), "inv-init")
    I.p.counter += 1
    which = z3.Bool(f"while!{I.p.counter}!iteration")
    if I.p.branch(which, f"while@{st.lineno}:arbitrary-iteration"):
        for pth in mod:
            _havoc(I, env, pth, "whilevar")
        I.p.assume(spec(state(), I, env))
        if not I.decide(I.eval(st.test, env, module), f"while@{st.lineno}:cond"):
            raise PathAbort()
        try:
            I.exec_block(st.body, env, module)
        except _Continue:
            pass
        except _Break:
            return True
        I.p.oblige(f"{label}.step", spec(state(), I, env), "inv-step")
        raise PathAbort()
    for pth in mod:
        _havoc(I, env, pth, "whileout")
    I.p.assume(spec(state(), I, env))
    if I.decide(I.eval(st.test, env, module), f"while@{st.lineno}:exit"):
        raise PathAbort()
    I.exec_block(st.orelse, env, module)
    return True


def _target_names(t):
    if isinstance(t, ast.Name):
        return [t.id]
    if isinstance(t, (ast.Tuple, ast.List)):
        out = []
        for x in t.elts:
            out.extend(_target_names(x))
        return out
    return []


# --------------------------------------------------------------------------- symbolic methods

MUTATING = {"append", "extend", "insert", "pop", "remove", "clear", "sort", "reverse", "update", "setdefault",
            "popitem", "add", "discard", "__setitem__", "__delitem__"}


def _no_mutation_inside_comprehension(I, recv, name):
    """the comprehension rule evaluates the element expression ONCE, for an arbitrary element: an element expression that changes a
    symbolic container in place (an accumulator that outlives the comprehension) is outside that rule - undecided, not mis-modelled"""
    if getattr(I.p, "in_comprehension", False) and (name in MUTATING or name in ("add", "discard")):
        raise Unsupported(f"in-place .{name}() on a symbolic container inside a comprehension (the comprehension rule covers pure element expressions)")


def call_sym_method(I, recv, name, args, kwargs):
    if isinstance(recv, (MSet, V.DDEntry, MList, MDict)):
        _no_mutation_inside_comprehension(I, recv, name)
    if isinstance(recv, MSet):
        if name == "add":
            recv.elems = V.vsnoc(recv.elems, lower(args[0]))
            return None
        if name == "update":
            o = args[0]
            if isinstance(o, MSet):
                recv.elems = V.vconcat(recv.elems, o.elems)
            else:
                ot = lower(o)
                recv.elems = V.vconcat(recv.elems, V.set_elems(ot) if is_set_term(I, ot) else V.vl(ot))
            return None
        if name in ("union", "copy"):
            r = MSet(recv.elems)
            for o in args:
                call_sym_method(I, r, "update", [o], {})
            return r
        raise Unsupported(f"set.{name} on a symbolic set")
    if isinstance(recv, V.DDEntry):
        d, k = recv.d, recv.k
        if name == "append":
            d.t = V.VDict(V.d_set(V.vd(d.t), k, V.VList(V.vsnoc(V.vl(d.entry(k)), V.store_lower(args[0])))))
            return None
        if name == "extend":
            d.t = V.VDict(V.d_set(V.vd(d.t), k, V.VList(V.vconcat(V.vl(d.entry(k)), V.vl(lower(args[0]))))))
            return None
        raise Unsupported(f"defaultdict entry .{name}")
    if isinstance(recv, V.MDefaultDict):
        raise Unsupported(f"defaultdict.{name}")
    if isinstance(recv, MList):
        return mlist_method(I, recv, name, args, kwargs)
    if isinstance(recv, MDict):
        return mdict_method(I, recv, name, args, kwargs)
    t = _simpl(recv.t)
    if name in MUTATING and (entailed(I, V.is_VDict(t)) or entailed(I, V.is_VList(t))):
        # a container that is part of a symbolic input (value semantics): mutating it in place changes an object
        # owned by the caller
        I.p.oblige("frame.arguments-not-mutated", z3.BoolVal(False), "frame",
                   detail=f"in-place .{name}() on a container reachable from the function's arguments", assume_after=False)
        raise PathAbort()
    if name in DICT_METHODS and (name not in STR_METHODS or entailed(I, V.is_VDict(t))):
        require_kind(I, t, V.is_VDict, f"dict.{name}")
        return dict_method(I, t, name, args, kwargs)
    if name in LIST_METHODS and entailed(I, V.is_VList(t)):
        return list_method_pure(I, t, name, args, kwargs)
    if name in STR_METHODS:
        require_kind(I, t, V.is_VStr, f"str.{name}")
        return str_method(I, V.vs(t), name, args, kwargs)
    raise Unsupported(f"method .{name} on symbolic value")


def dict_method(I, t, name, args, kwargs):
    d = V.vd(t)
    _used(f"dict.{name}")
    if name == "get":
        k = lower(args[0])
        default = lower(args[1]) if len(args) > 1 else V.VNone
        dict_lookup_lemma(I, d, k, V.dlookup(d, k))
        return SV(V.dget(d, k, default))
    if name == "copy":
        return MDict(t)
    lookups_only(t, f".{name}()")
    if name == "items":
        return SV(V.VList(d))
    if name == "keys":
        return SV(V.VList(D_KEYS(d)))
    if name == "values":
        return SV(V.VList(D_VALUES(d)))
    raise Unsupported(f"dict.{name} on symbolic dict")


def mdict_method(I, recv, name, args, kwargs):
    if name == "update":
        other = args[0]
        if isinstance(other, dict):
            for k, v in other.items():
                recv.t = V.VDict(V.d_set(V.vd(recv.t), lower(k), V.store_lower(v)))
            return None
        ot = lower(other)
        require_kind(I, ot, V.is_VDict, "dict.update(arg)")
        recv.t = V.VDict(d_update(V.vd(recv.t), V.vd(ot)))
        return None
    if name == "copy":
        return MDict(recv.t)
    if name == "get":
        return dict_method(I, recv.t, name, args, kwargs)
    lookups_only(recv.t, f".{name}()")
    if name == "items":
        return SV(V.VList(V.vd(recv.t)))
    if name == "setdefault":
        k = lower(args[0])
        dflt = args[1] if len(args) > 1 else None
        if I.p.branch(V.dhas(V.vd(recv.t), k), "dict.setdefault-present"):
            return SV(V.dlookup(V.vd(recv.t), k))
        recv.t = V.VDict(V.d_set(V.vd(recv.t), k, V.store_lower(dflt)))
        return dflt
    if name == "pop":
        k = lower(args[0])
        if I.p.branch(V.dhas(V.vd(recv.t), k), "dict.pop-present"):
            v = SV(V.dlookup(V.vd(recv.t), k))
            recv.t = V.VDict(d_remove(V.vd(recv.t), k))
            return v
        if len(args) > 1:
            return args[1]
        raise PyRaise(KeyError("<symbolic key>"))
    raise Unsupported(f"dict.{name} on symbolic dict")


d_remove = V._recfun("d_remove", [V.VL, V.Val, V.VL],
                     lambda f, l, k: z3.If(V.is_VNil(l), V.VNil,
                                           z3.If(V.pkey(V.hd(l)) == k, V.tl(l), V.VCons(V.hd(l), f(V.tl(l), k)))))


d_update = V.d_update
D_KEYS = V._recfun("d_keys", [V.VL, V.VL], lambda f, l: z3.If(V.is_VNil(l), V.VNil, V.VCons(V.pkey(V.hd(l)), f(V.tl(l)))))
D_VALUES = V._recfun("d_values", [V.VL, V.VL], lambda f, l: z3.If(V.is_VNil(l), V.VNil, V.VCons(V.pval(V.hd(l)), f(V.tl(l)))))


def mlist_method(I, recv, name, args, kwargs):
    if name == "append":
        recv.t = V.VList(V.vsnoc(V.vl(recv.t), V.store_lower(args[0])))
        return None
    if name == "extend":
        recv.t = V.VList(V.vconcat(V.vl(recv.t), V.vl(lower(args[0]))))
        return None
    if name == "index":
        x = lower(args[0])
        if not I.p.branch(V.vcontains(V.vl(recv.t), x), "list.index-present"):
            raise PyRaise(ValueError("x not in list"))
        return SV(V.VInt(V.vl_index(V.vl(recv.t), x)))
    if name == "copy":
        return MList(recv.t)
    if name == "sort" and not args and not kwargs:
        _used("list.sort(): uninterpreted py_sorted(list)")
        recv.t = V.VList(PY_SORTED(V.vl(recv.t)))
        return None
    raise Unsupported(f"list.{name} on symbolic list")


def list_method_pure(I, t, name, args, kwargs):
    if name == "index":
        x = lower(args[0])
        if not I.p.branch(V.vcontains(V.vl(t), x), "list.index-present"):
            raise PyRaise(ValueError("x not in list"))
        return SV(V.VInt(V.vl_index(V.vl(t), x)))
    raise Unsupported(f"mutating list.{name} on a symbolic list value (value semantics)")


def str_method(I, s, name, args, kwargs):
    _used(f"str.{name}")
    if name == "startswith":
        return SV(V.VBool(z3.PrefixOf(sym_str(I, args[0]), s)))
    if name == "endswith":
        return SV(V.VBool(z3.SuffixOf(sym_str(I, args[0]), s)))
    if name in ("lstrip", "rstrip", "strip"):
        if len(args) != 1 or not isinstance(args[0], str) or len(args[0]) == 0:
            raise Unsupported("strip() without a concrete character set")
        chars = z3.Union(*[z3.Re(c) for c in args[0]]) if len(args[0]) > 1 else z3.Re(args[0])
        starts = lambda r: z3.Or(*[z3.PrefixOf(V.S(c), r) for c in args[0]])
        ends = lambda r: z3.Or(*[z3.SuffixOf(V.S(c), r) for c in args[0]])
        r = I.p.fresh("strip", z3.StringSort())
        pre = I.p.fresh("pre", z3.StringSort())
        suf = I.p.fresh("suf", z3.StringSort())
        if name == "lstrip":
            I.p.assume(z3.And(s == z3.Concat(pre, r), z3.InRe(pre, z3.Star(chars)), z3.Not(starts(r))))
            # consequences of the definition, stated to help the string solvers (valid for every s):
            rest = z3.SubString(s, 1, z3.Length(s) - 1)
            I.p.assume(z3.Implies(z3.Not(starts(s)), r == s))
            I.p.assume(z3.Implies(z3.And(starts(s), z3.Not(starts(rest))), r == rest))
        elif name == "rstrip":
            I.p.assume(z3.And(s == z3.Concat(r, suf), z3.InRe(suf, z3.Star(chars)), z3.Not(ends(r))))
        else:
            I.p.assume(z3.And(s == z3.Concat(pre, r, suf), z3.InRe(pre, z3.Star(chars)), z3.InRe(suf, z3.Star(chars)),
                              z3.Not(starts(r)), z3.Not(ends(r))))
        return SV(V.VStr(r))
    if name == "isidentifier":
        return SV(V.VBool(z3.InRe(s, RE_IDENT)))
    if name == "isdigit":
        return SV(V.VBool(z3.InRe(s, z3.Plus(z3.Range("0", "9")))))
    if name == "join":
        raise Unsupported("symbolic separator join")
    raise Unsupported(f"str.{name} on symbolic string")


# ASCII identifiers (GraphQL names and configuration names considered by the properties are ASCII)
RE_IDENT_START = z3.Union(z3.Range("a", "z"), z3.Range("A", "Z"), z3.Re("_"))
RE_IDENT_CONT = z3.Union(RE_IDENT_START, z3.Range("0", "9"))
RE_IDENT = z3.Concat(RE_IDENT_START, z3.Star(RE_IDENT_CONT))


# --------------------------------------------------------------------------- native calls

PURE_STRUCTURAL_METHODS = {
    (list, "append"), (list, "extend"), (list, "insert"), (list, "copy"), (list, "pop"), (list, "reverse"),
    (list, "clear"), (dict, "items"), (dict, "values"), (dict, "keys"), (dict, "copy"), (dict, "clear"),
    (tuple, "__len__"),
}


def call_native(I, fn, args, kwargs):
    if isinstance(fn, _ObjMethod):
        return fn.f(I, fn.t, args, kwargs)
    m = NATIVE.get(fn) if _hashable(fn) else None
    if m is not None:
        return m(I, args, kwargs)
    # bound method of a concrete container / string
    self_obj = getattr(fn, "__self__", None)
    name = getattr(fn, "__name__", "")
    if self_obj is not None and not isinstance(self_obj, type(builtins)):
        mm = None
        for klass in type(self_obj).__mro__:
            mm = METHOD_MODELS.get((klass, name))
            if mm is not None:
                break
        if mm is not None:
            r = mm(I, self_obj, args, kwargs)
            if r is not NotImplemented:
                return r
    if isinstance(fn, type) and issubclass(fn, ast.AST):
        return make_ast_node(I, fn, args, kwargs)
    if isinstance(fn, type) and issubclass(fn, _GQL_NODE) and not args:
        # graphql-core AST node classes (Node.__init__ of graphql-core 3.2): records of their keys; a key that is
        # not passed is None, a list value is stored as a tuple, unknown keyword arguments are dropped
        if fn not in V.REG.by_cls:
            V.REG.register(fn, [k for k in fn.keys if k != "loc"])
        _used("graphql-core Node(**kwargs): one attribute per key (None when not passed), lists stored as tuples")
        attrs = {}
        for k in V.REG.info(fn).fields:      # the registered keys (contracts may register the subset they speak about)
            v = kwargs.get(k)
            if isinstance(v, MList):
                v = SV(V.VTuple(V.vl(v.t)))
            elif isinstance(v, list):
                v = tuple(v)
            elif isinstance(v, SV):
                v = SV(z3.If(V.is_VList(v.t), V.VTuple(V.vl(v.t)), v.t))
            attrs[k] = v
        return Obj(fn, attrs)
    if isinstance(fn, type) and fn in CLASS_MODELS:
        return CLASS_MODELS[fn](I, args, kwargs)
    sym_args = deep_symbolic(args) or deep_symbolic(kwargs)
    if not sym_args and not deep_symbolic(self_obj):
        guard = getattr(I.ctx, "native_guard", None)
        if guard is not None:
            guard(I, fn, args, kwargs)
        try:
            return fn(*args, **kwargs)
        except (PyRaise, Unsupported, V.AliasingUnsupported, PathAbort):
            raise
        except Exception as ex:      # the real library raised: propagate as a Python exception of that class
            raise PyRaise(ex)
    if self_obj is not None and any((k, name) in PURE_STRUCTURAL_METHODS for k in type(self_obj).__mro__) \
            and not isinstance(self_obj, (SV, Obj)):
        try:
            return fn(*args, **kwargs)
        except (PyRaise, Unsupported, V.AliasingUnsupported, PathAbort):
            raise
        except Exception as ex:
            raise PyRaise(ex)
    if isinstance(fn, type) and issubclass(fn, BaseException):
        return Obj(fn, {"args": tuple(args), **kwargs})
    raise Unsupported(f"no model for call of {getattr(fn, '__qualname__', fn)!r} with symbolic arguments")


def _hashable(x):
    try:
        hash(x)
        return True
    except TypeError:
        return False


def make_ast_node(I, cls, args, kwargs):
    fields = list(cls._fields)
    attrs = {}
    for i, a in enumerate(args):
        attrs[fields[i]] = a
    for k, v in kwargs.items():
        if k in ("lineno", "col_offset", "end_lineno", "end_col_offset"):
            continue          # positions: no effect on ast.unparse
        attrs[k] = v
    V.REG.info(cls)
    return Obj(cls, attrs)


try:
    from graphql.language.ast import Node as _GQL_NODE
except ImportError:      # pragma: no cover
    class _GQL_NODE:      # noqa
        pass
CLASS_MODELS = {}
METHOD_MODELS = {}


def method_model(typ, *names):
    def deco(f):
        for n in names:
            METHOD_MODELS[(typ, n)] = f
        return f
    return deco


@method_model(dict, "get")
def _dict_get(I, d, args, kwargs):
    k = args[0]
    default = args[1] if len(args) > 1 else None
    if not deep_symbolic(k):
        return d.get(k, default)
    inside = contains(I, d, k)
    if inside is False:
        return default
    if inside is not True and not I.p.branch(inside, "dict.get-present"):
        return default
    return get_item(I, d, k)


@method_model(dict, "update")
def _dict_update(I, d, args, kwargs):
    other = args[0] if args else {}
    if isinstance(other, dict):
        d.update(other)
        d.update(kwargs)
        return None
    if isinstance(other, (SV, MDict)):
        if not isinstance(d, PDict):
            raise Unsupported("native dict .update(symbolic mapping)")
        ot = lower(other)
        require_kind(I, ot, V.is_VDict, "dict.update(arg)")
        m = MDict(lower(dict(d)))
        m.t = V.VDict(d_update(V.vd(m.t), V.vd(ot)))
        for k, v in kwargs.items():
            m.t = V.VDict(V.d_set(V.vd(m.t), lower(k), lower(v)))
        d.clear()
        d.m = m
        return None
    return NotImplemented


@method_model(dict, "setdefault", "pop", "__contains__")
def _dict_misc(I, d, args, kwargs):
    if deep_symbolic(args[0]):
        raise Unsupported("dict method with symbolic key")
    return NotImplemented


@method_model(dict, "copy")
def _dict_copy(I, d, args, kwargs):
    return PDict(d)


@method_model(set, "add", "update")
def _set_add(I, st, args, kwargs):
    if not deep_symbolic(args):
        return NotImplemented
    if not isinstance(st, PSet):
        raise Unsupported("native set with symbolic elements")
    m = MSet(V.vlist([lower(x) for x in sorted(set.__iter__(st), key=repr)]))
    set.clear(st)
    st.m = m
    name = "add" if not isinstance(args[0], (MSet, list, set, tuple)) and not (isinstance(args[0], SV) and (is_set_term(I, args[0].t) or entailed(I, V.is_VList(args[0].t)))) else "update"
    return call_sym_method(I, m, name, args, kwargs)


@method_model(list, "extend")
def _list_extend(I, l, args, kwargs):
    other = args[0]
    if isinstance(other, (SV, MList)):
        if not isinstance(l, PList):
            raise Unsupported("native list .extend(symbolic sequence)")
        ot = lower(other)
        require_kind(I, ot, V.is_VList, "list.extend(arg)")
        m = MList(V.VList(V.vconcat(V.vl(lower(list(l))), V.vl(ot))))
        l.clear()
        l.m = m
        return None
    return NotImplemented


@method_model(list, "copy")
def _list_copy(I, l, args, kwargs):
    return PList(l)


@method_model(list, "index", "count", "remove", "__contains__")
def _list_index(I, l, args, kwargs):
    if not deep_symbolic(l) and not deep_symbolic(args):
        return NotImplemented
    raise Unsupported("list.index/count/remove on symbolic elements")


@method_model(str, "join")
def _str_join(I, s, args, kwargs):
    items = args[0]
    if isinstance(items, (list, tuple)):
        parts = []
        for i, x in enumerate(items):
            if i:
                parts.append(s)
            parts.append(x)
        if not parts:
            return ""
        return concat_strs(I, parts)
    if isinstance(items, (SV, MList)):
        _used("str.join over a symbolic sequence: uninterpreted text py_join(sep, items)")
        # an over-approximation (nothing is known about the text): what is proved with it holds for the real join, but a
        # counter-model built on it is no witness - failing obligations on this path need a confirming replay
        I.p.imprecise = True
        return SV(V.VStr(PY_JOIN(V.S(s), lower(items))))
    raise Unsupported("str.join over a symbolic sequence")


@method_model(str, "startswith", "endswith", "__contains__")
def _str_pred(I, s, args, kwargs):
    if deep_symbolic(args):
        name = "startswith"
        raise Unsupported("concrete str method with symbolic argument")
    return NotImplemented


# ---- builtins

@model(isinstance)
def _isinstance(I, args, kwargs):
    x, c = args
    if isinstance(x, SV):
        return SV(V.VBool(V.is_instance(x.t, _flatten_classes(c))))
    if isinstance(x, MList):
        return _cls_match(list, c)
    if isinstance(x, MDict):
        return _cls_match(dict, c)
    if isinstance(x, Obj):
        cs = _flatten_classes(c)
        return any(isinstance(k, type) and issubclass(x.cls, k) for k in cs)
    return isinstance(x, c)


def _flatten_classes(c):
    if isinstance(c, tuple):
        out = []
        for x in c:
            out.extend(_flatten_classes(x))
        return tuple(out)
    origin = typing.get_origin(c)
    if origin is typing.Union:
        return _flatten_classes(tuple(typing.get_args(c)))
    return (c,)


def _cls_match(k, c):
    return any(isinstance(x, type) and issubclass(k, x) for x in _flatten_classes(c))


@model(len)
def _len(I, args, kwargs):
    (x,) = args
    if isinstance(x, (SV, MList, MDict)):
        t = lower(x)
        if entailed(I, V.is_VList(t)):
            return SV(V.VInt(V.vl_len(V.vl(t))))
        if entailed(I, V.is_VStr(t)):
            return SV(V.VInt(z3.Length(V.vs(t))))
        if entailed(I, V.is_VDict(t)):
            lookups_only(t, "len()")
            return SV(V.VInt(V.vl_len(V.vd(t))))
        if entailed(I, V.is_VTuple(t)):
            return SV(V.VInt(V.vl_len(V.vt(t))))
        raise Unsupported("len of symbolic value of unknown kind")
    if isinstance(x, Obj):
        raise Unsupported("len(object)")
    return len(x)


@model(str)
def _str(I, args, kwargs):
    if not args:
        return ""
    return to_str(I, args[0])


@model(bool)
def _bool(I, args, kwargs):
    if not args:
        return False
    t = I.truth(args[0])
    return t if isinstance(t, bool) else SV(V.VBool(t))


str_to_int = z3.Function("py_int_of_str", z3.StringSort(), z3.IntSort())
str_to_float = z3.Function("py_float_of_str", z3.StringSort(), z3.RealSort())


@model(int)
def _int(I, args, kwargs):
    (x,) = args
    if isinstance(x, SV):
        t = x.t
        if entailed(I, V.is_VInt(t)):
            return x
        if entailed(I, V.is_VStr(t)):
            _used("int(str): uninterpreted; the GraphQL lexer guarantees IntValue text is a valid int literal")
            return SV(V.VInt(str_to_int(V.vs(t))))
        raise Unsupported("int() of symbolic value of unknown kind")
    return int(x)


@model(float)
def _float(I, args, kwargs):
    (x,) = args
    if isinstance(x, SV):
        t = x.t
        if entailed(I, V.is_VStr(t)):
            _used("float(str): uninterpreted; the GraphQL lexer guarantees FloatValue text is a valid float literal")
            return SV(V.VFloat(str_to_float(V.vs(t))))
        raise Unsupported("float() of symbolic value of unknown kind")
    return float(x)


@model(typing.cast)
def _cast(I, args, kwargs):
    return args[1]


@model(sorted)
def _sorted(I, args, kwargs):
    xs = args[0]
    if isinstance(xs, (list, tuple, set, frozenset, dict)) and not deep_symbolic(xs) and not kwargs:
        return sorted(xs)
    if kwargs and (isinstance(xs, (MSet, SV, MList))):
        raise Unsupported("sorted() with key= / reverse= on symbolic data")
    if isinstance(xs, MSet) or (isinstance(xs, SV) and is_set_term(I, xs.t)):
        el = xs.elems if isinstance(xs, MSet) else V.set_elems(xs.t)
        _used("sorted(set): uninterpreted py_sorted(members); independent of the enumeration order (assumed)")
        return SV(V.VList(PY_SORTED(el)))
    if isinstance(xs, (SV, MList)) and not kwargs:
        t = lower(xs)
        require_kind(I, t, V.is_VList, "sorted(arg)")
        _used("sorted(): uninterpreted py_sorted(list) (a permutation of its argument in ascending order)")
        return SV(V.VList(PY_SORTED(V.vl(t))))
    raise Unsupported("sorted() of symbolic data")


@model(list)
def _list(I, args, kwargs):
    if not args:
        return []
    x = args[0]
    if isinstance(x, MSet):
        _used("list(set): some enumeration of the members (which one depends on the hash seed: order scan, C10)")
        return MList(V.VList(x.elems))
    if isinstance(x, (SV, MList)):
        t = lower(x)
        items = _concrete_list_items(_simpl(t))
        if items is not None:
            return [SV(i) for i in items]
        if entailed(I, V.is_VList(t)):
            return MList(t)
        if entailed(I, V.is_VTuple(t)):
            return MList(V.VList(V.vt(t)))
        raise Unsupported("list() of symbolic value")
    return list(I.iterate(x))


@model(tuple)
def _tuple(I, args, kwargs):
    if not args:
        return ()
    x = args[0]
    if isinstance(x, (SV, MList)):
        t = lower(x)
        items = _concrete_list_items(_simpl(t))
        if items is not None:
            return tuple(SV(i) for i in items)
        if entailed(I, V.is_VTuple(t)):
            return x
        if entailed(I, V.is_VList(t)):
            return SV(V.VTuple(V.vl(t)))
        raise Unsupported("tuple() of symbolic value")
    return tuple(I.iterate(x))


@model(dict)
def _dict(I, args, kwargs):
    if args and isinstance(args[0], (SV, MDict)):
        return MDict(lower(args[0]))
    out = PDict(*args) if args else PDict()
    out.update(kwargs)
    return out


@model(any)
def _any(I, args, kwargs):
    xs = args[0]
    if isinstance(xs, (list, tuple)):
        for x in xs:
            if I.decide(x, "any"):
                return True
        return False
    if isinstance(xs, (SV, MList)):
        t = lower(xs)
        require_kind(I, t, V.is_VList, "any(arg)")
        return SV(V.VBool(V.vl_any(V.vl(t))))
    raise Unsupported("any() over symbolic sequence")


@model(all)
def _all(I, args, kwargs):
    xs = args[0]
    if isinstance(xs, (list, tuple)):
        for x in xs:
            if not I.decide(x, "all"):
                return False
        return True
    if isinstance(xs, (SV, MList)):
        t = lower(xs)
        require_kind(I, t, V.is_VList, "all(arg)")
        return SV(V.VBool(V.vl_all(V.vl(t))))
    raise Unsupported("all() over symbolic sequence")


class SymFilter:
    """filter(pred, <symbolic list>): only consumed by next(..., default)"""

    def __init__(self, pred, xs):
        self.pred, self.xs = pred, xs


@model(filter)
def _filter(I, args, kwargs):
    pred, xs = args
    if isinstance(xs, (SV, MList)) and _concrete_list_items(_simpl(lower(xs))) is None:
        return SymFilter(pred, _seq_term(I, xs))
    if deep_symbolic(xs) and not isinstance(xs, (list, tuple)):
        raise Unsupported("filter() over this symbolic value")
    return [x for x in I.iterate(xs) if I.decide(I.call(pred, [x], {}) if pred is not None else x, "filter")]


@model(next)
def _next(I, args, kwargs):
    it = args[0]
    if isinstance(it, SymFilter) and len(args) == 2:
        # over-approximation: SOME element that satisfies the predicate (the real code takes the first one), the default when no
        # element does.  An element of a comprehension's result is the image of an element of its source.
        _used("next(filter(p, xs), default): some element of xs satisfying p; the default when none does (quantified)")
        xs = z3.simplify(it.xs)
        ent = _MAP_BY_NAME.get(xs.decl().name()) if z3.is_app(xs) else None
        some = I.p.fresh("some_element_satisfies")
        if I.p.branch(z3.Const(some.decl().name() + "!flag", z3.BoolSort()), "next-filter-found"):
            if ent is not None and ent["keep"] is None and xs.num_args() == 1:
                I.p.assume(V.vcontains(xs.arg(0), some))
                for c in elem_facts(I, xs.arg(0), some):
                    I.p.assume(c)
                r = z3.simplify(z3.substitute(ent["body"], (ent["var"], some)))
                # the image of an element under every other unfiltered comprehension over the same source is in that comprehension's
                # result (instances of: e in xs => body(e) in map(xs))
                for m in list(I.p.maps_used.values()):
                    if m.get("keep") is None and m.get("fn") is not None and z3.simplify(m["xs"]).eq(z3.simplify(xs.arg(0))):
                        I.p.assume(V.vl_contains(m["fn"](xs.arg(0)), z3.simplify(z3.substitute(m["body"], (m["var"], some)))))
            else:
                I.p.assume(V.vcontains(xs, some))
                for c in elem_facts(I, xs, some):
                    I.p.assume(c)
                r = some
            I.p.assume(V.vcontains(xs, r))
            v = I.call(it.pred, [SV(r)], {})
            if not I.decide(v, "next-filter-predicate"):
                raise PathAbort()
            return SV(r)
        e = z3.Const("__no_elem_satisfies__", V.Val)
        sub = I.call(it.pred, [SV(e)], {})
        if not isinstance(sub, SV):
            raise Unsupported("next(filter(p, xs), d): the predicate is not a term of its argument")
        I.p.assume(z3.ForAll([e], z3.Implies(V.vl_contains(xs, e), z3.Not(V.truthy(sub.t))), patterns=[V.vl_contains(xs, e)]))
        return args[1]
    raise Unsupported("next() of this iterator")


@model(enumerate)
def _enumerate(I, args, kwargs):
    xs = args[0]
    if isinstance(xs, (SV, MList)):
        items = _concrete_list_items(_simpl(lower(xs)))
        if items is None:
            seq = _seq_term(I, xs)
            return SymEnumerate(seq, args[1] if len(args) > 1 else kwargs.get("start", 0))
        xs = [SV(i) for i in items]
    return list(enumerate(I.iterate(xs), *args[1:]))


@model(zip)
def _zip(I, args, kwargs):
    return list(zip(*[I.iterate(a) for a in args]))


@model(getattr)
def _getattr(I, args, kwargs):
    o, name = args[0], args[1]
    if deep_symbolic(name):
        raise Unsupported("getattr with symbolic name")
    try:
        return I.get_attr(o, name)
    except PyRaise as pr:
        if len(args) > 2 and issubclass(pr.exc_class, AttributeError):
            return args[2]
        raise


@model(hasattr)
def _hasattr(I, args, kwargs):
    o, name = args
    try:
        I.get_attr(o, name)
        return True
    except PyRaise as pr:
        if issubclass(pr.exc_class, AttributeError):
            return False
        raise


@model(print)
def _print(I, args, kwargs):
    return None


@model(type)
def _type(I, args, kwargs):
    if len(args) == 1 and isinstance(args[0], SV):
        return sym_attr(I, args[0], "__class__")
    if len(args) == 1 and isinstance(args[0], Obj):
        return args[0].cls
    if deep_symbolic(args):
        raise Unsupported("type() with symbolic arguments")
    return type(*args)


import keyword as _keyword   # noqa


@model(_keyword.iskeyword)
def _iskeyword(I, args, kwargs):
    (x,) = args
    if isinstance(x, SV):
        _used("keyword.iskeyword = membership in this interpreter's keyword.kwlist")
        t = x.t
        return SV(V.VBool(z3.And(V.is_VStr(t), z3.InRe(V.vs(t), z3.Union(*[z3.Re(k) for k in _keyword.kwlist])))))
    return _keyword.iskeyword(x)


if hasattr(_keyword, "issoftkeyword"):
    @model(_keyword.issoftkeyword)
    def _issoftkeyword(I, args, kwargs):
        (x,) = args
        if isinstance(x, SV):
            _used("keyword.issoftkeyword = membership in this interpreter's keyword.softkwlist")
            t = x.t
            return SV(V.VBool(z3.And(V.is_VStr(t), z3.InRe(V.vs(t), z3.Union(*[z3.Re(k) for k in _keyword.softkwlist])))))
        return _keyword.issoftkeyword(x)


class CharSetOf:
    """set(<symbolic string>): only compared with concrete character sets"""


V.REG.register(CharSetOf, ["s"])


def is_set_term(I, t):
    return entailed(I, z3.And(V.is_VObj(t), V.cls_of(t) == V.REG.info(V.PySet).cid))


@model(set)
def _set(I, args, kwargs):
    if not args:
        return PSet()
    if isinstance(args[0], MSet):
        return MSet(args[0].elems)
    if isinstance(args[0], SV) and is_set_term(I, args[0].t):
        return MSet(V.set_elems(args[0].t))
    x = args[0]
    if isinstance(x, SV) and entailed(I, V.is_VStr(x.t)):
        return Obj(CharSetOf, {"s": x})
    if isinstance(x, (SV, MList)):
        t = lower(x)
        if entailed(I, V.is_VList(t)):
            _used("set(list): members are the list's elements (duplicates irrelevant to membership)")
            return MSet(V.vl(t))
        if entailed(I, V.is_VDict(t)):
            raise Unsupported("set(dict)")
        raise Unsupported("set() of a symbolic value of unknown kind")
    if deep_symbolic(x):
        raise Unsupported("set() with symbolic elements")
    return PSet(I.iterate(x))


def charset_eq(I, cs, concrete):
    s = V.vs(lower(cs.attrs["s"]))
    if not isinstance(concrete, (set, frozenset)) or not all(isinstance(c, str) and len(c) == 1 for c in concrete):
        raise Unsupported("set(str) compared with something that is not a set of characters")
    if not concrete:
        return z3.Length(s) == 0
    chars = sorted(concrete)
    union = z3.Union(*[z3.Re(c) for c in chars]) if len(chars) > 1 else z3.Re(chars[0])
    return z3.And(z3.InRe(s, z3.Plus(union)), *[z3.Contains(s, V.S(c)) for c in chars])


@model(json.loads)
def _json_loads(I, args, kwargs):
    """json.loads on the abstract text domain: JsonText(v) -> v ; NotJsonText -> JSONDecodeError"""
    x = args[0]
    if isinstance(x, Obj) and x.cls is JsonText:
        return x.attrs["value"]
    if isinstance(x, SV):
        t = x.t
        _used("json.loads: loads(dumps(v)) = v; text that is not JSON raises JSONDecodeError")
        is_json = z3.And(V.is_VObj(t), V.cls_of(t) == V.REG.info(JsonText).cid)
        is_not = z3.And(V.is_VObj(t), V.cls_of(t) == V.REG.info(NotJsonText).cid)
        if not entailed(I, z3.Or(is_json, is_not)):
            I.p.oblige("no-raise@json.loads", z3.Or(is_json, is_not), "no-raise", detail="TypeError: json.loads argument")
        if I.p.branch(is_json, "json.loads:valid"):
            return SV(V.attr_of(t, JsonText, "value"))
        raise PyRaise(json.JSONDecodeError("Expecting value", "x", 0))
    raise Unsupported("json.loads of a non-text value")


@model(json.dumps)
def _json_dumps(I, args, kwargs):
    """json.dumps is kept as an abstract, injective encoding: JsonText(value).  Assumed contract:
    json.loads(json.dumps(v)) == v for JSON values (dependency `json`)."""
    _used("json.dumps: abstract injective encoding of the value (loads∘dumps = id assumed)")
    return Obj(JsonText, {"value": args[0]})


class JsonText:
    """Spec-level stand-in for the text produced by json.dumps(value)."""


class NotJsonText:
    """a text that is not valid JSON"""


def _build_json_text(value=None):
    from contracts.lib_http import json_sanitize
    return json.dumps(json_sanitize(value))


V.REG.register(JsonText, ["value"], build=_build_json_text)
V.REG.register(NotJsonText, [], build=lambda: "this is <not> json")
