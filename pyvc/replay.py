"""Concretise a counter-model into real Python values, run the REAL function natively, and evaluate the
contract's clauses on the observed outcome (same clause text, now over ground terms)."""
from __future__ import annotations

import asyncio
import importlib
import inspect
import json
import traceback
import z3

from . import val as V
from .val import lower
from .interp import Path, Ctx
from .contract import Args


def ground_truth(formula, timeout_ms=20000):
    """Truth value of a closed formula (recursive spec functions are unfolded by the solver). None = unknown."""
    f = z3.simplify(formula)
    if z3.is_true(f):
        return True
    if z3.is_false(f):
        return False
    s = z3.Solver()
    s.set("timeout", timeout_ms)
    s.add(z3.Not(f))
    r = s.check()
    if r == z3.unsat:
        return True
    if r == z3.sat:
        return False
    return None


def real_function(target):
    modname, qual = target.split(":")
    from .source import ensure_generated
    ensure_generated(modname)
    obj = importlib.import_module(modname)
    for part in qual.split("."):
        obj = getattr(obj, part)
    return obj


def run_native(fn, args, kwargs):
    try:
        out = fn(*args, **kwargs)
        if inspect.iscoroutine(out):
            out = asyncio.run(out)
        elif inspect.isasyncgen(out):
            async def drain(g):
                return [x async for x in g]
            out = asyncio.run(drain(out))
        return ("return", out)
    except Exception as e:      # noqa
        return ("raise", e)


def _lower_out(contract, out, inputs):
    hook = getattr(contract, "native_lower", None)
    if hook is not None:
        t = hook(out, inputs)
        if t is not None:
            return t
    return lower(out)


def _try_lower(v):
    try:
        return lower(v)
    except V.LowerError:
        return None


def describe(v, depth=0):
    try:
        return json.loads(json.dumps(v))
    except Exception:
        r = repr(v)
        return r if len(r) < 2000 else r[:2000] + "..."


def replay_inputs(contract, inputs):
    """inputs: name -> native Python value. Runs the real function and evaluates the contract.
    returns dict(outcome=..., failed=[clause names], undetermined=[...], pre_ok=bool, error=str|None)"""
    rep = dict(inputs={k: describe(v) for k, v in inputs.items()}, failed=[], undetermined=[], pre_ok=None,
               outcome=None, error=None)
    try:
        args, kwargs = contract.native_args(inputs)
        fn = contract.native_function() if hasattr(contract, "native_function") else real_function(contract.target)
        names = contract.native_names(inputs, args, kwargs) if hasattr(contract, "native_names") else dict(inputs)
        A = Args({k: _try_lower(v) for k, v in names.items()})
        ctx = Ctx()
        p = Path([], ctx)
        A["__path__"] = p
        A["__effects__"] = []
        pre = contract.requires(A)
        if isinstance(pre, dict):
            pre = z3.And(*pre.values()) if pre else z3.BoolVal(True)
        shape_ok = True
        for n, sh in getattr(contract, "native_shapes", lambda: {})().items():
            if n in A and ground_truth(sh.pred(A[n])) is False:
                shape_ok = False
        pt = ground_truth(pre)
        rep["pre_ok"] = bool(pt is not False and shape_ok)
        if not rep["pre_ok"]:
            return rep
        before = {m: lower(names[m]) for m in contract.mutates}
        snap_before = {k: repr(describe(v)) for k, v in inputs.items() if k not in contract.mutates}
        kind, out = run_native(fn, args, kwargs)
        snap_after = {k: repr(describe(v)) for k, v in inputs.items() if k not in contract.mutates}
        if getattr(contract, "frame_args", True) and snap_before != snap_after:
            rep["failed"].append("frame.arguments-not-mutated")
            rep["mutated"] = {k: [snap_before[k], snap_after[k]] for k in snap_before if snap_before[k] != snap_after[k]}
        for m in contract.mutates:
            A[m] = before[m]
            A["final_" + m] = lower(names[m])
        if hasattr(contract, "native_effects"):
            A["__effects__"] = contract.native_effects(inputs)
        if kind == "return":
            rep["outcome"] = {"return": describe(out)}
            clauses = contract.ensures(A, _lower_out(contract, out, inputs))
            prefix = "post"
        else:
            rep["outcome"] = {"raise": type(out).__name__, "message": str(out)[:500]}
            try:
                et = _lower_out(contract, out, inputs)
            except V.LowerError:
                et = V.VAtom(z3.IntVal(V.REG.atom(type(out), type(out).__name__)))
            clauses = contract.on_raise(A, type(out), et)
            prefix = f"raises[{type(out).__name__}]"
        if not isinstance(clauses, dict):
            clauses = {"post": clauses}
        for k, f in clauses.items():
            t = ground_truth(f)
            if t is False:
                rep["failed"].append(f"{prefix}.{k}")
            elif t is None:
                rep["undetermined"].append(f"{prefix}.{k}")
        if kind == "return" and rep["failed"] and hasattr(contract, "same_meaning") \
                and all(f.startswith("post.") for f in rep["failed"]):
            # the postcondition pins a representation (an AST); the property speaks about what it denotes.  A result
            # that differs in representation only is not a counterexample to the property (see contracts/c16_meaning.py)
            try:
                same = contract.same_meaning(inputs, out)
            except Exception:     # noqa
                same = False
            if same:
                rep["representation_only"] = rep["failed"]
                rep["failed"] = []
    except Exception as e:      # noqa
        rep["error"] = "".join(traceback.format_exception_only(type(e), e)).strip() + " | " + traceback.format_exc()[-1500:]
    return rep


def concretise(contract, model):
    """model: name -> ground z3 Val term. -> name -> native value (through the registered builders and the
    contract's repair hook)."""
    out = {}
    for name, term in model.items():
        v = V.decode(term)
        fix = getattr(contract, "repair", None)
        if fix:
            v = fix(name, v)
        out[name] = v
    return out
