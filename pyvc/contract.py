"""Contracts on real functions and the per-function verification driver.

A contract is a Python class (sidecar, under /verif/contracts) naming one function of /repo:

    class GetData(Contract):
        target = "ariadne_codegen.client_generators.dependencies.base_client:BaseClient.get_data"
        def setup(self, E): ...            # symbolic inputs (with shapes) -> positional/keyword args
        def requires(self, A): ...         # extra precondition over the lowered arguments (BoolRef)
        def ensures(self, A, res): ...     # dict clause-name -> BoolRef, for a normal return
        def on_raise(self, A, exc_cls, exc): ...  # dict clause-name -> BoolRef, for an escaping exception

The driver symbolically executes the *real* body path by path; every path end produces the named
obligations `post.<clause>` / `raises.<clause>`; exception-freedom obligations (`no-raise@…`) and call-site
preconditions (`pre@callee.<clause>`) are produced on the way.  An obligation is discharged iff it is `unsat`
on every path.  At call sites of a function that has a contract only the contract is used.
"""
from __future__ import annotations

import time
import traceback
import types
import z3

from . import val as V
from . import models
from .val import SV, Obj, MList, MDict, lower
from .interp import (Ctx, Path, Interp, Closure, BoundMethod, PyRaise, PathAbort, Unsupported, explore, Env)
from .shapes import Shape, assume_shape
from .source import SourceIndex


class Args(dict):
    """lowered arguments by name: A.name / A['name']"""
    __getattr__ = dict.__getitem__


class SetupEnv:
    """Given to Contract.setup: creates symbolic inputs."""

    def __init__(self, path, ctx):
        self.p, self.ctx = path, ctx

    def sym(self, name, shape: Shape = None):
        t = z3.Const(name, V.Val)
        self.ctx.inputs[name] = t
        if shape is not None:
            assume_shape(self.p, shape, t)
            self.ctx.__dict__.setdefault("input_shapes", {})[name] = shape
        return SV(t)

    def sym_bool(self, name):
        b = z3.Bool(name)
        self.ctx.inputs[name] = V.VBool(b)
        return SV(V.VBool(b))

    def sym_str(self, name, regex=None):
        s = z3.String(name)
        self.ctx.inputs[name] = V.VStr(s)
        if regex is not None:
            self.p.assume(z3.InRe(s, regex))
        return SV(V.VStr(s))

    def sym_int(self, name):
        i = z3.Int(name)
        self.ctx.inputs[name] = V.VInt(i)
        return SV(V.VInt(i))

    def mset(self, name, elem_shape=None):
        """a set-typed input: an arbitrary duplicate-free enumeration of its members"""
        from .shapes import ListOf
        from .val import MSet
        t = z3.Const(name, V.Val)
        self.ctx.inputs[name] = t
        if elem_shape is not None:
            assume_shape(self.p, ListOf(elem_shape), t)
        else:
            self.p.assume(V.is_VList(t))
        return MSet(V.vl(t))

    def mlist(self, name, elem_shape=None):
        from .shapes import ListOf
        t = z3.Const(name, V.Val)
        self.ctx.inputs[name] = t
        sh = ListOf(elem_shape) if elem_shape is not None else None
        if sh is not None:
            assume_shape(self.p, sh, t)
        else:
            self.p.assume(V.is_VList(t))
        return MList(t)

    def assume(self, b):
        self.p.assume(b)

    def fork(self, name):
        """case split in the setup (e.g. optional argument given / not given): Python bool, both cases explored"""
        b = z3.Bool(name)
        self.ctx.inputs[name] = V.VBool(b)
        return self.p.branch(b, f"case:{name}")

    def assume_shape_if(self, guard, shape, term):
        """conditional shape assumption: guard => shape(term); element facts are registered under the guard"""
        from .shapes import _guarded_on_assume
        self.p.assume(z3.Implies(guard, shape.pred(term)))
        _guarded_on_assume(self.ctx, shape, z3.simplify(term), guard)


def self_obj(cls, attrs):
    """the `self` a contract's setup provides: attribute reads that the setup did not anticipate make the function
    *unsupported* (the code grew new state) rather than raising AttributeError"""
    return Obj(cls, attrs, oid=-7)


class Contract:
    target = None          # "module:qualname"
    props = ()             # property ids this contract serves
    use_at_calls = True    # replace calls by the contract (else the callee is inlined)
    bound_self = None      # for methods: setup returns the `self` object as first positional argument
    trusted = ()           # human-readable assumed contracts used by this spec
    mutates = ()           # names of (mutable) parameters whose final value the contract talks about
    regions = {}           # region id -> predicate over A (BoolRef): input regions of recorded known findings
    excluded = ()          # region ids currently carved out of the precondition (set by the driver, never by hand)

    # -- to be provided
    def setup(self, E: SetupEnv):
        """-> (args list, kwargs dict) of interpreter values"""
        raise NotImplementedError

    def requires(self, A):
        return z3.BoolVal(True)

    def ensures(self, A, res):
        return {}

    def on_raise(self, A, exc_cls, exc):
        """clauses that must hold when exception of class exc_cls (value term exc) escapes.
        Default: no exception may escape."""
        return {"none": z3.BoolVal(False)}

    # -- call-site use (default: pure function, may not raise)
    def call_names(self, fn, args, kwargs, I):
        env = Env()
        I.bind_args(fn, env, args, kwargs)
        return env.vars

    def may_raise(self, A, I):
        """list of (exception class, condition BoolRef, exception value (interpreter value)) used at call sites"""
        return []

    def apply_at_call(self, I, fn, args, kwargs):
        names = self.call_names(fn, args, kwargs, I)
        A = Args({k: _lower_arg(v) for k, v in names.items()})
        pre = self.requires(A)
        label = self.target.split(":")[1]
        if isinstance(pre, dict):
            for k, f in pre.items():
                I.p.oblige(f"pre@{label}.{k}", f, "pre@call")
        else:
            I.p.oblige(f"pre@{label}", pre, "pre@call")
        if I.ctx.current_key == (self.target.split(":")[0], self.target.split(":")[1]) and not getattr(self, "partial_correctness", False):
            # (partial_correctness: the contract is proved for terminating calls only; it lists the reason as an assumption)
            self.check_decreases(I, A)
        for exc_cls, cond, exc_val in self.may_raise(A, I):
            if I.p.branch(cond, f"raises@{label}:{exc_cls.__name__}"):
                raise PyRaise(exc_val)
        rt = getattr(self, "result_term", None)
        res = rt(A) if rt is not None else I.p.fresh("ret_" + label.split(".")[-1])
        finals = {}
        for m in self.mutates:
            finals[m] = I.p.fresh("final_" + m)
            A["final_" + m] = finals[m]
        post = self.ensures(A, res) if rt is None or self.mutates else {}
        for k, f in (post.items() if isinstance(post, dict) else [("post", post)]):
            I.p.assume(f)
        for m, t in finals.items():
            self.write_back(I, names[m], m, t)
        models._used(f"contract:{self.target}")
        I.ctx.__dict__.setdefault("contracts_used", set()).add(self.target)
        return self.lift_result(I, res)

    def lift_result(self, I, res):
        return SV(res)

    def write_back(self, I, value, name, term):
        if isinstance(value, (MList, MDict)):
            value.t = term
        else:
            raise Unsupported(f"contract {self.target} mutates parameter {name} which is not a symbolic container")

    # -- native replay hooks
    def native_self(self):
        """real instance for methods (default: none)"""
        return None

    def native_function(self):
        from .replay import real_function
        modname, qual = self.target.split(":")
        if "." in qual and "<locals>" not in qual:
            inst = self.native_self()
            if inst is not None:
                return getattr(inst, qual.split(".")[-1])
        return real_function(self.target)

    def native_args(self, inputs):
        """inputs (by symbolic-input name == parameter name) -> (args, kwargs) for the real function"""
        return [], dict(inputs)

    def native_names(self, inputs, args, kwargs):
        return dict(inputs)

    def check_decreases(self, I, A):
        """structural recursion: the recursive argument must be a proper sub-term of the entry argument."""
        d = getattr(self, "decreases", None)
        if d is None:
            raise Unsupported(f"recursive call of {self.target} without a decreases clause")
        entry = I.ctx.__dict__.get("entry_args")
        sub = d(A)
        top = d(entry)
        ok = _is_proper_subterm(z3.simplify(sub), z3.simplify(top), I)
        I.p.oblige(f"decreases", z3.BoolVal(ok), "decreases",
                   detail=f"recursive argument {z3.simplify(sub)} must be a proper sub-term of {z3.simplify(top)}")


def _is_proper_subterm(sub, top, I):
    """sub is built from accessor applications (hd/tl/fs/vl/...) over top, or is an element variable of a list
    that is such a sub-term (elements of a finite list inside a finite term are smaller than the term)."""
    accessors = {"hd", "tl", "fs", "vl", "vt", "vd", "cls", "oid"}
    seen = 0
    t = sub
    elem_parent = I.ctx.__dict__.get("elem_parents", {})
    while True:
        if t.eq(top):
            return seen > 0
        if z3.is_app(t) and t.decl().name() in accessors and t.num_args() == 1:
            t = t.arg(0)
            seen += 1
            continue
        if z3.is_const(t) and t.get_id() in elem_parent:
            t = z3.simplify(elem_parent[t.get_id()])      # (e.g. vl(VList(vd(obj))) for the items of a dict: vd(obj))
            seen += 1
            continue
        if z3.is_app(t) and t.decl().name() == "if":
            return _is_proper_subterm(t.arg(1), top, I) and _is_proper_subterm(t.arg(2), top, I)
        return False


def _lower_arg(v):
    try:
        return lower(v)
    except V.LowerError as e:
        import sys
        print(f"note: argument not lowered ({e})", file=sys.stderr)
        return None


# --------------------------------------------------------------------------- verification of one function

class Result:
    def __init__(self, contract):
        self.contract = contract
        self.obligations = {}     # name -> dict(status, kind, paths, time, models[], detail)
        self.paths = 0
        self.unsupported = []
        self.error = None
        self.time = 0.0
        self.source_hashes = {}
        self.models_used = set()
        self.contracts_used = set()
        self.post_paths = 0

    def add(self, ob):
        d = self.obligations.setdefault(ob.name, dict(status="unsat", kind=ob.kind, queries=0, time=0.0, models=[],
                                                      detail="", unknown_reasons=[], backends={}))
        d["queries"] += 1
        d["backends"][ob.backend] = d["backends"].get(ob.backend, 0) + 1
        d["time"] += ob.time
        if ob.status == "sat":
            d["status"] = "sat"
            d["imprecise"] = d.get("imprecise", True) and getattr(ob, "imprecise", False)
            if len(d["models"]) < 5:
                d["models"].append(ob.model)
            d["detail"] = d["detail"] or ob.detail
        elif ob.status == "unknown" and d["status"] != "sat":
            d["status"] = "unknown"
            d["unknown_reasons"].append(ob.reason)
            d["detail"] = d["detail"] or ob.detail


def verify(contract: Contract, src: SourceIndex = None, contracts=None, timeout_ms=10000, extra_ctx=None):
    """Symbolically execute the real function under `contract`; returns Result."""
    src = src or SourceIndex()
    res = Result(contract)
    t0 = time.time()
    modname, qual = contract.target.split(":")
    ctx = Ctx()
    ctx.models = models
    ctx.query_timeout_ms = timeout_ms
    ctx.deadline = time.time() + (600 if timeout_ms <= 30000 else 2400)
    ctx.current_key = (modname, qual)
    ctx.contracts = {}
    for c in (contracts or []):
        if c.use_at_calls or c is contract:
            m, q = c.target.split(":")
            ctx.contracts[(m, q)] = c
    ctx.contracts[(modname, qual)] = contract
    if extra_ctx:
        extra_ctx(ctx)
    ctx.assume_proved = bool(getattr(contract, "assume_proved", False))
    ctx.loop_specs = dict(getattr(contract, "loops", {}) or {})
    ctx.while_specs = dict(getattr(contract, "while_loops", {}) or {})
    ctx.comp_loop_specs = dict(getattr(contract, "comprehension_loops", {}) or {})
    hook = getattr(contract, "configure", None)
    if hook:
        hook(ctx)
    try:
        fn = src.closure(modname, qual)
    except LookupError as e:
        res.error = f"target not found: {e}"
        res.time = time.time() - t0
        return res
    models.USED.clear()

    def run(p: Path):
        I = Interp(p, src)
        E = SetupEnv(p, ctx)
        cvars = contract.closure_env(E) if hasattr(contract, "closure_env") else None
        args, kwargs = contract.setup(E)
        fn_run = fn
        if cvars is not None:
            cenv = Env()
            cenv.vars.update(cvars)
            fn_run = Closure(fn.node, cenv, fn.module, fn.name, qualname=fn.qualname, is_async=fn.is_async)
            cenv.vars.setdefault(fn.name, fn_run)      # a nested function can call itself through the enclosing scope
            p.closure_env = cenv
        env = Env()
        I.bind_args(fn_run, env, list(args), dict(kwargs))
        names = dict(env.vars)
        A = Args({k: _lower_arg(v) for k, v in names.items()})
        try:
            pre = contract.requires(A)
        except KeyError as e:
            raise Unsupported(f"the contract refers to parameter {e} which the function no longer has (signature changed)")
        if isinstance(pre, dict):
            pre = z3.And(*pre.values()) if pre else z3.BoolVal(True)
        p.assume(pre)
        for rid in contract.excluded:
            p.assume(z3.Not(contract.regions[rid](A)))
        ctx.entry_args = A
        p.entry_names = names
        p.entry_A = A
        out = I.call_closure(fn_run, list(args), dict(kwargs))
        return out

    try:
        outs = explore(run, ctx)
    except Exception as e:       # engine failure
        res.error = "engine error: " + "".join(traceback.format_exception_only(type(e), e)).strip() + "\n" + traceback.format_exc()
        res.time = time.time() - t0
        return res

    for p, (kind, out) in outs:
        res.paths += 1
        if kind == "unsupported":
            res.unsupported.append(out)
            for ob in p.obligations:
                res.add(ob)
            continue
        if kind == "abort":
            for ob in p.obligations:
                res.add(ob)
            continue
        A = Args(p.entry_A)
        for m in contract.mutates:
            A["final_" + m] = _lower_arg(p.entry_names[m])
        A["__effects__"] = p.effects
        A["__path__"] = p
        try:
            if kind == "return":
                rt = lower(out)
                clauses = contract.ensures(A, rt)
                prefix = "post"
            else:
                exc = out.exc
                et = lower(exc) if isinstance(exc, (Obj, SV)) else V.VAtom(z3.IntVal(V.REG.atom(type(exc), type(exc).__name__)))
                clauses = contract.on_raise(A, out.exc_class, et)
                prefix = f"raises[{out.exc_class.__name__}]"
                if not isinstance(exc, (Obj, SV)):
                    p.native_exc = repr(exc)
            if not isinstance(clauses, dict):
                clauses = {"post": clauses}
            res.post_paths += 1
            for k, f in clauses.items():
                p.oblige(f"{prefix}.{k}", f, "post" if kind == "return" else "raises",
                         detail=(getattr(p, "native_exc", "") if kind == "raise" else ""), assume_after=False)
        except V.LowerError as e:
            res.unsupported.append(f"result cannot be lowered: {e}")
        except Unsupported as e:
            res.unsupported.append(str(e))
        except KeyError as e:
            # the contract names a parameter the function no longer has: its signature changed, the contract does not apply
            res.unsupported.append(f"the contract refers to parameter {e} which the function no longer has (signature changed)")
        for ob in p.obligations:
            res.add(ob)
    res.time = time.time() - t0
    res.source_hashes = dict(src.used)
    res.models_used = set(models.USED)
    res.contracts_used = set(ctx.__dict__.get("contracts_used", set()))
    return res
