"""Universal value sort `Val` (z3 algebraic datatype) and the lowering of interpreter
values into it.

Everything the symbolic interpreter cannot keep concrete is a term of this sort, so
that callee contracts, spec functions and equalities live in one first-order language:

    Val = VNone | VBool(b) | VInt(i) | VStr(s) | VFloat(r) | VList(VL) | VTuple(VL)
        | VDict(VL of VTuple[k, v], insertion order) | VObj(cls:Int, fs:VL, oid:Int) | VAtom(aid:Int)
    VL  = VNil | VCons(hd: Val, tl: VL)

Assumptions of the encoding (reported in every evidence file):
  * Python int = SMT Int (exact), str = SMT String, float = SMT Real (no float arithmetic is
    performed by code under contract; floats are only carried);
  * objects are records: class tag + field list (+ object identity `oid` for classes whose
    equality is identity); AST nodes compare structurally (the code under contract never
    compares AST nodes with ==);
  * dict = association list in insertion order with distinct keys.
"""
from __future__ import annotations

import ast as pyast
import dataclasses
import z3

z3.set_param("model.compact", False)

_Val = z3.Datatype("Val")
_VL = z3.Datatype("VL")
_Val.declare("VNone")
_Val.declare("VBool", ("vb", z3.BoolSort()))
_Val.declare("VInt", ("vi", z3.IntSort()))
_Val.declare("VStr", ("vs", z3.StringSort()))
_Val.declare("VFloat", ("vf", z3.RealSort()))
_Val.declare("VList", ("vl", _VL))
_Val.declare("VTuple", ("vt", _VL))
_Val.declare("VDict", ("vd", _VL))
_Val.declare("VObj", ("cls", z3.IntSort()), ("fs", _VL), ("oid", z3.IntSort()))
_Val.declare("VAtom", ("aid", z3.IntSort()))
_VL.declare("VNil")
_VL.declare("VCons", ("hd", _Val), ("tl", _VL))
Val, VL = z3.CreateDatatypes(_Val, _VL)

VNone = Val.VNone
VBool, VInt, VStr, VFloat = Val.VBool, Val.VInt, Val.VStr, Val.VFloat
VList, VTuple, VDict, VObj, VAtom = Val.VList, Val.VTuple, Val.VDict, Val.VObj, Val.VAtom
VNil, VCons = VL.VNil, VL.VCons
is_VNone, is_VBool, is_VInt, is_VStr = Val.is_VNone, Val.is_VBool, Val.is_VInt, Val.is_VStr
is_VFloat, is_VList, is_VTuple, is_VDict = Val.is_VFloat, Val.is_VList, Val.is_VTuple, Val.is_VDict
is_VObj, is_VAtom = Val.is_VObj, Val.is_VAtom
is_VNil, is_VCons = VL.is_VNil, VL.is_VCons
vb, vi, vs, vf, vl, vt, vd = Val.vb, Val.vi, Val.vs, Val.vf, Val.vl, Val.vt, Val.vd
cls_of, fs_of, oid_of, aid_of = Val.cls, Val.fs, Val.oid, Val.aid
hd, tl = VL.hd, VL.tl


def S(s):  # string literal
    return z3.StringVal(s)


# --------------------------------------------------------------------------- class registry

class ClassInfo:
    def __init__(self, pycls, cid, fields, identity=False, build=None, getter=None, name=None):
        self.pycls, self.cid, self.fields = pycls, cid, list(fields)
        self.identity, self.build, self.getter = identity, build, getter
        self.name = name or getattr(pycls, "__name__", str(pycls))
        self.computed = {}    # attribute name -> fn(I, term) -> interpreter value   (assumed library semantics)
        self.methods = {}     # method name -> fn(I, term, args, kwargs) -> interpreter value


class Registry:
    """Maps Python classes to integer tags and ordered field lists; maps singleton atoms
    (UNSET, Undefined, ...) to atom ids.  Closed world: isinstance on a symbolic value ranges over the
    registered classes only; shape predicates in the contracts keep symbolic inputs inside it."""

    def __init__(self):
        self.by_cls, self.by_id = {}, {}
        self.atoms, self.atom_by_id = {}, {}
        self._next = 1

    def register(self, pycls, fields=None, identity=False, build=None, getter=None):
        if pycls in self.by_cls:
            info = self.by_cls[pycls]
            if fields is not None and list(fields) != info.fields:
                raise ValueError(f"class {pycls} re-registered with different fields")
            return info
        if fields is None:
            if isinstance(pycls, type) and issubclass(pycls, pyast.AST):
                fields = list(pycls._fields)
            elif dataclasses.is_dataclass(pycls):
                fields = [f.name for f in dataclasses.fields(pycls)]
            else:
                raise ValueError(f"class {pycls} has no registered field list")
        info = ClassInfo(pycls, self._next, fields, identity, build, getter)
        self._next += 1
        self.by_cls[pycls] = info
        self.by_id[info.cid] = info
        return info

    def info(self, pycls):
        if pycls not in self.by_cls:
            return self.register(pycls)
        return self.by_cls[pycls]

    def subclasses(self, pycls):
        return [i for c, i in self.by_cls.items() if isinstance(c, type) and isinstance(pycls, type) and issubclass(c, pycls)]

    def atom(self, obj, name=None):
        key = id(obj)
        if key not in self.atoms:
            n = len(self.atoms) + 1
            self.atoms[key] = (n, obj, name or repr(obj))
            self.atom_by_id[n] = obj
        return self.atoms[key][0]

    def is_atom(self, obj):
        return id(obj) in self.atoms


REG = Registry()


# --------------------------------------------------------------------------- interpreter-side values

class SV:
    """A symbolic value: a z3 term of sort Val."""
    __slots__ = ("t",)

    def __init__(self, t):
        assert t.sort() == Val, t.sort()
        self.t = t

    def __repr__(self):
        return f"SV({z3.simplify(self.t)})"

    def __bool__(self):
        raise TypeError("symbolic value used as a concrete bool (engine bug)")

    __hash__ = object.__hash__


class Obj:
    """An object created by interpreted code (or given as input with a concrete class):
    real class, attribute dict.  Mutable, identity = Python identity."""
    __slots__ = ("cls", "attrs", "oid")

    def __init__(self, cls, attrs=None, oid=0):
        self.cls, self.attrs, self.oid = cls, dict(attrs or {}), oid

    def __repr__(self):
        return f"Obj<{self.cls.__name__}>({self.attrs})"


class MList:
    """Mutable list whose content is symbolic (a Val term with is_VList)."""
    __slots__ = ("t",)

    def __init__(self, t):
        self.t = t

    def __repr__(self):
        return f"MList({z3.simplify(self.t)})"


class MDict:
    __slots__ = ("t",)

    def __init__(self, t):
        self.t = t

    def __repr__(self):
        return f"MDict({z3.simplify(self.t)})"

    def entry(self, k):
        """value bound to k (ABSENT if none): lets d[k] be a DDEntry view that can be appended to in place"""
        return dget(vd(self.t), k, ABSENT)


class AliasingUnsupported(Exception):
    pass


def _guard(name, base):
    def method(self, *a, **k):
        if self._frozen:
            raise AliasingUnsupported(f"{base.__name__}.{name} after the container was stored by value into a symbolic container")
        return getattr(base, name)(self, *a, **k)
    method.__name__ = name
    method.__qualname__ = f"{base.__name__}.{name}"
    return method


class PDict(dict):
    """dict created by interpreted code. Stays a concrete Python dict until it is updated with symbolic content;
    then `.m` holds the MDict that every alias sees (loads are normalised to it by the interpreter).
    Storing it *into* a symbolic container takes a by-value snapshot; it is frozen afterwards so that a later
    in-place mutation (which Python would make visible through the alias) is reported as unsupported, not ignored."""
    m = None
    _frozen = False


for _n in ("__setitem__", "__delitem__", "update", "setdefault", "pop", "popitem", "clear"):
    setattr(PDict, _n, _guard(_n, dict))


class PList(list):
    m = None
    _frozen = False


for _n in ("__setitem__", "__delitem__", "append", "extend", "insert", "pop", "remove", "clear", "sort", "reverse", "__iadd__"):
    setattr(PList, _n, _guard(_n, list))


def store_lower(v):
    """lower a value that is being stored into a symbolic container (freezes mutable concrete containers)"""
    if isinstance(v, (PDict, PList)):
        v._frozen = True
        for x in (v.values() if isinstance(v, dict) else v):
            if isinstance(x, (PDict, PList)):
                store_lower(x)
    return lower(v)


def norm(v):
    if isinstance(v, PSet) and v.m is not None:
        return v.m
    if isinstance(v, PDict) and v.m is not None:
        return v.m
    if isinstance(v, PList) and v.m is not None:
        return v.m
    return v


class MDefaultDict:
    """collections.defaultdict(list) with symbolic content: association list; missing keys read as the empty list"""
    __slots__ = ("t",)

    def __init__(self, t):
        self.t = t

    def entry(self, k):
        return dget(vd(self.t), k, VList(VNil))


class DDEntry:
    """d[k] of an MDefaultDict: a view that can be appended to / iterated"""
    __slots__ = ("d", "k")

    def __init__(self, d, k):
        self.d, self.k = d, k

    @property
    def t(self):
        return self.d.entry(self.k)


class PySet:
    """record class for Python sets: field `elems` is *some* enumeration of the members (a list without duplicates);
    code that depends on which enumeration it is, is order-dependent (hash seed)"""


class MSet:
    """mutable symbolic set"""
    __slots__ = ("elems",)

    def __init__(self, elems):
        self.elems = elems        # VL term

    @property
    def t(self):
        return VObj(z3.IntVal(REG.info(PySet).cid), VCons(VList(self.elems), VNil), z3.IntVal(0))


class PSet(set):
    m = None


def is_symbolic(v):
    return isinstance(v, (SV, MList, MDict))


def deep_symbolic(v, _depth=0):
    """True if v contains symbolic leaves or interpreter objects (cannot be handed to native code)."""
    if isinstance(v, (SV, MList, MDict, Obj, MDefaultDict, DDEntry, MSet)):
        return True
    if isinstance(v, (PDict, PList, PSet)) and v.m is not None:
        return True
    if _depth > 50:
        return False
    if isinstance(v, (list, tuple, set, frozenset)):
        return any(deep_symbolic(x, _depth + 1) for x in v)
    if isinstance(v, dict):
        return any(deep_symbolic(k, _depth + 1) or deep_symbolic(x, _depth + 1) for k, x in v.items())
    return False


# --------------------------------------------------------------------------- lowering

def vlist(items):
    r = VNil
    for x in reversed(list(items)):
        r = VCons(x, r)
    return r


class LowerError(Exception):
    pass


def lower(v, _seen=None):
    """Interpreter value -> Val term."""
    import enum
    if isinstance(v, SV):
        return v.t
    if isinstance(v, (MList, MDict, MDefaultDict, DDEntry, MSet)):
        return v.t
    if isinstance(v, PSet) and v.m is not None:
        return v.m.t
    if isinstance(v, (set, frozenset)):
        try:
            items = sorted(v, key=repr)
        except TypeError:
            items = list(v)
        return VObj(z3.IntVal(REG.info(PySet).cid), VCons(VList(vlist(lower(x) for x in items)), VNil), z3.IntVal(0))
    if v is None:
        return VNone
    if isinstance(v, bool):
        return VBool(z3.BoolVal(v))
    if isinstance(v, enum.Enum):
        if isinstance(v, str):
            return VStr(S(str.__str__(v.value)))
        return VObj(z3.IntVal(REG.register(type(v), ["name"]).cid), vlist([VStr(S(v.name))]), z3.IntVal(0))
    if isinstance(v, int):
        return VInt(z3.IntVal(v))
    if isinstance(v, str):
        return VStr(S(str(v)))
    if isinstance(v, float):
        if v != v or v in (float("inf"), float("-inf")):
            return VAtom(z3.IntVal(REG.atom(v, repr(v))))
        return VFloat(z3.RealVal(repr(v)))
    if isinstance(v, z3.ExprRef):
        if v.sort() == Val:
            return v
        if v.sort() == z3.BoolSort():
            return VBool(v)
        if v.sort() == z3.IntSort():
            return VInt(v)
        if v.sort() == z3.StringSort():
            return VStr(v)
        raise LowerError(f"cannot lower z3 term of sort {v.sort()}")
    if isinstance(v, (PDict, PList)) and v.m is not None:
        return v.m.t
    if isinstance(v, list):
        return VList(vlist(lower(x) for x in v))
    if isinstance(v, tuple):
        return VTuple(vlist(lower(x) for x in v))
    if isinstance(v, dict):
        return VDict(vlist(VTuple(vlist([lower(k), lower(x)])) for k, x in v.items()))
    if isinstance(v, Obj):
        if v.cls not in REG.by_cls and not (isinstance(v.cls, type) and issubclass(v.cls, pyast.AST)) \
                and not dataclasses.is_dataclass(v.cls):
            REG.register(v.cls, sorted(v.attrs))
        info = REG.info(v.cls)
        # (stand-in methods that a contract's setup attached to the object are not state)
        extra = {a for a in set(v.attrs) - set(info.fields) if type(v.attrs[a]).__name__ != "ModelMethod"}
        if extra:
            raise LowerError(f"{v.cls.__name__} object has attributes {sorted(extra)} outside its registered fields")
        fields = []
        is_ast = isinstance(v.cls, type) and issubclass(v.cls, pyast.AST)
        for f in info.fields:
            if f in v.attrs:
                fields.append(lower(v.attrs[f]))
            elif is_ast:
                fields.append(VNone)       # unset optional AST field == None for ast.unparse
            else:
                fields.append(VAtom(z3.IntVal(REG.atom(_MISSING, "<missing>"))))
        oid = v.oid if info.identity else 0
        return VObj(z3.IntVal(info.cid), vlist(fields), z3.IntVal(oid) if isinstance(oid, int) else oid)
    if REG.is_atom(v):
        return VAtom(z3.IntVal(REG.atom(v)))
    if isinstance(v, pyast.AST):
        info = REG.info(type(v))
        return VObj(z3.IntVal(info.cid), vlist([lower_native(getattr(v, f, None)) for f in info.fields]), z3.IntVal(0))
    if isinstance(v, type) or callable(v):
        return VAtom(z3.IntVal(REG.atom(v, getattr(v, "__qualname__", repr(v)))))
    # a real (native) object of a registered class: lower through its getter / getattr
    for klass in type(v).__mro__:
        if klass in REG.by_cls:
            info = REG.by_cls[klass]
            get = info.getter or (lambda o, f: getattr(o, f, _MISSING))
            fields = [lower_native(get(v, f)) for f in info.fields]
            oid = REG.atom(v) + 1000 if info.identity else 0
            return VObj(z3.IntVal(info.cid), vlist(fields), z3.IntVal(oid))
    raise LowerError(f"cannot lower {type(v)}: {v!r}")


class _Missing:
    def __repr__(self):
        return "<missing>"


_MISSING = _Missing()
REG.atom(_MISSING, "<missing>")


def lower_native(v):
    if v is _MISSING:
        return VAtom(z3.IntVal(REG.atom(_MISSING)))
    return lower(v)


# --------------------------------------------------------------------------- recursive helper functions over VL

def _recfun(name, sorts, body):
    f = z3.RecFunction(name, *sorts)
    args = [z3.FreshConst(s, "a") for s in sorts[:-1]]
    z3.RecAddDefinition(f, args, body(f, *args))
    return f


vl_len = _recfun("vl_len", [VL, z3.IntSort()],
                 lambda f, l: z3.If(is_VNil(l), z3.IntVal(0), 1 + f(tl(l))))
vl_snoc = _recfun("vl_snoc", [VL, Val, VL],
                  lambda f, l, x: z3.If(is_VNil(l), VCons(x, VNil), VCons(hd(l), f(tl(l), x))))
vl_concat = _recfun("vl_concat", [VL, VL, VL],
                    lambda f, a, b: z3.If(is_VNil(a), b, VCons(hd(a), f(tl(a), b))))
vl_contains = _recfun("vl_contains", [VL, Val, z3.BoolSort()],
                      lambda f, l, x: z3.If(is_VNil(l), z3.BoolVal(False), z3.Or(hd(l) == x, f(tl(l), x))))
vl_index = _recfun("vl_index", [VL, Val, z3.IntSort()],   # index of first occurrence (len if absent)
                   lambda f, l, x: z3.If(is_VNil(l), z3.IntVal(0), z3.If(hd(l) == x, z3.IntVal(0), 1 + f(tl(l), x))))


def _pair(k, v):
    return VTuple(VCons(k, VCons(v, VNil)))


def pkey(p):
    return hd(vt(p))


def pval(p):
    return hd(tl(vt(p)))


ABSENT = VAtom(z3.IntVal(REG.atom(_MISSING)))
d_has = _recfun("d_has", [VL, Val, z3.BoolSort()],
                lambda f, l, k: z3.If(is_VNil(l), z3.BoolVal(False), z3.Or(pkey(hd(l)) == k, f(tl(l), k))))
d_get = _recfun("d_get", [VL, Val, Val],      # value of the first pair with key k; ABSENT when there is none
                lambda f, l, k: z3.If(is_VNil(l), ABSENT, z3.If(pkey(hd(l)) == k, pval(hd(l)), f(tl(l), k))))
d_set = _recfun("d_set", [VL, Val, Val, VL],
                lambda f, l, k, v: z3.If(is_VNil(l), VCons(_pair(k, v), VNil),
                                         z3.If(pkey(hd(l)) == k, VCons(_pair(k, v), tl(l)), VCons(hd(l), f(tl(l), k, v)))))


# Lemma instances about the recursive helpers (each is a theorem of the definitions, provable by induction on
# the list; SMT solvers do not do induction, so the instance for every term that gets built is recorded here and
# asserted by the path before each solver query).
LEMMAS = []


d_update = _recfun("d_update", [VL, VL, VL],
                   lambda f, a, b: z3.If(is_VNil(b), a, f(d_set(a, pkey(hd(b)), pval(hd(b))), tl(b))))


def _keys_cmp(k1, k2):
    """True / False when two key terms are literally equal / literally different constants, else None"""
    k1, k2 = z3.simplify(k1), z3.simplify(k2)
    if k1.eq(k2):
        return True
    if z3.is_app(k1) and z3.is_app(k2) and k1.decl().name() == "VStr" and k2.decl().name() == "VStr" \
            and z3.is_string_value(k1.arg(0)) and z3.is_string_value(k2.arg(0)):
        return k1.arg(0).as_string() == k2.arg(0).as_string()
    return None


def dhas(l, k):
    """key membership with the (inductively valid) rewrite rules for d_set / d_update / concrete cells applied:
         has(set(l,k0,v),k) = (k = k0) or has(l,k);   has(update(a,b),k) = has(a,k) or has(b,k)"""
    l = z3.simplify(l)
    n = l.decl().name() if z3.is_app(l) else ""
    if n == "VNil":
        return z3.BoolVal(False)
    if n == "d_set":
        c = _keys_cmp(l.arg(1), k)
        if c is True:
            return z3.BoolVal(True)
        rest = dhas(l.arg(0), k)
        return rest if c is False else z3.Or(l.arg(1) == k, rest)
    if n == "d_update":
        return z3.Or(dhas(l.arg(0), k), dhas(l.arg(1), k))
    if n == "VCons":
        c = _keys_cmp(pkey(l.arg(0)), k)
        if c is True:
            return z3.BoolVal(True)
        rest = dhas(l.arg(1), k)
        return rest if c is False else z3.Or(pkey(l.arg(0)) == k, rest)
    return d_has(l, k)


def dlookup(l, k):
    """value bound to k (ABSENT if none), same rewrite rules; update(a,b): b wins (b has distinct keys)"""
    l = z3.simplify(l)
    n = l.decl().name() if z3.is_app(l) else ""
    if n == "VNil":
        return ABSENT
    if n == "d_set":
        c = _keys_cmp(l.arg(1), k)
        if c is True:
            return l.arg(2)
        rest = dlookup(l.arg(0), k)
        return rest if c is False else z3.If(l.arg(1) == k, l.arg(2), rest)
    if n == "d_update":
        return z3.If(dhas(l.arg(1), k), dlookup(l.arg(1), k), dlookup(l.arg(0), k))
    if n == "VCons":
        c = _keys_cmp(pkey(l.arg(0)), k)
        if c is True:
            return pval(l.arg(0))
        rest = dlookup(l.arg(1), k)
        return rest if c is False else z3.If(pkey(l.arg(0)) == k, pval(l.arg(0)), rest)
    return d_get(l, k)


def dget(l, k, dflt):
    """dict.get(k, dflt) / d[k] on an association list"""
    h = z3.simplify(dhas(l, k))
    if z3.is_true(h):
        return dlookup(l, k)
    if z3.is_false(h):
        return dflt
    return z3.If(h, dlookup(l, k), dflt)


def vcontains(l, x):
    """membership with the (inductively valid) distribution over ++ and concrete cells applied"""
    l = z3.simplify(l)
    n = l.decl().name() if z3.is_app(l) else ""
    if n == "VNil":
        return z3.BoolVal(False)
    if n == "VCons":
        return z3.Or(l.arg(0) == x, vcontains(l.arg(1), x))
    if n == "vl_concat":
        return z3.Or(vcontains(l.arg(0), x), vcontains(l.arg(1), x))
    return vl_contains(l, x)


def vconcat(a, b):
    """list concatenation with the unit laws applied / recorded (concat(a, nil) = a needs induction on a)"""
    a, b = z3.simplify(a), z3.simplify(b)
    if z3.is_app(b) and b.decl().name() == "VNil":
        return a
    if z3.is_app(a) and a.decl().name() == "VNil":
        return b
    t = vl_concat(a, b)
    LEMMAS.append(z3.Implies(b == VNil, t == a))
    return t


def vsnoc(l, x):
    """append one element (as concatenation with a singleton, so that appends and spec-level ++ agree syntactically)"""
    return vconcat(l, VCons(x, VNil))


def nth(l, i: int):
    for _ in range(i):
        l = tl(l)
    return hd(l)


def truthy(t):
    """Python truthiness of a Val term (objects are truthy; models/classes defining __bool__/__len__ are
    not used by the code under contract)."""
    return z3.If(is_VNone(t), z3.BoolVal(False),
           z3.If(is_VBool(t), vb(t),
           z3.If(is_VInt(t), vi(t) != 0,
           z3.If(is_VStr(t), z3.Length(vs(t)) > 0,
           z3.If(is_VFloat(t), vf(t) != 0,
           z3.If(is_VList(t), is_VCons(vl(t)),
           z3.If(is_VTuple(t), is_VCons(vt(t)),
           z3.If(is_VDict(t), is_VCons(vd(t)), z3.BoolVal(True)))))))))


vl_any = _recfun("vl_any", [VL, z3.BoolSort()],      # any(truthy(x) for x in l)
                 lambda f, l: z3.If(is_VNil(l), z3.BoolVal(False), z3.Or(truthy(hd(l)), f(tl(l)))))
vl_all = _recfun("vl_all", [VL, z3.BoolSort()],
                 lambda f, l: z3.If(is_VNil(l), z3.BoolVal(True), z3.And(truthy(hd(l)), f(tl(l)))))



def is_instance(t, pycls):
    """z3 Bool: isinstance(<value t>, pycls) under the closed world of registered classes."""
    if isinstance(pycls, tuple):
        return z3.Or(*[is_instance(t, c) for c in pycls]) if pycls else z3.BoolVal(False)
    if pycls is str:
        return is_VStr(t)
    if pycls is bool:
        return is_VBool(t)
    if pycls is int:
        return z3.Or(is_VInt(t), is_VBool(t))
    if pycls is float:
        return is_VFloat(t)
    if pycls is list:
        return is_VList(t)
    if pycls is tuple:
        return is_VTuple(t)
    if pycls is dict:
        return is_VDict(t)
    if pycls in (set, frozenset):
        return z3.And(is_VObj(t), cls_of(t) == REG.info(PySet).cid)
    if pycls is type(None):
        return is_VNone(t)
    if pycls is object:
        return z3.BoolVal(True)
    infos = REG.subclasses(pycls)
    if pycls in REG.by_cls and REG.by_cls[pycls] not in infos:
        infos.append(REG.by_cls[pycls])
    if not infos:
        REG.register(pycls, [])
        infos = [REG.by_cls[pycls]]
    return z3.And(is_VObj(t), z3.Or(*[cls_of(t) == i.cid for i in infos]))


def mk_obj(pycls, oid=0, **fields):
    """Spec-side constructor: VObj term of a registered class."""
    info = REG.info(pycls)
    vals = []
    is_ast = isinstance(pycls, type) and issubclass(pycls, pyast.AST)
    for f in info.fields:
        if f in fields:
            vals.append(lower(fields[f]))
        else:
            vals.append(VNone if is_ast else ABSENT)
    extra = set(fields) - set(info.fields)
    if extra:
        raise ValueError(f"{pycls.__name__}: unknown fields {extra}")
    return VObj(z3.IntVal(info.cid), vlist(vals), z3.IntVal(oid) if isinstance(oid, int) else oid)


def attr_of(t, pycls, field):
    """Accessor term for `field` of a value known to be an instance of exactly pycls."""
    info = REG.info(pycls)
    return nth(fs_of(t), info.fields.index(field))


# --------------------------------------------------------------------------- model values -> python (generic decoding)

def decode(term, build_objects=True):
    """Ground Val term (from a model) -> plain Python data. Objects become real instances through the
    registered builder (or Obj when no builder exists)."""
    term = z3.simplify(term)
    d = term.decl().name()
    if d == "VNone":
        return None
    if d == "VBool":
        return z3.is_true(term.arg(0))
    if d == "VInt":
        return term.arg(0).as_long()
    if d == "VStr":
        return term.arg(0).as_string() if hasattr(term.arg(0), "as_string") else str(term.arg(0))
    if d == "VFloat":
        a = term.arg(0)
        return float(a.numerator_as_long()) / float(a.denominator_as_long())
    if d in ("VList", "VTuple", "VDict"):
        items = []
        l = term.arg(0)
        while l.decl().name() == "VCons":
            items.append(decode(l.arg(0), build_objects))
            l = l.arg(1)
        if d == "VList":
            return items
        if d == "VTuple":
            return tuple(items)
        out = {}
        for it in items:
            if isinstance(it, tuple) and len(it) == 2:
                try:
                    out.setdefault(it[0], it[1])
                except TypeError:
                    out.setdefault(repr(it[0]), it[1])
        return out
    if d == "VAtom":
        n = term.arg(0).as_long()
        return REG.atom_by_id.get(n, _MISSING)
    if d == "VObj":
        cid = term.arg(0).as_long()
        info = REG.by_id.get(cid)
        items = []
        l = term.arg(1)
        while l.decl().name() == "VCons":
            items.append(decode(l.arg(0), build_objects))
            l = l.arg(1)
        if info is None:
            return Obj(object, {f"f{i}": x for i, x in enumerate(items)})
        fields = {f: (items[i] if i < len(items) else None) for i, f in enumerate(info.fields)}
        if build_objects and info.build:
            return info.build(**fields)
        if build_objects and isinstance(info.pycls, type) and issubclass(info.pycls, pyast.AST):
            return info.pycls(**{k: v for k, v in fields.items() if v is not _MISSING})
        return Obj(info.pycls, fields)
    raise ValueError(f"cannot decode {term}")


REG.register(PySet, ["elems"], build=lambda elems=(): set(x for x in (elems or []) if isinstance(x, (str, int, tuple))))


def set_elems(t):
    """enumeration (VL) of a set value"""
    return vl(nth(fs_of(t), 0))


def elem_shape_of(ctx, xs):
    """predicate (term -> BoolRef) known to hold for every element of the list term xs, from the shape assumptions made for it;
    for a concatenation a ++ b: the disjunction of what is known for a and for b.  None if nothing is known."""
    table = ctx.__dict__.get("elem_shapes", {})
    xs = z3.simplify(xs)
    ent = table.get(xs.get_id())
    if ent is not None:
        return ent
    if z3.is_app(xs) and xs.decl().name() == "vl_concat":
        a, b = elem_shape_of(ctx, xs.arg(0)), elem_shape_of(ctx, xs.arg(1))
        if a is not None and b is not None:
            return lambda v: z3.Or(z3.And(vl_contains(xs.arg(0), v), a(v)), z3.And(vl_contains(xs.arg(1), v), b(v)))
    return None
