"""Order-dependence obligations (ghost flag `ord`) generated from the real source of whole modules.

A value is *order-tainted* when its element order comes from iterating a set (hash seed) or from Path.glob (directory
enumeration order).  For every site where such an order could become observable - a `for` loop over a set-typed
expression, a list/generator/dict comprehension over one, `list(S)`, `"".join(S)`, `sorted(S, key=...)` (ties keep input
order) - one obligation `ord/<module>:<function>#<n>` is generated.  It is discharged when
  (a) the iteration feeds directly an order-insensitive consumer (sorted without key, set, frozenset, any, all, len, sum,
      min, max, a set comprehension, a membership test), or
  (b) the loop body only performs order-insensitive updates (set.add/update/discard, `x = x.union(...)`, `|=`), or
  (c) the site is listed in contracts/ord_sanitised.json with the sanitiser that removes the order downstream (an
      assumption, reported in the evidence); entries are keyed by function and the *source text* of the site, so an edit
      of the site invalidates the entry.
Set-typed expressions are inferred from annotations (Set[...], Dict[_, Set[...]], `-> Set[...]`), set()/set
displays/comprehensions, set operators and methods, and `self.<attr>` assignments of such values anywhere in the class.
"""
from __future__ import annotations

import ast
import json
import os

INSENSITIVE_CALLS = {"sorted", "set", "frozenset", "any", "all", "len", "sum", "min", "max"}
SET_METHODS_RETURNING_SET = {"union", "intersection", "difference", "symmetric_difference", "copy"}
SET_MUTATORS = {"add", "update", "discard", "remove", "difference_update", "intersection_update"}


def _ann_is_set(a):
    if a is None:
        return False
    s = ast.unparse(a)
    s = s.replace("typing.", "")
    for p in ("Optional[", "Union["):
        if s.startswith(p):
            s = s[len(p):]
    return s.startswith(("Set[", "set[", "FrozenSet[", "AbstractSet[")) or s in ("set", "Set", "frozenset")


def _ann_is_dict_of_set(a):
    if a is None:
        return False
    s = ast.unparse(a)
    return (s.startswith("Dict[") or s.startswith("dict[")) and ("Set[" in s.split(",", 1)[-1] or "set[" in s.split(",", 1)[-1])


def _shape(text):
    """source text of a site with every variable name replaced by `_` (attribute and function names kept)"""
    try:
        tree = ast.parse(text if not text.startswith("for ") else text + ":\n    pass")
    except SyntaxError:
        return text
    keep = {n.func.id for n in ast.walk(tree) if isinstance(n, ast.Call) and isinstance(n.func, ast.Name)}
    for n in ast.walk(tree):
        if isinstance(n, ast.Name) and n.id not in keep:
            n.id = "_"
    return ast.unparse(tree)


RUN_DEPENDENT_NAMES = {"hash", "id"}
RUN_DEPENDENT_ATTRS = {("time", "time"), ("time", "time_ns"), ("time", "monotonic"), ("time", "perf_counter"), ("datetime", "now"), ("datetime", "utcnow"), ("datetime", "today"),
                       ("date", "today"), ("random", "random"), ("random", "randint"), ("random", "choice"), ("random", "shuffle"), ("random", "sample"),
                       ("uuid", "uuid1"), ("uuid", "uuid4"), ("os", "urandom"), ("os", "getpid"), ("secrets", "token_hex"), ("secrets", "token_bytes")}


def _run_dependent_call(node):
    f = node.func
    if isinstance(f, ast.Name):
        return f.id in RUN_DEPENDENT_NAMES or f.id in ("uuid4", "uuid1", "getpid", "urandom")
    if isinstance(f, ast.Attribute) and isinstance(f.value, ast.Name):
        return (f.value.id, f.attr) in RUN_DEPENDENT_ATTRS
    if isinstance(f, ast.Attribute) and isinstance(f.value, ast.Attribute):       # datetime.datetime.now()
        return (f.value.attr, f.attr) in RUN_DEPENDENT_ATTRS
    return False


class ModuleScan:
    def __init__(self, path, modname, sanitised):
        self.path, self.modname = path, modname
        self.text = open(path, encoding="utf-8").read()
        self.tree = ast.parse(self.text)
        self.sanitised = sanitised
        self.set_returning = set()      # function / method names with -> Set[...]
        self.class_set_attrs = {}       # class name -> attr names that hold sets
        self.obligations = []
        self._collect()

    def _collect(self):
        for node in ast.walk(self.tree):
            if isinstance(node, (ast.FunctionDef, ast.AsyncFunctionDef)) and _ann_is_set(node.returns):
                self.set_returning.add(node.name)
        for cls in [n for n in ast.walk(self.tree) if isinstance(n, ast.ClassDef)]:
            attrs = set()
            for node in ast.walk(cls):
                tgt = val = ann = None
                if isinstance(node, ast.AnnAssign):
                    tgt, val, ann = node.target, node.value, node.annotation
                elif isinstance(node, ast.Assign) and len(node.targets) == 1:
                    tgt, val = node.targets[0], node.value
                if isinstance(tgt, ast.Attribute) and isinstance(tgt.value, ast.Name) and tgt.value.id == "self":
                    if _ann_is_set(ann) or (val is not None and self._expr_is_set(val, {}, set(), attrs)):
                        attrs.add(tgt.attr)
            self.class_set_attrs[cls.name] = attrs

    # -- type inference for expressions
    def _expr_is_set(self, e, local_sets, dict_of_sets, self_attrs):
        if isinstance(e, (ast.Set, ast.SetComp)):
            return True
        if isinstance(e, ast.Name):
            return local_sets.get(e.id, False) if isinstance(local_sets, dict) else e.id in local_sets
        if isinstance(e, ast.Attribute) and isinstance(e.value, ast.Name) and e.value.id == "self":
            return e.attr in self_attrs
        if isinstance(e, ast.Call):
            f = e.func
            if isinstance(f, ast.Name) and f.id in ("set", "frozenset"):
                return True
            if isinstance(f, ast.Attribute):
                if f.attr in SET_METHODS_RETURNING_SET and self._expr_is_set(f.value, local_sets, dict_of_sets, self_attrs):
                    return True
                if f.attr in self.set_returning:
                    return True
            if isinstance(f, ast.Name) and f.id in self.set_returning:
                return True
        if isinstance(e, ast.BinOp) and isinstance(e.op, (ast.BitOr, ast.BitAnd, ast.Sub, ast.BitXor)):
            return self._expr_is_set(e.left, local_sets, dict_of_sets, self_attrs) or self._expr_is_set(e.right, local_sets, dict_of_sets, self_attrs)
        if isinstance(e, ast.BoolOp):
            return any(self._expr_is_set(v, local_sets, dict_of_sets, self_attrs) for v in e.values)
        if isinstance(e, ast.IfExp):
            return self._expr_is_set(e.body, local_sets, dict_of_sets, self_attrs) or self._expr_is_set(e.orelse, local_sets, dict_of_sets, self_attrs)
        if isinstance(e, ast.Subscript) and isinstance(e.value, ast.Name) and e.value.id in dict_of_sets:
            return True
        return False

    def _is_glob(self, e):
        return isinstance(e, ast.Call) and isinstance(e.func, ast.Attribute) and e.func.attr in ("glob", "rglob", "iterdir")

    # -- scanning functions
    def scan(self):
        def visit_body(body, qual, cls):
            for node in body:
                if isinstance(node, ast.ClassDef):
                    visit_body(node.body, qual + node.name + ".", node.name)
                elif isinstance(node, (ast.FunctionDef, ast.AsyncFunctionDef)):
                    self._scan_function(node, qual + node.name, cls)
                    visit_body(node.body, qual + node.name + ".<locals>.", cls)
        visit_body(self.tree.body, "", None)
        return self.obligations

    def _scan_function(self, fn, qual, cls):
        self_attrs = self.class_set_attrs.get(cls, set()) if cls else set()
        local_sets, dict_of_sets, tainted = {}, set(), set()
        for a in fn.args.args + fn.args.kwonlyargs:
            if _ann_is_set(a.annotation):
                local_sets[a.arg] = True
            if _ann_is_dict_of_set(a.annotation):
                dict_of_sets.add(a.arg)
        own = [n for n in self._own_nodes(fn)]
        # two passes so that names assigned later in loops are known
        for _ in range(2):
            for node in own:
                tgt = val = ann = None
                if isinstance(node, ast.AnnAssign) and isinstance(node.target, ast.Name):
                    tgt, val, ann = node.target.id, node.value, node.annotation
                elif isinstance(node, ast.Assign) and len(node.targets) == 1 and isinstance(node.targets[0], ast.Name):
                    tgt, val = node.targets[0].id, node.value
                elif isinstance(node, ast.AugAssign) and isinstance(node.target, ast.Name):
                    tgt, val = node.target.id, node.value
                if tgt is None:
                    continue
                if _ann_is_set(ann) or (val is not None and self._expr_is_set(val, local_sets, dict_of_sets, self_attrs)):
                    local_sets[tgt] = True
                if _ann_is_dict_of_set(ann):
                    dict_of_sets.add(tgt)
                if val is not None and self._order_tainted_value(val, local_sets, dict_of_sets, self_attrs, tainted):
                    tainted.add(tgt)
        parents = {}
        for node in own:
            for ch in ast.iter_child_nodes(node):
                parents[ch] = node
        n = 0

        def is_unordered(e):
            return self._expr_is_set(e, local_sets, dict_of_sets, self_attrs) or self._is_glob(e) or \
                (isinstance(e, ast.Name) and e.id in tainted) or \
                (isinstance(e, ast.Call) and isinstance(e.func, ast.Name) and e.func.id in self.glob_generators)

        for node in own:
            site = None
            if isinstance(node, (ast.For, ast.AsyncFor)) and is_unordered(node.iter):
                ok = self._body_order_insensitive(node.body, local_sets, self_attrs)
                site = ("for " + ast.unparse(node.target) + " in " + ast.unparse(node.iter), ok, "loop body only updates sets" if ok else "")
            elif isinstance(node, (ast.ListComp, ast.GeneratorExp, ast.DictComp)) and any(is_unordered(g.iter) for g in node.generators):
                par = parents.get(node)
                ok = isinstance(par, ast.Call) and isinstance(par.func, ast.Name) and par.func.id in INSENSITIVE_CALLS and not \
                    (par.func.id == "sorted" and par.keywords)
                site = (ast.unparse(node), ok, "consumed by an order-insensitive function" if ok else "")
            elif isinstance(node, ast.Call) and isinstance(node.func, ast.Name) and node.func.id in ("list", "tuple") and node.args \
                    and is_unordered(node.args[0]):
                par = parents.get(node)
                ok = isinstance(par, ast.Call) and isinstance(par.func, ast.Name) and par.func.id in INSENSITIVE_CALLS
                site = (ast.unparse(node), ok, "consumed by an order-insensitive function" if ok else "")
            elif isinstance(node, ast.Call) and isinstance(node.func, ast.Attribute) and node.func.attr == "join" and node.args \
                    and is_unordered(node.args[0]):
                site = (ast.unparse(node), False, "")
            elif isinstance(node, ast.Call) and isinstance(node.func, ast.Name) and node.func.id == "sorted" and node.args \
                    and is_unordered(node.args[0]) and any(k.arg == "key" for k in node.keywords):
                site = (ast.unparse(node), False, "")     # ties between equal keys keep the (unordered) input order
            elif isinstance(node, ast.Call) and isinstance(node.func, ast.Attribute) and node.func.attr in ("extend", "extendleft") \
                    and node.args and is_unordered(node.args[0]) \
                    and not self._expr_is_set(node.func.value, local_sets, dict_of_sets, self_attrs):
                site = (ast.unparse(node), False, "")     # a list is extended in the enumeration order of a set
            elif isinstance(node, ast.Call) and isinstance(node.func, ast.Name) and node.func.id in ("enumerate", "zip", "next", "iter", "reversed", "map", "filter") \
                    and node.args and any(is_unordered(a) for a in node.args):
                par = parents.get(node)
                ok = isinstance(par, ast.Call) and isinstance(par.func, ast.Name) and par.func.id in INSENSITIVE_CALLS and not \
                    (par.func.id == "sorted" and par.keywords)
                site = (ast.unparse(node), ok, "consumed by an order-insensitive function" if ok else "")
            elif isinstance(node, ast.Starred) and is_unordered(node.value) and isinstance(parents.get(node), (ast.List, ast.Tuple, ast.Call)):
                par = parents.get(node)
                ok = isinstance(par, ast.Call) and isinstance(par.func, ast.Name) and par.func.id in INSENSITIVE_CALLS
                site = (ast.unparse(par), ok, "consumed by an order-insensitive function" if ok else "")
            elif isinstance(node, ast.AugAssign) and isinstance(node.op, ast.Add) and is_unordered(node.value) \
                    and not self._expr_is_set(node.target, local_sets, dict_of_sets, self_attrs):
                site = (ast.unparse(node), False, "")     # list += set
            elif isinstance(node, ast.Call) and _run_dependent_call(node):
                # a value that differs from one interpreter run to the next (salted str/bytes hash, object identity, clock,
                # random numbers, fresh uuids): nothing derived from it may reach emitted text
                site = (ast.unparse(node), False, "")
            if site is None:
                continue
            n += 1
            text, ok, why = site
            key = f"{self.modname}:{qual}"
            entry = None
            if not ok:
                for s in self.sanitised:
                    if s["function"] == key and (s["site"] == text or _shape(s["site"]) == _shape(text)):
                        entry = s       # (the same site up to the names of its variables: a renamed local does not change where the order goes)
                        break
            if not ok and entry is None and isinstance(node, ast.Call) and isinstance(node.func, ast.Name) and node.func.id in ("list", "tuple"):
                # `xs = list(<unordered>)` followed by `xs.sort()` (no key) in the same function: sorted in place before it is used
                par = parents.get(node)
                if isinstance(par, (ast.Assign, ast.AnnAssign)):
                    tgt = par.targets[0] if isinstance(par, ast.Assign) else par.target
                    if isinstance(tgt, ast.Name) and any(
                            isinstance(c, ast.Call) and isinstance(c.func, ast.Attribute) and c.func.attr == "sort" and not c.args and not c.keywords
                            and isinstance(c.func.value, ast.Name) and c.func.value.id == tgt.id and c.lineno > node.lineno for c in own if isinstance(c, ast.Call)):
                        ok, why = True, "sorted in place (list.sort() without key) before it is used"
            self.obligations.append(dict(name=f"ord/{key}#{n}", function=key, site=text, lineno=node.lineno,
                                         status="discharged" if (ok or entry) else "failed",
                                         rule=why or (("sanitised downstream: " + entry["sanitiser"]) if entry else ""),
                                         assumed=bool(entry)))

    glob_generators = {"walk_graphql_files"}

    def _order_tainted_value(self, val, local_sets, dict_of_sets, self_attrs, tainted):
        if isinstance(val, ast.Call) and isinstance(val.func, ast.Name) and val.func.id in ("list", "tuple") and val.args:
            a = val.args[0]
            return self._expr_is_set(a, local_sets, dict_of_sets, self_attrs) or self._is_glob(a) or (isinstance(a, ast.Name) and a.id in tainted)
        if isinstance(val, (ast.ListComp,)):
            return any(self._expr_is_set(g.iter, local_sets, dict_of_sets, self_attrs) for g in val.generators)
        return False

    def _own_nodes(self, fn):
        stack = list(fn.body)
        while stack:
            n = stack.pop()
            yield n
            for ch in ast.iter_child_nodes(n):
                if isinstance(ch, (ast.FunctionDef, ast.AsyncFunctionDef, ast.ClassDef, ast.Lambda)):
                    continue
                stack.append(ch)

    def _body_order_insensitive(self, body, local_sets, self_attrs):
        for st in body:
            if isinstance(st, ast.Expr) and isinstance(st.value, ast.Call) and isinstance(st.value.func, ast.Attribute) \
                    and st.value.func.attr in SET_MUTATORS and self._expr_is_set(st.value.func.value, local_sets, set(), self_attrs):
                continue
            if isinstance(st, (ast.Assign, ast.AugAssign, ast.AnnAssign)):
                tgt = st.targets[0] if isinstance(st, ast.Assign) else st.target
                val = st.value
                if isinstance(tgt, ast.Name) and (local_sets.get(tgt.id) or False) and val is not None and \
                        self._expr_is_set(val, local_sets, set(), self_attrs):
                    continue
                if isinstance(tgt, ast.Name) and not local_sets.get(tgt.id):
                    # a plain local computed per element (e.g. a lookup) is harmless if later statements are
                    continue
                return False
            if isinstance(st, ast.If):
                if self._body_order_insensitive(st.body, local_sets, self_attrs) and self._body_order_insensitive(st.orelse, local_sets, self_attrs):
                    continue
                return False
            if isinstance(st, (ast.Pass, ast.Continue)):
                continue
            return False
        return True


def scan_modules(repo, modules, sanitised_path):
    sanitised = json.load(open(sanitised_path)).get("sites", []) if os.path.exists(sanitised_path) else []
    out = []
    for modname in modules:
        path = os.path.join(repo, modname.replace(".", "/") + ".py")
        if not os.path.exists(path):
            out.append(dict(name=f"ord/{modname}", function=modname, site="<module missing>", status="failed", rule="", assumed=False, lineno=0))
            continue
        out.extend(ModuleScan(path, modname, sanitised).scan())
    return out
