"""Shape predicates: the type/validity invariants of symbolic inputs, stated as (recursive) predicates over
`Val` so that they can be put into preconditions, and used to tell the engine what an arbitrary element of a
symbolic list looks like (comprehension / loop bodies are verified for an arbitrary well-shaped element)."""
from __future__ import annotations

import z3
from . import val as V


class Shape:
    def pred(self, t):
        raise NotImplementedError

    def fields_with_lists(self):
        return []

    def on_assume(self, ctx, t):
        """register element facts for list-typed sub-terms of t"""

    def __or__(self, other):
        return OneOf(self, other)


class _Prim(Shape):
    def __init__(self, test, name):
        self.test, self.name = test, name

    def pred(self, t):
        return self.test(t)

    def __repr__(self):
        return self.name


Str = _Prim(V.is_VStr, "Str")
Int = _Prim(V.is_VInt, "Int")
Bool = _Prim(V.is_VBool, "Bool")
Float = _Prim(V.is_VFloat, "Float")
NoneT = _Prim(V.is_VNone, "None")
Any = _Prim(lambda t: z3.BoolVal(True), "Any")


class Const(Shape):
    def __init__(self, value):
        self.value = V.lower(value)

    def pred(self, t):
        return t == self.value


class StrIn(Shape):
    """a string matching a regular expression (z3 Re)"""

    def __init__(self, regex):
        self.regex = regex

    def pred(self, t):
        return z3.And(V.is_VStr(t), z3.InRe(V.vs(t), self.regex))


class Pred(Shape):
    def __init__(self, f, name="pred"):
        self.f, self.name = f, name

    def pred(self, t):
        return self.f(t)


class OneOf(Shape):
    def __init__(self, *alts):
        self.alts = []
        for a in alts:
            self.alts.extend(a.alts if isinstance(a, OneOf) else [a])

    def pred(self, t):
        return z3.Or(*[a.pred(t) for a in self.alts])

    def on_assume(self, ctx, t):
        for a in self.alts:
            a.on_assume(ctx, t)


def Opt(s):
    return OneOf(NoneT, s)


_counter = [0]


_used_names = set()


def _unique(name):
    """explicit names of recursive predicates must be unique per process (shapes built inside setup() are rebuilt on every path)"""
    n, k = name, 1
    while n in _used_names:
        k += 1
        n = f"{name}~{k}"
    _used_names.add(n)
    return n


def _fresh_name(prefix):
    _counter[0] += 1
    return f"{prefix}#{_counter[0]}"


class ListOf(Shape):
    """Python list whose elements all satisfy `elem`."""
    tester, acc = staticmethod(V.is_VList), staticmethod(V.vl)

    def __init__(self, elem, name=None):
        self.elem = elem
        self._all = None
        self.name = _unique(name) if name else _fresh_name("all")

    def all_fn(self):
        if self._all is None:
            f = z3.RecFunction(self.name, V.VL, z3.BoolSort())
            self._all = f
            l = z3.FreshConst(V.VL, "l")
            z3.RecAddDefinition(f, [l], z3.If(V.is_VNil(l), z3.BoolVal(True),
                                              z3.And(self.elem.pred(V.hd(l)), f(V.tl(l)))))
        return self._all

    def pred(self, t):
        return z3.And(self.tester(t), self.all_fn()(self.acc(t)))

    def on_assume(self, ctx, t):
        xs = z3.simplify(self.acc(t))
        elem = self.elem
        guard = self.tester(t)

        def fact(v, _elem=elem, _g=guard):
            return z3.Implies(_g, _elem.pred(v))
        table = ctx.__dict__.setdefault("elem_shapes", {})
        prev = table.get(xs.get_id())
        if prev is None:
            table[xs.get_id()] = fact
            ctx.__dict__.setdefault("elem_shape_objs", {})[xs.get_id()] = [(guard, elem)]
        else:
            table[xs.get_id()] = lambda v, _a=prev, _b=fact: z3.And(_a(v), _b(v))
            ctx.__dict__.setdefault("elem_shape_objs", {})[xs.get_id()].append((guard, elem))
        ctx.__dict__.setdefault("keepalive", []).append(xs)


class TupleOf(ListOf):
    tester, acc = staticmethod(V.is_VTuple), staticmethod(V.vt)


class Cls(Shape):
    """Instance of exactly `pycls` (registered) with the given field shapes."""

    def __init__(self, pycls, **fields):
        self.pycls = pycls
        self.info = V.REG.info(pycls)
        unknown = set(fields) - set(self.info.fields)
        if unknown:
            raise ValueError(f"{pycls.__name__}: unknown fields {unknown}")
        self.fields = fields

    def pred(self, t):
        n = len(self.info.fields)
        spine = V.fs_of(t)
        conj = [V.is_VObj(t), V.cls_of(t) == self.info.cid]
        if not self.info.identity:
            conj.append(V.oid_of(t) == 0)
        l = spine
        for i, f in enumerate(self.info.fields):
            conj.append(V.is_VCons(l))
            sh = self.fields.get(f)
            if sh is not None:
                conj.append(sh.pred(V.hd(l)))
            l = V.tl(l)
        conj.append(V.is_VNil(l))
        return z3.And(*conj)

    def on_assume(self, ctx, t):
        for f, sh in self.fields.items():
            acc = z3.simplify(V.nth(V.fs_of(t), self.info.fields.index(f)))
            if isinstance(sh, (ListOf, OneOf, Cls, Rec)) or hasattr(sh, "pair_pred"):
                _guarded_on_assume(ctx, sh, acc, z3.And(V.is_VObj(t), V.cls_of(t) == self.info.cid))


def _guarded_on_assume(ctx, sh, acc, guard):
    # the same (shape, term, guard) is registered once (lookups of recursive shapes would otherwise grow the fact chain without end)
    done = ctx.__dict__.setdefault("shape_facts_registered", set())
    try:
        key = (id(sh), z3.simplify(acc).get_id(), z3.simplify(guard).get_id())
    except Exception:   # noqa
        key = None
    if key is not None:
        if key in done:
            return
        done.add(key)
        ctx.__dict__.setdefault("keepalive", []).extend([acc, guard])
    if isinstance(sh, ListOf):
        xs = z3.simplify(sh.acc(acc))
        elem = sh.elem
        g = z3.And(guard, sh.tester(acc))

        def fact(v, _elem=elem, _g=g):
            return z3.Implies(_g, _elem.pred(v))
        table = ctx.__dict__.setdefault("elem_shapes", {})
        prev = table.get(xs.get_id())
        table[xs.get_id()] = fact if prev is None else (lambda v, _a=prev, _b=fact: z3.And(_a(v), _b(v)))
        ctx.__dict__.setdefault("elem_shape_objs", {}).setdefault(xs.get_id(), []).append((g, elem))
        ctx.__dict__.setdefault("keepalive", []).append(xs)
    elif hasattr(sh, "pair_pred"):        # DictOf: elements of the association list are well-formed pairs
        xs = z3.simplify(V.vd(acc))
        g = z3.And(guard, V.is_VDict(acc))

        def fact(v, _sh=sh, _g=g):
            return z3.Implies(_g, _sh.pair_pred(v))
        table = ctx.__dict__.setdefault("elem_shapes", {})
        prev = table.get(xs.get_id())
        table[xs.get_id()] = fact if prev is None else (lambda v, _a=prev, _b=fact: z3.And(_a(v), _b(v)))
        ctx.__dict__.setdefault("keepalive", []).append(xs)
        # lookup lemma (valid by induction on the association list): a value found under a key satisfies the value shape
        ctx.__dict__.setdefault("dict_value_shapes", {}).setdefault(xs.get_id(), []).append((g, sh))
    elif isinstance(sh, OneOf):
        for a in sh.alts:
            _guarded_on_assume(ctx, a, acc, guard)
    elif isinstance(sh, Rec):
        _guarded_on_assume(ctx, sh.body(), acc, guard)
    elif isinstance(sh, Cls):
        # nested object field: register its list fields too (one more level is enough for the code at hand)
        for f, s2 in sh.fields.items():
            a2 = z3.simplify(V.nth(V.fs_of(acc), sh.info.fields.index(f)))
            if isinstance(s2, ListOf):
                _guarded_on_assume(ctx, s2, a2, z3.And(guard, V.is_VObj(acc), V.cls_of(acc) == sh.info.cid))


class Rec(Shape):
    """Recursive shape: Rec('GType', lambda self: OneOf(Cls(...), Cls(List, of_type=self)))"""

    def __init__(self, name, mk):
        self.name, self.mk = name, mk
        self._body = None
        self._fn = None

    def body(self):
        if self._body is None:
            self._body = self.mk(self)
        return self._body

    def fn(self):
        if self._fn is None:
            f = z3.RecFunction("shape_" + self.name, V.Val, z3.BoolSort())
            self._fn = f
            x = z3.FreshConst(V.Val, "x")
            z3.RecAddDefinition(f, [x], self.body().pred(x))
        return self._fn

    def pred(self, t):
        return self.fn()(t)

    def on_assume(self, ctx, t):
        self.body().on_assume(ctx, t)


def assume_shape(path, shape, term):
    path.assume(shape.pred(term))
    shape.on_assume(path.ctx, term)
