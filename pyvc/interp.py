"""Symbolic interpreter for the Python subset used by the code under contract.

The *real* source text of /repo is parsed on every run (see `source.py`); this module executes one
function body on a mix of concrete Python values and symbolic `Val` terms, one path at a time.
Paths are enumerated by deterministic re-execution with a decision prefix, so no state copying is
needed.  Calls to functions that have a contract are replaced by the contract; other repository
functions are inlined (depth-limited); library functions are executed natively when all arguments
are concrete and through `models.py` otherwise.
"""
from __future__ import annotations

import ast
import dataclasses
import types
import z3

from . import val as V
from .val import SV, Obj, MList, MDict, PDict, PList, MSet, PSet, norm, lower, deep_symbolic


class Unsupported(Exception):
    """Construct outside the supported subset: the function cannot be verified (never a violation)."""


class PathAbort(Exception):
    """Current path is infeasible or was cut (after a loop cut, after an assumed-false)."""


class PyRaise(Exception):
    """A Python exception raised by interpreted code. `exc` is an Obj (interpreted class) or a real exception."""

    def __init__(self, exc, cause=None):
        super().__init__(repr(exc))
        self.exc, self.cause = exc, cause

    @property
    def exc_class(self):
        return self.exc.cls if isinstance(self.exc, Obj) else type(self.exc)


class _Return(Exception):
    def __init__(self, value):
        self.value = value


class _Break(Exception):
    pass


class _Continue(Exception):
    pass


# --------------------------------------------------------------------------- paths and obligations

class Obligation:
    __slots__ = ("name", "kind", "status", "model", "detail", "pc_size", "time", "path_id", "reason", "backend", "imprecise")

    def __init__(self, name, kind):
        self.name, self.kind = name, kind
        self.status, self.model, self.detail, self.pc_size, self.time = None, None, "", 0, 0.0
        self.path_id, self.reason = None, ""
        self.backend = "z3"
        self.imprecise = False


class Path:
    def __init__(self, decisions, ctx):
        self.decisions = list(decisions)
        self.pos = 0
        self.ctx = ctx
        self.solver = z3.Solver()
        self.solver.set("timeout", ctx.branch_timeout_ms)
        self.pc = []
        self.alternatives = []
        self.obligations = []
        self.counter = 0
        self.effects = []          # ghost effect log: (kind, payload)
        self.call_depth = 0
        self.trace = []            # human-readable branch trace
        self.lemma_pos = 0
        self.maps_used = {}        # comprehension maps built on this path (map extensionality)
        self.imprecise = False     # a loop was cut without an invariant: failing posts need a confirming replay
        self.reads = []            # attribute reads on tracked objects (read frames)
        self.writes = []           # heap writes to pre-existing objects (frames)

    # -- symbols
    def fresh(self, prefix="v", sort=None):
        self.counter += 1
        return z3.Const(f"{prefix}!{self.counter}", V.Val if sort is None else sort)

    def fresh_sv(self, prefix="v"):
        return SV(self.fresh(prefix))

    # -- assumptions / branching
    def assume(self, b):
        if isinstance(b, bool):
            if not b:
                raise PathAbort()
            return
        b = z3.simplify(b)
        if z3.is_true(b):
            return
        if z3.is_false(b):
            raise PathAbort()
        self.pc.append(b)
        self.solver.add(b)

    def flush_lemmas(self):
        n = len(V.LEMMAS)
        if self.lemma_pos < n:
            for f in V.LEMMAS[self.lemma_pos:n]:
                self.solver.add(f)
            self.lemma_pos = n

    def feasible(self, cond):
        self.flush_lemmas()
        # push/add/check/pop rather than check(assumption): z3 5.1 crashes (SIGSEGV) in check-with-assumptions on some
        # queries mixing recursive functions and strings
        self.solver.push()
        try:
            self.solver.add(cond)
            r = self.solver.check()
        finally:
            self.solver.pop()
        return r != z3.unsat

    def branch(self, cond, label=""):
        """Decide a symbolic condition. Returns a Python bool; registers the alternative."""
        if isinstance(cond, bool):
            return cond
        cond = z3.simplify(cond)
        if z3.is_true(cond):
            return True
        if z3.is_false(cond):
            return False
        if self.pos < len(self.decisions):
            d = self.decisions[self.pos]
        else:
            t_ok = self.feasible(cond)
            f_ok = self.feasible(z3.Not(cond))
            if t_ok and f_ok:
                d = True
                self.alternatives.append(self.decisions[:self.pos] + [False])
            elif t_ok:
                d = True
            elif f_ok:
                d = False
            else:
                raise PathAbort()
            if len(self.decisions) > self.ctx.max_decisions:
                raise Unsupported("path too deep (possible unbounded loop over symbolic data)")
            self.decisions.append(d)
        self.pos += 1
        c = cond if d else z3.Not(cond)
        self.pc.append(c)
        self.solver.add(c)
        self.trace.append((label, d))
        return d

    # -- obligations
    def oblige(self, name, formula, kind="post", detail="", assume_after=True):
        """Proof obligation under the current path condition: discharged iff pc ∧ ¬formula is unsat.
        Afterwards the formula is assumed (so one defect is reported once per path).
        A conjunction is discharged conjunct by conjunct (smaller queries; z3 5.1 was seen answering `sat` for a
        conjunction of two individually entailed formulas over recursive functions)."""
        import time
        if not isinstance(formula, bool):
            fs = z3.simplify(formula)
            if z3.is_and(fs) and fs.num_args() > 1 and not getattr(self, "_splitting", False):
                self._splitting = True
                try:
                    obs = [self.oblige(name, c, kind, detail, assume_after=False) for c in fs.children()]
                finally:
                    self._splitting = False
                for o in obs[1:]:
                    self.obligations.remove(o)
                first = obs[0]
                worst = next((o for o in obs if o.status == "sat"), None) or next((o for o in obs if o.status == "unknown"), None)
                if worst is not None:
                    first.status, first.model, first.reason, first.backend = worst.status, worst.model, worst.reason, worst.backend
                first.time = sum(o.time for o in obs)
                if assume_after and (first.status != "unsat" or getattr(self.ctx, "assume_proved", False)):
                    self.assume(fs)
                return first
        ob = Obligation(name, kind)
        ob.detail = detail
        ob.pc_size = len(self.pc)
        ob.path_id = tuple(self.decisions[:self.pos])
        ob.imprecise = self.imprecise
        t0 = time.time()
        if isinstance(formula, bool):
            formula = z3.BoolVal(formula)
        f = z3.simplify(formula)
        if z3.is_true(f):
            ob.status = "unsat"
        else:
            s = self.solver
            self.flush_lemmas()
            s.push()
            s.set("timeout", self.ctx.query_timeout_ms)
            s.add(z3.Not(f))
            r = None
            if self.ctx.prefer_cvc5:
                from .backends import cvc5_check
                if cvc5_check(s.to_smt2(), self.ctx.query_timeout_ms) == "unsat":
                    r = z3.unsat
                    ob.backend = "cvc5"
            if r is None:
                r = s.check()
            spurious = False
            if r == z3.sat:
                # z3 5.1 was seen answering `sat` with a model that falsifies an asserted formula over recursive
                # functions (definitions not unfolded far enough). Such a model is no counterexample: validate it
                # against the path condition and the negated goal, and treat a failure as `unknown`.
                # (checked by pinning every constant to its model value in the same solver: ground evaluation under
                # the solver's time limit; Model.eval has none and was seen not returning)
                mdl = s.model()
                snap = self.ctx.snapshot_model(mdl, self)
                s.push()
                try:
                    for d in mdl.decls():
                        if d.arity() == 0:
                            s.add(d() == mdl[d])
                    s.set("timeout", 3000)
                    if s.check() == z3.unsat:
                        spurious = True
                except z3.Z3Exception:
                    pass
                s.pop()
                s.set("timeout", self.ctx.query_timeout_ms)
            if r == z3.unsat:
                ob.status = "unsat"
            elif r == z3.sat and not spurious:
                ob.status = "sat"
                ob.model = snap
            else:
                ob.status = "unknown"
                ob.reason = "z3 model falsifies the path condition (spurious)" if spurious else s.reason_unknown()
                # second back end: cvc5 on the same query (SMT-LIB export of pc + negated goal)
                if self.ctx.use_cvc5:
                    from .backends import cvc5_check
                    r2 = cvc5_check(s.to_smt2(), self.ctx.query_timeout_ms * 2)
                    if r2 == "unsat":
                        ob.status, ob.backend = "unsat", "cvc5"
                    elif r2 == "sat":
                        ob.status, ob.backend, ob.model = "sat", "cvc5", {}
                        ob.reason = "cvc5 answered sat (z3: unknown); no model extracted"
                if self.ctx.keep_smt2:
                    ob.detail += "\n" + s.to_smt2()
            s.pop()
            s.set("timeout", self.ctx.branch_timeout_ms)
        ob.time = time.time() - t0
        self.obligations.append(ob)
        if ob.status != "unsat" and assume_after:
            # continue as if it held, so that later obligations are independent
            self.assume(f)
        elif ob.status == "unsat" and assume_after and getattr(self.ctx, "assume_proved", False) and not z3.is_true(f):
            # a discharged obligation is entailed by the path condition: asserting it changes no verdict in principle,
            # but spares the solver re-deriving it in later queries of the path (contracts opt in: `assume_proved`)
            self.assume(f)
        return ob

    def try_prove(self, formula, timeout_ms=5000):
        """auxiliary lemma attempt (not an obligation): True iff pc |= formula was established"""
        f = z3.simplify(formula)
        if z3.is_true(f):
            return True
        self.flush_lemmas()
        s = self.solver
        s.push()
        s.set("timeout", timeout_ms)
        s.add(z3.Not(f))
        r = s.check()
        if r == z3.unknown and self.ctx.use_cvc5:
            from .backends import cvc5_check
            if cvc5_check(s.to_smt2(), timeout_ms * 2) == "unsat":
                r = z3.unsat
        s.pop()
        s.set("timeout", self.ctx.branch_timeout_ms)
        return r == z3.unsat

    def effect(self, kind, payload):
        self.effects.append((kind, payload))


class Ctx:
    """Per-function verification context (configuration + hooks supplied by the driver)."""

    def __init__(self):
        self.branch_timeout_ms = 3000
        self.query_timeout_ms = 10000
        self.max_decisions = 400
        self.max_inline_depth = 6
        self.max_symbolic_while = 3
        self.deadline = None
        self.keep_smt2 = False
        self.use_cvc5 = True
        self.prefer_cvc5 = False     # string-heavy contracts: ask cvc5 first, z3 for models
        self.contracts = {}        # key (module, qualname) -> call-site contract
        self.inputs = {}           # name -> z3 term (symbolic inputs to concretise from models)
        self.models = None         # models module (set by driver)
        self.no_contract_for = set()   # keys to inline even if a contract exists (the function under proof itself handled by driver)
        self.current_key = None
        self.track_reads = None    # predicate(obj, attr) -> bool for read frames

    def snapshot_model(self, model, path):
        out = {}
        for name, term in self.inputs.items():
            try:
                out[name] = model.eval(term, model_completion=True)
            except z3.Z3Exception:
                pass
        return out


# --------------------------------------------------------------------------- function values

class Closure:
    def __init__(self, node, env, module, name, qualname=None, owner=None, is_async=False):
        self.node, self.env, self.module = node, env, module
        self.name, self.qualname, self.owner = name, qualname or name, owner
        self.is_async = is_async

    def __repr__(self):
        return f"<Closure {getattr(self.module, '__name__', '?')}.{self.qualname}>"


class BoundMethod:
    def __init__(self, self_val, fn):
        self.self_val, self.fn = self_val, fn

    def __repr__(self):
        return f"<BoundMethod {self.fn}>"


class SymMethod:
    """Method looked up on a symbolic receiver; resolved at call time by models."""

    def __init__(self, recv, name):
        self.recv, self.name = recv, name


class Env:
    __slots__ = ("vars", "parent", "nonlocals", "globals_")

    def __init__(self, parent=None):
        self.vars, self.parent, self.nonlocals, self.globals_ = {}, parent, set(), set()

    def lookup(self, name):
        e = self
        while e is not None:
            if name in e.vars:
                return e.vars[name]
            e = e.parent
        raise KeyError(name)

    def has(self, name):
        e = self
        while e is not None:
            if name in e.vars:
                return True
            e = e.parent
        return False

    def assign(self, name, value):
        if name in self.nonlocals:
            e = self.parent
            while e is not None:
                if name in e.vars:
                    e.vars[name] = value
                    return
                e = e.parent
        self.vars[name] = value


_UNBOUND = object()


class Interp:
    def __init__(self, path: Path, source):
        self.p = path
        self.ctx = path.ctx
        self.src = source       # source.SourceIndex
        self.models = self.ctx.models

    # ------------------------------------------------------------------ truthiness, equality
    def truth(self, v):
        """-> Python bool or z3 BoolRef."""
        if isinstance(v, SV):
            t = z3.simplify(v.t)
            if t.decl().name() == "VBool":
                return t.arg(0)
            return V.truthy(t)
        if isinstance(v, MList):
            return V.is_VCons(V.vl(v.t))
        if isinstance(v, MDict):
            return V.is_VCons(V.vd(v.t))
        if isinstance(v, MSet):
            return V.is_VCons(v.elems)           # a symbolic set is truthy iff it has a member
        if isinstance(v, (V.PDict, V.PList, V.PSet)) and getattr(v, "m", None) is not None:
            return self.truth(v.m)               # concrete container that switched to its symbolic form
        if isinstance(v, z3.BoolRef):
            return v
        if isinstance(v, Obj):
            return True
        return bool(v)

    def decide(self, v, label=""):
        t = self.truth(v)
        if isinstance(t, bool):
            return t
        return self.p.branch(t, label)

    def eq(self, a, b):
        """Python `a == b` -> bool or BoolRef."""
        if not deep_symbolic(a) and not deep_symbolic(b):
            return a == b
        for x, y in ((a, b), (b, a)):
            if isinstance(x, Obj) and x.cls.__name__ == "CharSetOf":
                return self.models.charset_eq(self, x, y)
        if isinstance(a, Obj) and isinstance(b, Obj):
            if V.REG.info(a.cls).identity or not hasattr(a.cls, "__eq__") or a.cls.__eq__ is object.__eq__:
                return a is b
        if isinstance(a, Obj) and not deep_symbolic(b) and not isinstance(b, Obj):
            if a.cls.__eq__ is object.__eq__:
                return False
        try:
            return lower(a) == lower(b)
        except V.LowerError as e:
            raise Unsupported(f"== on values that cannot be lowered: {e}")

    def sv_bool(self, b):
        if isinstance(b, bool):
            return b
        return SV(V.VBool(b))

    # ------------------------------------------------------------------ running a function
    def call_closure(self, fn: Closure, args, kwargs):
        node = fn.node
        env = Env(fn.env)
        self.bind_args(fn, env, args, kwargs)
        env.vars["__fn__"] = fn
        if isinstance(node, ast.Lambda):
            return self.eval(node.body, env, fn.module)
        self._scan_scope(node, env)
        self.p.call_depth += 1
        try:
            if self._is_generator(node):
                out = []
                env.vars["__yield__"] = out
                try:
                    self.exec_block(node.body, env, fn.module)
                except _Return:
                    pass
                return out
            try:
                self.exec_block(node.body, env, fn.module)
            except _Return as r:
                return r.value
            return None
        finally:
            self.p.call_depth -= 1

    _gen_cache = {}

    def _is_generator(self, node):
        k = id(node)
        if k not in self._gen_cache:
            found = False
            stack = list(node.body)
            while stack:
                n = stack.pop()
                if isinstance(n, (ast.Yield, ast.YieldFrom)):
                    found = True
                    break
                if isinstance(n, (ast.FunctionDef, ast.AsyncFunctionDef, ast.Lambda, ast.ClassDef)):
                    continue
                stack.extend(ast.iter_child_nodes(n))
            self._gen_cache[k] = found
        return self._gen_cache[k]

    def _scan_scope(self, node, env):
        stack = list(node.body)
        while stack:
            n = stack.pop()
            if isinstance(n, ast.Nonlocal):
                env.nonlocals.update(n.names)
            elif isinstance(n, ast.Global):
                env.globals_.update(n.names)
            if isinstance(n, (ast.FunctionDef, ast.AsyncFunctionDef, ast.Lambda, ast.ClassDef)):
                continue
            stack.extend(ast.iter_child_nodes(n))

    def bind_args(self, fn, env, args, kwargs):
        a = fn.node.args
        args = list(args)
        kwargs = dict(kwargs)
        params = list(a.posonlyargs) + list(a.args)
        defaults = [None] * (len(params) - len(a.defaults)) + list(a.defaults)
        for i, prm in enumerate(params):
            if i < len(args):
                if prm.arg in kwargs:
                    raise PyRaise(TypeError(f"{fn.name}() got multiple values for argument '{prm.arg}'"))
                env.vars[prm.arg] = args[i]
            elif prm.arg in kwargs:
                env.vars[prm.arg] = kwargs.pop(prm.arg)
            elif defaults[i] is not None:
                env.vars[prm.arg] = self.eval(defaults[i], fn.env or Env(), fn.module)
            else:
                raise PyRaise(TypeError(f"{fn.name}() missing required argument '{prm.arg}'"))
        extra = args[len(params):]
        star = kwargs.pop("__star__", None)      # contract setups: a symbolic tuple for *args (any number of arguments)
        if star is not None:
            if not a.vararg or extra:
                raise Unsupported("symbolic * argument passed to a function without *args / after explicit extra arguments")
            env.vars[a.vararg.arg] = star
        elif a.vararg:
            env.vars[a.vararg.arg] = tuple(extra)
        elif extra:
            raise PyRaise(TypeError(f"{fn.name}() takes {len(params)} positional arguments but {len(args)} were given"))
        for prm, d in zip(a.kwonlyargs, a.kw_defaults):
            if prm.arg in kwargs:
                env.vars[prm.arg] = kwargs.pop(prm.arg)
            elif d is not None:
                env.vars[prm.arg] = self.eval(d, fn.env or Env(), fn.module)
            else:
                raise PyRaise(TypeError(f"{fn.name}() missing keyword-only argument '{prm.arg}'"))
        splat = kwargs.pop("__splat__", None)
        if splat is not None:
            if not a.kwarg:
                raise Unsupported("symbolic ** argument passed to a function without **kwargs")
            m = MDict(lower(splat))
            for k, v in kwargs.items():
                m.t = V.VDict(V.d_set(V.vd(m.t), lower(k), lower(v)))
            env.vars[a.kwarg.arg] = m
        elif a.kwarg:
            env.vars[a.kwarg.arg] = norm(kwargs) if isinstance(kwargs, (MDict, PDict)) else PDict(kwargs)
        elif kwargs:
            raise PyRaise(TypeError(f"{fn.name}() got an unexpected keyword argument '{next(iter(kwargs))}'"))

    # ------------------------------------------------------------------ statements
    def exec_block(self, stmts, env, module):
        for st in stmts:
            self.exec_stmt(st, env, module)

    def exec_stmt(self, st, env, module):
        m = getattr(self, "st_" + type(st).__name__, None)
        if m is None:
            raise Unsupported(f"statement {type(st).__name__} (line {getattr(st, 'lineno', '?')})")
        return m(st, env, module)

    def st_Expr(self, st, env, module):
        if isinstance(st.value, ast.Constant):
            return  # docstring
        self.eval(st.value, env, module)

    def st_Pass(self, st, env, module):
        pass

    def st_Return(self, st, env, module):
        raise _Return(self.eval(st.value, env, module) if st.value is not None else None)

    def st_Break(self, st, env, module):
        raise _Break()

    def st_Continue(self, st, env, module):
        raise _Continue()

    def st_Global(self, st, env, module):
        pass

    def st_Nonlocal(self, st, env, module):
        pass

    def st_Import(self, st, env, module):
        import importlib
        for al in st.names:
            mod = importlib.import_module(al.name)
            if al.asname:
                env.assign(al.asname, mod)
            else:
                env.assign(al.name.split(".")[0], importlib.import_module(al.name.split(".")[0]))

    def st_ImportFrom(self, st, env, module):
        import importlib
        pkg = getattr(module, "__package__", None)
        mod = importlib.import_module("." * st.level + (st.module or ""), pkg) if st.level else importlib.import_module(st.module)
        for al in st.names:
            env.assign(al.asname or al.name, getattr(mod, al.name))

    def st_Assign(self, st, env, module):
        v = self.eval(st.value, env, module)
        for tgt in st.targets:
            self.assign_target(tgt, v, env, module)

    def st_AnnAssign(self, st, env, module):
        if st.value is not None:
            self.assign_target(st.target, self.eval(st.value, env, module), env, module)

    def st_AugAssign(self, st, env, module):
        load = ast.copy_location(_as_load(st.target), st.target)
        cur = self.eval(load, env, module)
        rhs = self.eval(st.value, env, module)
        if isinstance(st.op, ast.Add) and isinstance(cur, list) and not isinstance(rhs, (SV, MList)):
            cur.extend(rhs)     # list += is in place
            return
        self.assign_target(st.target, self.binop(st.op, cur, rhs), env, module)

    def st_Delete(self, st, env, module):
        for tgt in st.targets:
            if isinstance(tgt, ast.Subscript):
                o = self.eval(tgt.value, env, module)
                k = self.eval(tgt.slice, env, module)
                if isinstance(o, (dict, list)) and not deep_symbolic(k):
                    try:
                        del o[k]
                    except (KeyError, IndexError) as e:
                        raise PyRaise(e)
                    continue
            raise Unsupported("del")

    def st_Assert(self, st, env, module):
        if not self.decide(self.eval(st.test, env, module), "assert"):
            raise PyRaise(AssertionError())

    def st_If(self, st, env, module):
        if self.decide(self.eval(st.test, env, module), f"if@{st.lineno}"):
            self.exec_block(st.body, env, module)
        else:
            self.exec_block(st.orelse, env, module)

    def st_While(self, st, env, module):
        n = sym = 0
        while True:
            t = self.truth(self.eval(st.test, env, module))
            if not isinstance(t, bool):
                if self.models.symbolic_while(self, st, env, module):
                    return
                sym += 1
                if sym > self.ctx.max_symbolic_while:
                    raise Unsupported(f"while loop at line {st.lineno} iterates on a symbolic condition (needs a loop invariant)")
                t = self.p.branch(t, f"while@{st.lineno}")
            if not t:
                self.exec_block(st.orelse, env, module)
                return
            n += 1
            if n > self.ctx.max_decisions:
                raise Unsupported("while loop without bound")
            try:
                self.exec_block(st.body, env, module)
            except _Break:
                return
            except _Continue:
                continue

    def st_For(self, st, env, module):
        it = self.eval(st.iter, env, module)
        if isinstance(it, (set, frozenset)) and len(it) > 1:
            self.models.order_obligation(self, "for loop", st.lineno)
        handled = self.models.symbolic_for(self, st, it, env, module)
        if handled:
            return
        for item in self.iterate(it):
            self.assign_target(st.target, item, env, module)
            try:
                self.exec_block(st.body, env, module)
            except _Break:
                return
            except _Continue:
                continue
        self.exec_block(st.orelse, env, module)

    st_AsyncFor = st_For

    def st_FunctionDef(self, st, env, module):
        outer = env.lookup("__fn__") if env.has("__fn__") else None
        q = (outer.qualname + ".<locals>." + st.name) if outer is not None else st.name
        fn = Closure(st, env, module, st.name, qualname=q, is_async=isinstance(st, ast.AsyncFunctionDef))
        for d in st.decorator_list:
            raise Unsupported("decorated nested function")
        env.assign(st.name, fn)

    st_AsyncFunctionDef = st_FunctionDef

    def st_Raise(self, st, env, module):
        if st.exc is None:
            cur = env.lookup("__exc__") if env.has("__exc__") else None
            if cur is None:
                raise Unsupported("bare raise outside except")
            raise cur
        exc = self.eval(st.exc, env, module)
        if isinstance(exc, type) and issubclass(exc, BaseException):
            exc = self.call(exc, [], {})
        cause = self.eval(st.cause, env, module) if st.cause is not None else None
        raise PyRaise(exc, cause)

    def st_Try(self, st, env, module):
        try:
            try:
                self.exec_block(st.body, env, module)
            except PyRaise as pr:
                for h in st.handlers:
                    if h.type is None:
                        matches = True
                    else:
                        classes = self.eval(h.type, env, module)
                        classes = classes if isinstance(classes, tuple) else (classes,)
                        matches = any(isinstance(c, type) and issubclass(pr.exc_class, c) for c in classes)
                    if matches:
                        if h.name:
                            env.assign(h.name, pr.exc)
                        saved = env.vars.get("__exc__", _UNBOUND)
                        env.vars["__exc__"] = pr
                        try:
                            self.exec_block(h.body, env, module)
                        finally:
                            if saved is _UNBOUND:
                                env.vars.pop("__exc__", None)
                            else:
                                env.vars["__exc__"] = saved
                        break
                else:
                    raise
            else:
                self.exec_block(st.orelse, env, module)
        finally:
            if st.finalbody:
                self.exec_block(st.finalbody, env, module)

    def st_With(self, st, env, module):
        exits = []
        for item in st.items:
            cm = self.eval(item.context_expr, env, module)
            entered = self.models.enter_context(self, cm)
            exits.append(cm)
            if item.optional_vars is not None:
                self.assign_target(item.optional_vars, entered, env, module)
        try:
            self.exec_block(st.body, env, module)
        except PyRaise as pr:
            for cm in reversed(exits):
                self.models.exit_context(self, cm, pr)
            raise
        else:
            for cm in reversed(exits):
                self.models.exit_context(self, cm, None)

    st_AsyncWith = st_With

    # ------------------------------------------------------------------ assignment targets
    def assign_target(self, tgt, v, env, module):
        if isinstance(tgt, ast.Name):
            env.assign(tgt.id, v)
        elif isinstance(tgt, (ast.Tuple, ast.List)):
            items = self.unpack(v, len(tgt.elts))
            for t, x in zip(tgt.elts, items):
                self.assign_target(t, x, env, module)
        elif isinstance(tgt, ast.Attribute):
            o = self.eval(tgt.value, env, module)
            self.set_attr(o, tgt.attr, v)
        elif isinstance(tgt, ast.Subscript):
            o = self.eval(tgt.value, env, module)
            k = self.eval(tgt.slice, env, module)
            self.set_item(o, k, v)
        else:
            raise Unsupported(f"assignment target {type(tgt).__name__}")

    def unpack(self, v, n):
        if isinstance(v, (tuple, list)):
            if len(v) != n:
                raise PyRaise(ValueError("unpack length mismatch"))
            return list(v)
        if isinstance(v, SV):
            t = v.t
            if self.models.entailed(self, V.is_VTuple(t)):
                seq = V.vt(t)
            elif self.models.entailed(self, V.is_VList(t)):
                seq = V.vl(t)
            else:
                seq = z3.If(V.is_VTuple(t), V.vt(t), V.vl(t))
                self.p.oblige("no-raise@unpack", z3.Or(V.is_VTuple(t), V.is_VList(t)), "no-raise")
            l, conj = seq, []
            for _ in range(n):
                conj.append(V.is_VCons(l))
                l = V.tl(l)
            conj.append(V.is_VNil(l))
            exact = z3.And(*conj)
            if not self.models.entailed(self, exact):
                self.p.oblige("no-raise@unpack", exact, "no-raise", detail="ValueError: wrong number of values to unpack")
            return [SV(V.nth(seq, i)) for i in range(n)]
        raise Unsupported(f"unpack of {type(v)}")

    def set_attr(self, o, name, v):
        if isinstance(o, Obj):
            if getattr(o, "oid", 0) == -1:
                self.p.writes.append((o, name))
            o.attrs[name] = v
            return
        if isinstance(o, ast.AST) and not isinstance(o, type):
            setattr(o, name, v)
            return
        raise Unsupported(f"attribute assignment on {type(o).__name__}")

    def set_item(self, o, k, v):
        if isinstance(o, dict) and not deep_symbolic(k):
            o[k] = v
            return
        if isinstance(o, dict) and isinstance(k, SV):
            # symbolic key into a concrete dict: becomes a symbolic dict
            raise Unsupported("store with symbolic key into a concrete dict (use MDict)")
        if isinstance(o, list) and isinstance(k, int):
            try:
                o[k] = v
            except IndexError as e:
                raise PyRaise(e)
            return
        if isinstance(o, MDict):
            o.t = V.VDict(V.d_set(V.vd(o.t), lower(k), V.store_lower(v)))
            return
        if isinstance(o, SV):
            # item assignment on a container that is (part of) a symbolic input: in-place mutation of the caller's object
            self.p.oblige("frame.arguments-not-mutated", z3.BoolVal(False), "frame",
                          detail="item assignment on a container reachable from the function's arguments", assume_after=False)
            raise PathAbort()
        raise Unsupported(f"item assignment on {type(o).__name__}")

    # ------------------------------------------------------------------ iteration
    def iterate(self, it):
        if isinstance(it, (list, tuple, str, dict, set, frozenset, range, types.GeneratorType)) or \
                type(it).__name__ in ("dict_items", "dict_keys", "dict_values", "enumerate", "zip", "map", "filter",
                                      "reversed", "list_iterator", "tuple_iterator", "EnumType", "EnumMeta"):
            return it
        if isinstance(it, type):
            return it      # Enum classes
        if isinstance(it, SV):
            t = z3.simplify(it.t)
            items = _concrete_list_items(t)
            if items is not None:
                return [SV(x) for x in items]
            raise Unsupported("iteration over a symbolic sequence needs a loop contract")
        if isinstance(it, MList):
            items = _concrete_list_items(z3.simplify(it.t))
            if items is not None:
                return [SV(x) for x in items]
            raise Unsupported("iteration over a symbolic list needs a loop contract")
        try:
            return iter(it)
        except TypeError:
            raise Unsupported(f"iteration over {type(it).__name__}")

    # ------------------------------------------------------------------ expressions
    def eval(self, e, env, module):
        m = getattr(self, "ex_" + type(e).__name__, None)
        if m is None:
            raise Unsupported(f"expression {type(e).__name__} (line {getattr(e, 'lineno', '?')})")
        return norm(m(e, env, module))

    def ex_Constant(self, e, env, module):
        return e.value

    def ex_Name(self, e, env, module):
        try:
            return env.lookup(e.id)
        except KeyError:
            pass
        g = getattr(module, "__dict__", {})
        if e.id in g:
            return self.wrap_global(g[e.id], module)
        import builtins
        if hasattr(builtins, e.id):
            return getattr(builtins, e.id)
        # a name that is neither local, nor of an enclosing scope the contract's setup provides, nor global, nor built in: the
        # function refers to something the contract does not know (e.g. a new sibling closure) - outside the contract, not a NameError
        # of the program (the code under check compiles and its tests pass)
        raise Unsupported(f"the function refers to the name '{e.id}' which the contract's setup does not provide (new enclosing-scope variable or helper)")

    def wrap_global(self, v, module):
        """Repository functions become Closures over their *source text*."""
        if isinstance(v, types.FunctionType):
            c = self.src.closure_for_function(v)
            if c is not None:
                return c
        return v

    def ex_Attribute(self, e, env, module):
        o = self.eval(e.value, env, module)
        return self.get_attr(o, e.attr)

    def get_attr(self, o, name):
        if isinstance(o, Obj):
            if self.ctx.track_reads and self.ctx.track_reads(o, name):
                self.p.reads.append((o.cls.__name__, name))
            if name in o.attrs:
                return o.attrs[name]
            mm = getattr(o.cls, "__pyvc_methods__", None)
            if mm and name in mm:
                return ModelMethod(o, mm[name], name)
            return self.class_attr(o, o.cls, name)
        if isinstance(o, (SV, MList, MDict, V.MDefaultDict, V.DDEntry, MSet)):
            return self.models.sym_attr(self, o, name)
        if isinstance(o, (Closure, BoundMethod)):
            if name == "__name__":
                return o.name if isinstance(o, Closure) else o.fn.name
            raise Unsupported(f"attribute {name} of function")
        if isinstance(o, type) and self.src.is_repo_class(o):
            return self.class_attr(None, o, name)
        if isinstance(o, super):
            raise Unsupported("super object")
        try:
            v = getattr(o, name)
        except AttributeError as ex:
            raise PyRaise(ex)
        if isinstance(v, types.FunctionType):
            return self.wrap_global(v, None)
        if isinstance(v, types.MethodType) and isinstance(v.__func__, types.FunctionType):
            c = self.src.closure_for_function(v.__func__)
            if c is not None:
                return BoundMethod(v.__self__, c)
        return v

    def class_attr(self, inst, cls, name):
        for klass in cls.__mro__:
            if name in klass.__dict__:
                raw = klass.__dict__[name]
                if isinstance(raw, staticmethod):
                    return self.wrap_global(raw.__func__, None)
                if isinstance(raw, classmethod):
                    fn = self.wrap_global(raw.__func__, None)
                    return BoundMethod(cls, fn) if isinstance(fn, Closure) else getattr(cls, name)
                if isinstance(raw, property):
                    if inst is None:
                        return raw
                    fn = self.wrap_global(raw.fget, None)
                    return self.call(fn, [inst], {})
                if isinstance(raw, types.FunctionType):
                    fn = self.wrap_global(raw, None)
                    if inst is None:
                        return fn
                    return BoundMethod(inst, fn)
                if inst is not None and callable(raw) and not isinstance(raw, type) and hasattr(raw, "__get__") \
                        and type(raw).__name__ in ("wrapper_descriptor", "method_descriptor", "builtin_function_or_method"):
                    return NativeBound(inst, raw, name)
                if dataclasses.is_dataclass(cls) and isinstance(raw, dataclasses.Field):
                    break
                return raw
        if inst is not None:
            if getattr(inst, "oid", None) == -7:
                raise Unsupported(f"the contract's setup does not provide attribute '{name}' of {cls.__name__} (new state introduced by the code?)")
            raise PyRaise(AttributeError(f"'{cls.__name__}' object has no attribute '{name}'"))
        raise PyRaise(AttributeError(f"type object '{cls.__name__}' has no attribute '{name}'"))

    def ex_Subscript(self, e, env, module):
        o = self.eval(e.value, env, module)
        if isinstance(e.slice, ast.Slice):
            lo = self.eval(e.slice.lower, env, module) if e.slice.lower is not None else None
            hi = self.eval(e.slice.upper, env, module) if e.slice.upper is not None else None
            st = self.eval(e.slice.step, env, module) if e.slice.step is not None else None
            return self.models.get_slice(self, o, lo, hi, st)
        k = self.eval(e.slice, env, module)
        return self.get_item(o, k)

    def get_item(self, o, k):
        if not deep_symbolic(k) and not isinstance(o, (SV, MList, MDict, Obj, V.MDefaultDict, V.DDEntry)):
            if isinstance(o, dict) and deep_symbolic(o) is False or isinstance(o, (dict, list, tuple, str)):
                try:
                    return o[k]
                except (KeyError, IndexError, TypeError) as ex:
                    raise PyRaise(ex)
            try:
                return o[k]       # typing generics, enums, ...
            except (KeyError, IndexError, TypeError) as ex:
                raise PyRaise(ex)
        return self.models.get_item(self, o, k)

    def ex_Call(self, e, env, module):
        fn = self.eval(e.func, env, module)
        args, kwargs = [], {}
        for a in e.args:
            if isinstance(a, ast.Starred):
                args.extend(self.iterate(self.eval(a.value, env, module)))
            else:
                args.append(self.eval(a, env, module))
        for kw in e.keywords:
            if kw.arg is None:
                d = self.eval(kw.value, env, module)
                if isinstance(d, dict):
                    for k, v in d.items():
                        if k in kwargs:
                            raise PyRaise(TypeError(f"got multiple values for keyword argument '{k}'"))
                        kwargs[k] = v
                else:
                    kwargs = self.models.splat_kwargs(self, kwargs, d)
            else:
                kwargs[kw.arg] = self.eval(kw.value, env, module)
        return self.call(fn, args, kwargs, site=e)

    def call(self, fn, args, kwargs, site=None):
        if isinstance(fn, BoundMethod):
            return self.call(fn.fn, [fn.self_val] + list(args), kwargs, site)
        if isinstance(fn, NativeBound):
            return self.models.call_native(self, fn.raw, [fn.inst] + list(args), kwargs)
        if isinstance(fn, ModelMethod):
            return fn.f(self, fn.obj, list(args), dict(kwargs))
        if isinstance(fn, SymMethod):
            return self.models.call_sym_method(self, fn.recv, fn.name, args, kwargs)
        if isinstance(fn, Closure):
            key = self.src.key_of(fn)
            c = self.ctx.contracts.get(key)
            if c is not None and not (key == self.ctx.current_key and self.p.call_depth == 0):
                return c.apply_at_call(self, fn, args, kwargs)
            if self.p.call_depth > self.ctx.max_inline_depth:
                raise Unsupported(f"inlining too deep at {fn.qualname} (recursive function without contract?)")
            return self.call_closure(fn, args, kwargs)
        if isinstance(fn, type) and self.src.is_repo_class(fn):
            return self.instantiate(fn, args, kwargs)
        return self.models.call_native(self, fn, args, kwargs)

    def instantiate(self, cls, args, kwargs):
        import enum
        if issubclass(cls, enum.Enum):
            return self.models.call_native(self, cls, args, kwargs)
        self.p.counter += 1
        o = Obj(cls, {}, oid=self.p.counter)
        if dataclasses.is_dataclass(cls) and _synth_init(cls):
            flds = dataclasses.fields(cls)
            args = list(args)
            kwargs = dict(kwargs)
            for i, f in enumerate(flds):
                if not f.init:
                    continue
                if args:
                    o.attrs[f.name] = args.pop(0)
                elif f.name in kwargs:
                    o.attrs[f.name] = kwargs.pop(f.name)
                elif f.default is not dataclasses.MISSING:
                    o.attrs[f.name] = f.default
                elif f.default_factory is not dataclasses.MISSING:
                    o.attrs[f.name] = self.call(self.wrap_global(f.default_factory, None), [], {})
                else:
                    raise PyRaise(TypeError(f"{cls.__name__}() missing argument {f.name}"))
            if args or kwargs:
                raise PyRaise(TypeError(f"{cls.__name__}() got unexpected arguments"))
            post = getattr(cls, "__post_init__", None)
            if post is not None:
                self.call(BoundMethod(o, self.wrap_global(post, None)), [], {})
            return o
        init = None
        for klass in cls.__mro__:
            if "__init__" in klass.__dict__:
                init = klass.__dict__["__init__"]
                break
        if isinstance(init, types.FunctionType):
            c = self.src.closure_for_function(init)
            if c is not None:
                env_fn = BoundMethod(o, c)
                self.call(env_fn, args, kwargs)
                return o
        if issubclass(cls, BaseException):
            o.attrs["args"] = tuple(args)
            return o
        if init is object.__init__ or init is None:
            if args or kwargs:
                raise PyRaise(TypeError(f"{cls.__name__}() takes no arguments"))
            return o
        raise Unsupported(f"cannot instantiate {cls.__name__}")

    def ex_BoolOp(self, e, env, module):
        is_and = isinstance(e.op, ast.And)
        v = None
        for i, sub in enumerate(e.values):
            v = self.eval(sub, env, module)
            if i == len(e.values) - 1:
                return v
            d = self.decide(v, f"{'and' if is_and else 'or'}@{getattr(e, 'lineno', 0)}")
            if is_and and not d:
                return v
            if not is_and and d:
                return v
        return v

    def ex_UnaryOp(self, e, env, module):
        v = self.eval(e.operand, env, module)
        if isinstance(e.op, ast.Not):
            t = self.truth(v)
            return (not t) if isinstance(t, bool) else SV(V.VBool(z3.Not(t)))
        if isinstance(e.op, ast.USub):
            if isinstance(v, SV):
                self.p.oblige("no-raise@neg", V.is_VInt(v.t), "no-raise")
                return SV(V.VInt(-V.vi(v.t)))
            return -v
        raise Unsupported("unary op")

    def ex_BinOp(self, e, env, module):
        return self.binop(e.op, self.eval(e.left, env, module), self.eval(e.right, env, module))

    def binop(self, op, a, b):
        for x in (a, b):
            if isinstance(x, Obj) and hasattr(x.cls, "__pyvc_binop__"):
                return x.cls.__pyvc_binop__(self, op, a, b)
        if not deep_symbolic(a) and not deep_symbolic(b):
            import operator
            table = {ast.Add: operator.add, ast.Sub: operator.sub, ast.Mult: operator.mul, ast.Mod: operator.mod,
                     ast.FloorDiv: operator.floordiv, ast.Div: operator.truediv, ast.BitOr: operator.or_,
                     ast.BitAnd: operator.and_, ast.Pow: operator.pow}
            if type(op) not in table:
                raise Unsupported(f"binop {type(op).__name__}")
            try:
                return table[type(op)](a, b)
            except (TypeError, ValueError, ZeroDivisionError) as ex:
                raise PyRaise(ex)
        return self.models.binop(self, op, a, b)

    def ex_Compare(self, e, env, module):
        left = self.eval(e.left, env, module)
        result = None
        for op, right_e in zip(e.ops, e.comparators):
            right = self.eval(right_e, env, module)
            r = self.compare(op, left, right)
            if len(e.ops) == 1:
                return r if isinstance(r, bool) else SV(V.VBool(r))
            if not self.decide(self.sv_bool(r), "cmp-chain"):
                return False
            left = right
            result = True
        return result

    def compare(self, op, a, b):
        """-> bool or BoolRef"""
        if isinstance(op, ast.Eq):
            return self.eq(a, b)
        if isinstance(op, ast.NotEq):
            r = self.eq(a, b)
            return (not r) if isinstance(r, bool) else z3.Not(r)
        if isinstance(op, (ast.Is, ast.IsNot)):
            r = self.models.identical(self, a, b)
            if isinstance(op, ast.IsNot):
                r = (not r) if isinstance(r, bool) else z3.Not(r)
            return r
        if isinstance(op, (ast.In, ast.NotIn)):
            r = self.models.contains(self, b, a)
            if isinstance(op, ast.NotIn):
                r = (not r) if isinstance(r, bool) else z3.Not(r)
            return r
        if not deep_symbolic(a) and not deep_symbolic(b):
            import operator
            table = {ast.Lt: operator.lt, ast.LtE: operator.le, ast.Gt: operator.gt, ast.GtE: operator.ge}
            try:
                return table[type(op)](a, b)
            except TypeError as ex:
                raise PyRaise(ex)
        return self.models.order_compare(self, op, a, b)

    def ex_IfExp(self, e, env, module):
        if self.decide(self.eval(e.test, env, module), f"ifexp@{getattr(e, 'lineno', 0)}"):
            return self.eval(e.body, env, module)
        return self.eval(e.orelse, env, module)

    def _display(self, e, env, module):
        """elements of a list / tuple display; `*xs` with a symbolic sequence makes the whole display a symbolic sequence:
        -> (python list of values, None) or (None, VL term)"""
        parts = []                      # ("one", value) | ("many", VL term)
        symbolic = False
        for x in e.elts:
            if isinstance(x, ast.Starred):
                v = self.eval(x.value, env, module)
                seq = self.models._seq_term(self, v, getattr(e, "lineno", None), "starred element") if isinstance(v, (SV, MList, V.DDEntry, MSet)) else None
                if seq is not None:
                    parts.append(("many", seq))
                    symbolic = True
                else:
                    parts.extend(("one", y) for y in self.iterate(v))
            else:
                parts.append(("one", self.eval(x, env, module)))
        if not symbolic:
            return [v for _, v in parts], None
        t = V.VNil
        for kind, v in reversed(parts):
            t = V.VCons(V.store_lower(v), t) if kind == "one" else V.vconcat(v, t)
        return None, t

    def ex_List(self, e, env, module):
        items, t = self._display(e, env, module)
        if items is None:
            return MList(V.VList(t))
        out = PList()
        out.extend(items)
        return out

    def ex_Tuple(self, e, env, module):
        items, t = self._display(e, env, module)
        if items is None:
            return SV(V.VTuple(t))
        return tuple(items)

    def ex_Set(self, e, env, module):
        items = self.ex_List(e, env, module)
        if deep_symbolic(items):
            raise Unsupported("set display with symbolic elements")
        return set(items)

    def ex_Dict(self, e, env, module):
        out = PDict()
        for k, v in zip(e.keys, e.values):
            if k is None:
                d = self.eval(v, env, module)
                if isinstance(d, dict):
                    out.update(d)
                else:
                    raise Unsupported("dict splat of symbolic mapping")
            else:
                kv = self.eval(k, env, module)
                if deep_symbolic(kv):
                    raise Unsupported("dict display with symbolic key")
                out[kv] = self.eval(v, env, module)
        return out

    def ex_JoinedStr(self, e, env, module):
        parts = []
        for x in e.values:
            if isinstance(x, ast.Constant):
                parts.append(x.value)
            else:
                v = self.eval(x.value, env, module)
                if x.conversion not in (-1, 115) or x.format_spec is not None:
                    if x.conversion == 114 and not deep_symbolic(v):
                        parts.append(repr(v))
                        continue
                    raise Unsupported("f-string conversion/format spec")
                parts.append(self.models.to_str(self, v))
        return self.models.concat_strs(self, parts)

    def ex_Lambda(self, e, env, module):
        return Closure(e, env, module, "<lambda>")

    def ex_Await(self, e, env, module):
        return self.eval(e.value, env, module)

    def ex_Yield(self, e, env, module):
        v = self.eval(e.value, env, module) if e.value is not None else None
        env.lookup("__yield__").append(v)
        self.p.effect("yield", v)
        return None

    def ex_NamedExpr(self, e, env, module):
        v = self.eval(e.value, env, module)
        env.assign(e.target.id, v)
        return v

    def ex_Starred(self, e, env, module):
        raise Unsupported("starred expression")

    # -- comprehensions
    def _comp(self, e, env, module, emit):
        def rec(i, cenv):
            if i == len(e.generators):
                emit(cenv)
                return
            g = e.generators[i]
            it = self.eval(g.iter, cenv, module)
            for item in self.iterate(it):
                inner = Env(cenv)
                self.assign_target(g.target, item, inner, module)
                if all(self.decide(self.eval(c, inner, module), "comp-if") for c in g.ifs):
                    rec(i + 1, inner)
        rec(0, Env(env))

    def ex_ListComp(self, e, env, module):
        sym = self.models.symbolic_comprehension(self, e, env, module)
        if sym is not None:
            return sym
        out = PList()           # like a list display: may later be extended with a symbolic sequence
        self._comp(e, env, module, lambda cenv: list.append(out, self.eval(e.elt, cenv, module)))
        return out

    def ex_GeneratorExp(self, e, env, module):
        return self.ex_ListComp(e, env, module)

    def ex_SetComp(self, e, env, module):
        out = self.ex_ListComp(e, env, module)
        if isinstance(out, list) and not deep_symbolic(out):
            return set(out)
        return self.models.make_set(self, out)

    def ex_DictComp(self, e, env, module):
        sym = self.models.symbolic_comprehension(self, e, env, module)
        if sym is not None:
            return sym
        out = {}

        def emit(cenv):
            k = self.eval(e.key, cenv, module)
            if deep_symbolic(k):
                raise Unsupported("dict comprehension with symbolic key")
            out[k] = self.eval(e.value, cenv, module)
        self._comp(e, env, module, emit)
        return out


class ModelMethod:
    """method of a spec-level stand-in object (assumed dependency contract written in /verif/contracts)"""

    def __init__(self, obj, f, name):
        self.obj, self.f, self.name = obj, f, name


class NativeBound:
    def __init__(self, inst, raw, name):
        self.inst, self.raw, self.name = inst, raw, name


def _synth_init(cls):
    init = cls.__dict__.get("__init__")
    if init is None:
        for k in cls.__mro__[1:]:
            if "__init__" in k.__dict__:
                init = k.__dict__["__init__"]
                break
    code = getattr(init, "__code__", None)
    return code is not None and code.co_filename.startswith("<")


def _as_load(tgt):
    import copy
    t = copy.copy(tgt)
    t.ctx = ast.Load()
    return t


def _concrete_list_items(t):
    """If t is VList/VTuple of a concrete spine (cons cells down to VNil) return the element terms."""
    d = t.decl().name()
    if d not in ("VList", "VTuple"):
        return None
    items = []
    l = t.arg(0)
    while True:
        n = l.decl().name()
        if n == "VNil":
            return items
        if n != "VCons":
            return None
        items.append(l.arg(0))
        l = l.arg(1)


# --------------------------------------------------------------------------- exploration

def explore(run, ctx, max_paths=3000):
    """Enumerate all feasible paths of `run(path)`. Returns list of (path, outcome) where outcome is
    ('return', value) | ('raise', PyRaise) | ('unsupported', msg)."""
    import time as _time
    work = [[]]
    results = []
    while work:
        if ctx.deadline is not None and _time.time() > ctx.deadline:
            results.append((Path([], ctx), ("unsupported", "time budget for this function exhausted")))
            break
        dec = work.pop()
        p = Path(dec, ctx)
        try:
            out = run(p)
            results.append((p, ("return", out)))
        except PathAbort:
            results.append((p, ("abort", None)))
        except PyRaise as pr:
            results.append((p, ("raise", pr)))
        except (Unsupported, V.AliasingUnsupported) as u:
            results.append((p, ("unsupported", str(u))))
        except V.LowerError as u:
            # a value of the changed code has no counterpart in the value domain: the function left the supported subset
            results.append((p, ("unsupported", f"value outside the value domain: {u}")))
        work.extend(p.alternatives)
        if len(results) > max_paths:
            results.append((p, ("unsupported", f"more than {max_paths} paths")))
            break
    return results
