"""Specification vocabulary shared by the contracts: z3-level helpers over `Val`."""
from __future__ import annotations

import z3
from . import val as V
from . import models
from .val import lower
from .shapes import *   # noqa


def S(s):
    return V.VStr(V.S(s))


def get(d, key, default=None):
    """dict.get on a VDict term"""
    return V.dget(V.vd(d), lower(key), V.VNone if default is None else lower(default))


def has(d, key):
    return V.dhas(V.vd(d), lower(key))


def mk(pycls, **fields):
    return V.mk_obj(pycls, **fields)


def lst(*items):
    return V.VList(V.vlist([lower(x) for x in items]))


def tup(*items):
    return V.VTuple(V.vlist([lower(x) for x in items]))


def dct(**items):
    return lower(dict(items))


def dict_of(pairs):
    return V.VDict(V.vlist([V._pair(lower(k), lower(v)) for k, v in pairs]))


truthy = V.truthy


class DictOf(Shape):
    """dict whose keys satisfy `key` and values satisfy `value` (association list of pairs)."""

    def __init__(self, key, value, name=None):
        self.key, self.value = key, value
        self._all = None
        self.name = name or "alld"

    def all_fn(self):
        if self._all is None:
            from .shapes import _fresh_name
            from .shapes import _unique
            f = z3.RecFunction(_unique(_fresh_name(self.name)), V.VL, z3.BoolSort())
            self._all = f
            l = z3.FreshConst(V.VL, "l")
            p = V.hd(l)
            ok = z3.And(V.is_VTuple(p), V.is_VCons(V.vt(p)), V.is_VCons(V.tl(V.vt(p))), V.is_VNil(V.tl(V.tl(V.vt(p)))),
                        self.key.pred(V.pkey(p)), self.value.pred(V.pval(p)),
                        z3.Not(V.dhas(V.tl(l), V.pkey(p))))
            z3.RecAddDefinition(f, [l], z3.If(V.is_VNil(l), z3.BoolVal(True), z3.And(ok, f(V.tl(l)))))
        return self._all

    def pred(self, t):
        return z3.And(V.is_VDict(t), self.all_fn()(V.vd(t)))

    def pair_pred(self, p):
        return z3.And(V.is_VTuple(p), V.is_VCons(V.vt(p)), V.is_VCons(V.tl(V.vt(p))), V.is_VNil(V.tl(V.tl(V.vt(p)))),
                      self.key.pred(V.pkey(p)), self.value.pred(V.pval(p)))

    def on_assume(self, ctx, t):
        from .shapes import _guarded_on_assume
        _guarded_on_assume(ctx, self, t, z3.BoolVal(True))


JSON_DEEP = Rec("Json", lambda self: OneOf(NoneT, Bool, Int, Float, Str, ListOf(self, name="all_json"),
                                           DictOf(Str, self, name="all_json_members")))
# Shallow JSON kind test (no recursion): what the code under contract can observe of a parsed JSON value at one
# level.  Deeper levels are constrained only where a contract says so; counter-models are repaired into JSON
# before they are replayed (non-JSON leaves become null), and only native replays decide violations.
JOBJ = DictOf(Str, Any, name="jobj")      # well-formed association list with distinct string keys
JSON = OneOf(NoneT, Bool, Int, Float, Str, Pred(V.is_VList, "list"), JOBJ)


# --------------------------------------------------------------------------- maps (comprehension spec side)

class SpecMap:
    """Spec-level filter-map over a VL:  [body(v, *params) for v in xs if keep(v, *params)]  as a recursive function
    f(xs, *params).  `apply(path, xs, *params)` returns the VL term and applies the extensionality rule: if the code
    under proof built a comprehension over the same list, pointwise agreement of keep-conditions and bodies (proved
    as its own obligation `map-ext@<site>` for an arbitrary element satisfying the element facts) yields equality."""
    _count = [0]

    def __init__(self, name, body_fn, keep_fn=None, param_sorts=()):
        SpecMap._count[0] += 1
        n = SpecMap._count[0]
        self.name = f"{name}!s{n}"
        self.var = z3.Const(f"__selem_{n}__", V.Val)
        self.params = [z3.Const(f"__sparam_{n}_{i}__", srt) for i, srt in enumerate(param_sorts)]
        self.fn = z3.RecFunction(self.name, V.VL, *param_sorts, V.VL)
        self.body_fn, self.keep_fn = body_fn, keep_fn
        self._defined = False

    def define(self):
        if self._defined:
            return
        self._defined = True
        self.body = z3.simplify(lower(self.body_fn(self.var, *self.params)))
        self.keep = None if self.keep_fn is None else z3.simplify(self.keep_fn(self.var, *self.params))
        l = z3.FreshConst(V.VL, "l")
        step = z3.substitute(self.body, (self.var, V.hd(l)))
        rec = V.VCons(step, self.fn(V.tl(l), *self.params))
        if self.keep is not None:
            rec = z3.If(z3.substitute(self.keep, (self.var, V.hd(l))), rec, self.fn(V.tl(l), *self.params))
        z3.RecAddDefinition(self.fn, [l] + self.params, z3.If(V.is_VNil(l), V.VNil, rec))

    def __call__(self, xs, *params):
        self.define()
        return self.fn(xs, *params)

    # -- "some element satisfies the (boolean) body": any(body(v) for v in xs)
    def any_fn(self):
        self.define()
        if not hasattr(self, "_any"):
            f = z3.RecFunction(self.name + "#any", V.VL, *[p.sort() for p in self.params], z3.BoolSort())
            l = z3.FreshConst(V.VL, "l")
            cond = V.truthy(z3.substitute(self.body, (self.var, V.hd(l))))
            z3.RecAddDefinition(f, [l] + self.params, z3.If(V.is_VNil(l), z3.BoolVal(False), z3.Or(cond, f(V.tl(l), *self.params))))
            self._any = f
        return self._any

    def apply_any(self, path, xs, *params):
        """any(body(v) for v in xs); related by extensionality to the code's `some element raises` flag over the same list"""
        f = self.any_fn()
        xs = z3.simplify(xs)
        psub = list(zip(self.params, params))
        if path is not None:
            for cname, m in list(path.maps_used.items()):
                if m.get("kind") != "any" or not z3.simplify(m["xs"]).eq(xs):
                    continue
                v = path.fresh("ext")
                cflag = V.truthy(z3.substitute(m["body"], (m["var"], v)))
                sflag = V.truthy(z3.substitute(self.body, (self.var, v), *psub))
                facts = [V.vcontains(xs, v)]
                ent = path.ctx.__dict__.get("elem_shapes", {}).get(xs.get_id())
                if ent is not None:
                    facts.append(ent(v))
                if path.try_prove(z3.Implies(z3.And(*facts), cflag == sflag)):
                    path.assume(m["fn"](xs) == f(xs, *params))
        return f(xs, *params)

    def apply(self, path, xs, *params):
        self.define()
        xs = z3.simplify(xs)
        psub = list(zip(self.params, params))
        for cname, m in list(path.maps_used.items()):
            if m.get("kind") == "any":
                continue
            same = z3.simplify(m["xs"]).eq(xs)
            if not same:
                # the two lists may be provably (not syntactically) equal, e.g. after a loop exit `cur == flat(xs)`
                same = path.try_prove(m["xs"] == xs, 2000)
            if not same:
                continue
            done = path.ctx.__dict__.setdefault("map_ext_done", set())
            key = (cname, self.name, xs.get_id(), id(path), tuple(p.get_id() for p in params))
            if key in done:
                continue
            done.add(key)
            v = path.fresh("ext")
            cbody = z3.substitute(m["body"], (m["var"], v))
            sbody = z3.substitute(self.body, (self.var, v), *psub)
            ckeep = z3.BoolVal(True) if m.get("keep") is None else z3.substitute(m["keep"], (m["var"], v))
            skeep = z3.BoolVal(True) if self.keep is None else z3.substitute(self.keep, (self.var, v), *psub)
            facts = [V.vcontains(xs, v)]
            ent = path.ctx.__dict__.get("elem_shapes", {}).get(xs.get_id()) or \
                path.ctx.__dict__.get("elem_shapes", {}).get(z3.simplify(m["xs"]).get_id()) or V.elem_shape_of(path.ctx, xs)
            if ent is not None:
                facts.append(ent(v))
            site = m["site"].split(":", 1)[1] if ":" in m["site"] else m["site"]
            # auxiliary lemma (map extensionality). A failed attempt is not a failed obligation: the postcondition
            # that needs the equality then fails on its own and carries the counter-model.
            if path.try_prove(z3.Implies(z3.And(*facts), z3.And(ckeep == skeep, z3.Implies(skeep, cbody == sbody)))):
                path.assume(m["fn"](m["xs"]) == self.fn(xs, *params))
                path.ctx.__dict__.setdefault("lemmas_proved", []).append(f"map-ext@{site}")
        return self.fn(xs, *params)


_SPEC_MAPS = {}


def spec_map(path, xs, body_fn, name="specmap"):
    """convenience: non-recursive spec map built from a Python function over one Val term (cached by name)"""
    sm = _SPEC_MAPS.get(name)
    if sm is None:
        sm = _SPEC_MAPS[name] = SpecMap(name, body_fn)
    return V.VList(sm.apply(path, xs))


def in_strs(t, strings):
    """t (a Val) is one of the given strings - same encoding as the interpreter's `x in <tuple/list/dict of str>`"""
    strings = list(strings)
    if not strings:
        return z3.BoolVal(False)
    if len(strings) > 8:
        return z3.And(V.is_VStr(t), z3.InRe(V.vs(t), z3.Union(*[z3.Re(str(x)) for x in strings])))
    return z3.Or(*[t == S(x) for x in strings])


def append_map_inv(cur, rest, xs, smap, params=(), init=None, keep=None):
    """Loop invariant (suffix form) of `for x in xs: acc.append(f(x))`:  cur ++ map(rest) == init ++ map(xs).
    When `rest` is x::rest' the associativity instance the step needs is recorded:
    (cur ++ [e]) ++ m == cur ++ (e :: m)   with e = spec body of x, m = map(rest')."""
    init = V.VNil if init is None else init
    m = smap(rest, *params)
    rs = z3.simplify(rest)
    if z3.is_app(rs) and rs.decl().name() == "VNil":
        return cur == V.vconcat(init, smap(xs, *params))
    if z3.is_app(rs) and rs.decl().name() == "VCons":
        x, r1 = rs.arg(0), rs.arg(1)
        smap.define()
        e = z3.substitute(smap.body, (smap.var, x), *list(zip(smap.params, params)))
        tail = smap(r1, *params)
        V.LEMMAS.append(V.vl_concat(V.vl_concat(cur, V.VCons(e, V.VNil)), tail) == V.vl_concat(cur, V.VCons(e, tail)))
        # one explicit unfolding of the spec map at x::rest' (an instance of its definition; z3 does not always unfold by itself)
        if smap.keep is not None:
            k = z3.substitute(smap.keep, (smap.var, x), *list(zip(smap.params, params)))
            V.LEMMAS.append(smap(rs, *params) == z3.If(k, V.VCons(e, tail), tail))
        else:
            V.LEMMAS.append(smap(rs, *params) == V.VCons(e, tail))
        if smap.keep is not None:
            V.LEMMAS.append(V.vl_concat(cur, tail) == V.vl_concat(cur, tail))
    return V.vl_concat(cur, m) == V.vl_concat(init, smap(xs, *params))
