"""Specification vocabulary shared by the contracts: z3-level helpers over `Val`."""
from __future__ import annotations

import z3
from . import val as V
from . import models
from .val import lower
from .shapes import *   # noqa


def S(s):
    return V.VStr(V.S(s))


def get(d, key, default=None):
    """dict.get on a VDict term"""
    return V.dget(V.vd(d), lower(key), V.VNone if default is None else lower(default))


def has(d, key):
    return V.dhas(V.vd(d), lower(key))


def mk(pycls, **fields):
    return V.mk_obj(pycls, **fields)


def lst(*items):
    return V.VList(V.vlist([lower(x) for x in items]))


def tup(*items):
    return V.VTuple(V.vlist([lower(x) for x in items]))


def dct(**items):
    return lower(dict(items))


def dict_of(pairs):
    return V.VDict(V.vlist([V._pair(lower(k), lower(v)) for k, v in pairs]))


truthy = V.truthy


class DictOf(Shape):
    """dict whose keys satisfy `key` and values satisfy `value` (association list of pairs)."""

    def __init__(self, key, value, name=None):
        self.key, self.value = key, value
        self._all = None
        self.name = name or "alld"

    def all_fn(self):
        if self._all is None:
            from .shapes import _fresh_name
            f = z3.RecFunction(_fresh_name(self.name), V.VL, z3.BoolSort())
            self._all = f
            l = z3.FreshConst(V.VL, "l")
            p = V.hd(l)
            ok = z3.And(V.is_VTuple(p), V.is_VCons(V.vt(p)), V.is_VCons(V.tl(V.vt(p))), V.is_VNil(V.tl(V.tl(V.vt(p)))),
                        self.key.pred(V.pkey(p)), self.value.pred(V.pval(p)),
                        z3.Not(V.dhas(V.tl(l), V.pkey(p))))
            z3.RecAddDefinition(f, [l], z3.If(V.is_VNil(l), z3.BoolVal(True), z3.And(ok, f(V.tl(l)))))
        return self._all

    def pred(self, t):
        return z3.And(V.is_VDict(t), self.all_fn()(V.vd(t)))


JSON_DEEP = Rec("Json", lambda self: OneOf(NoneT, Bool, Int, Float, Str, ListOf(self, name="all_json"),
                                           DictOf(Str, self, name="all_json_members")))
# Shallow JSON kind test (no recursion): what the code under contract can observe of a parsed JSON value at one
# level.  Deeper levels are constrained only where a contract says so; counter-models are repaired into JSON
# before they are replayed (non-JSON leaves become null), and only native replays decide violations.
JOBJ = DictOf(Str, Any, name="jobj")      # well-formed association list with distinct string keys
JSON = OneOf(NoneT, Bool, Int, Float, Str, Pred(V.is_VList, "list"), JOBJ)


# --------------------------------------------------------------------------- maps (comprehension spec side)

_SPEC_MAPS = {}


def spec_map(path, xs, body_fn, name="specmap"):
    """Spec-level [body_fn(v) for v in xs] over a VL term.  If the code under proof built a map over the same
    list, the extensionality rule is applied: pointwise equality of the bodies (proved as its own obligation
    `map-ext@<site>`, for an arbitrary element satisfying the element facts) gives equality of the maps."""
    elem = path.fresh("selem")
    body = z3.simplify(lower(body_fn(elem)))
    canon = z3.Const("__selem__", V.Val)
    key = (name, z3.substitute(body, (elem, canon)).sexpr())
    f = _SPEC_MAPS.get(key)
    if f is None:
        fname = f"{name}!{len(_SPEC_MAPS) + 1}"
        f = z3.RecFunction(fname, V.VL, V.VL)
        l = z3.FreshConst(V.VL, "l")
        z3.RecAddDefinition(f, [l], z3.If(V.is_VNil(l), V.VNil,
                                          V.VCons(z3.substitute(body, (elem, V.hd(l))), f(V.tl(l)))))
        _SPEC_MAPS[key] = f
    xs = z3.simplify(xs)
    for cname, m in list(path.ctx.__dict__.get("maps_used", {}).items()):
        if m.get("keep") is not None:
            continue
        if z3.simplify(m["xs"]).eq(xs):
            v = path.fresh("ext")
            cbody = z3.substitute(m["body"], (m["var"], v))
            sbody = z3.substitute(body, (elem, v))
            facts = [V.vl_contains(xs, v)]
            table = path.ctx.__dict__.get("elem_shapes", {})
            ent = table.get(xs.get_id())
            if ent is not None:
                facts.append(ent(v))
            ob = path.oblige(f"map-ext@{m['site'].split(':', 1)[1] if ':' in m['site'] else m['site']}",
                             z3.Implies(z3.And(*facts), cbody == sbody), "lemma",
                             detail="pointwise equality of comprehension body and spec body (map extensionality)")
            if ob.status == "unsat":
                path.assume(m["fn"](xs) == f(xs))
    return V.VList(f(xs))


def in_strs(t, strings):
    return z3.Or(*[t == S(s) for s in strings]) if strings else z3.BoolVal(False)
