"""Command-line driver:  python -m pyvc.check <property id> [--tier quick|thorough] [--replay FILE]

exit 0  every obligation generated from /repo's current source was discharged (known findings are printed)
exit 1  an obligation failed: `VIOLATION property=<id> replay=<file>` (counter-model replayed on the real code;
        the line ends with `no-failing-input-found` when the solver's model could not be replayed natively)
exit 2  undecided (solver unknown / function left the supported subset) - never reported as a violation
exit 3  checker failure (engine error, vacuous contract, canary verified)
"""
from __future__ import annotations

import argparse
import importlib
import json
import multiprocessing as mp
import os
import sys
import time
import traceback

ROOT = os.path.dirname(os.path.dirname(os.path.abspath(__file__)))
if ROOT not in sys.path:
    sys.path.insert(0, ROOT)
# evidence and replay files go under /verif; experiments against scratch trees (tools/run_seeds_parallel.py) redirect them
OUT = os.environ.get("PYVC_OUT") or ROOT


def _worker(job, partial_path=None):
    pid, modname, index, tier, kind = job
    t0 = time.time()
    try:
        import z3
        from pyvc import val as V
        from pyvc.contract import verify
        from pyvc.replay import concretise, replay_inputs
        mod = importlib.import_module(modname)
        every = list(getattr(mod, "CONTRACTS", []))
        group = getattr(mod, "CANARIES", []) if kind == "canary" else every
        c = group[index]
        timeout = 30000 if tier == "quick" else 120000
        # native samples first (fast; independent of the solver): kept in a side file so that they survive a job that is
        # killed because a solver query does not come back
        early_samples = []
        if kind != "canary" and hasattr(c, "samples"):
            for inputs in c.samples(tier):
                try:
                    early_samples.append(c.replay_custom(inputs) if hasattr(c, "replay_custom") else replay_inputs(c, inputs))
                except Exception:   # noqa  (a sample that cannot be evaluated is reported as such; the verification still runs)
                    early_samples.append(dict(inputs={}, failed=[], pre_ok=False, outcome=None, error="sample raised: " + traceback.format_exc()[-800:]))
            if partial_path:
                with open(partial_path, "w") as f:
                    json.dump(dict(label=getattr(c, "label", c.target), target=c.target, samples=early_samples), f, default=str)
        r = verify(c, contracts=every, timeout_ms=timeout)
        carved = []
        if kind != "canary" and any(ob["status"] != "unsat" for ob in r.obligations.values()):
            # known findings with a region predicate: re-prove the same obligations with the listed regions carved
            # out of the precondition; what still fails is a new violation, what now holds is the known finding
            regs = [f for f in load_findings() if f.get("status", "open") == "open" and _fn_matches(f, c.target)
                    and f.get("region") in getattr(c, "regions", {})]
            if regs:
                c.excluded = tuple(f["region"] for f in regs)
                r2 = verify(c, contracts=every, timeout_ms=timeout)
                c.excluded = ()
                for name, ob in r.obligations.items():
                    if ob["status"] != "unsat" and r2.obligations.get(name, {"status": "unsat"})["status"] == "unsat" and not r2.unsupported and not r2.error:
                        carved.append(dict(obligation=name, regions=[f["id"] for f in regs], first_status=ob["status"]))
                if carved:
                    keep_models = {n: r.obligations[n] for n in r.obligations}
                    r = r2
                    r.first_run = keep_models
        out = dict(target=c.target, label=getattr(c, "label", c.target), module=modname, kind=kind, paths=r.paths,
                   post_paths=r.post_paths, unsupported=r.unsupported, error=r.error, time=r.time,
                   hashes={f"{k[0]}:{k[1]}": v for k, v in r.source_hashes.items()},
                   models_used=sorted(r.models_used), trusted=list(getattr(c, "trusted", [])),
                   contracts_used=sorted(r.contracts_used), obligations={}, samples=[], regions=carved)
        for name, ob in r.obligations.items():
            o = dict(status=ob["status"], kind=ob["kind"], imprecise=ob.get("imprecise", False), queries=ob["queries"], time=round(ob["time"], 4), backends=ob.get("backends", {}),
                     detail=ob["detail"][:2000], unknown=ob["unknown_reasons"][:2], replays=[])
            if ob["status"] == "sat" and kind != "canary":
                for m in ob["models"]:
                    try:
                        inputs = concretise(c, m)
                        rep = c.replay_custom(inputs) if hasattr(c, "replay_custom") else replay_inputs(c, inputs)
                    except Exception as e:   # noqa
                        rep = dict(error=f"concretisation failed: {e!r}", failed=[], inputs={})
                    rep["model"] = {k: str(z3.simplify(t))[:1500] for k, t in m.items()}
                    o["replays"].append(rep)
                    if rep.get("failed"):
                        break
            out["obligations"][name] = o
        # native samples: the contract evaluated on the real function for concrete inputs (cross-check of the
        # encoding + vacuity witnesses; bounded, never counted as proof)
        out["samples"] = early_samples
        out["wall"] = time.time() - t0
        return out
    except Exception as e:   # noqa
        return dict(target=f"{modname}[{index}]", label=f"{modname}[{index}]", module=modname, kind=kind,
                    error="worker crashed: " + traceback.format_exc()[-3000:], obligations={}, samples=[], paths=0, post_paths=0,
                    unsupported=[], time=0, hashes={}, models_used=[], trusted=[], contracts_used=[], wall=time.time() - t0)


def _child(job, path):
    try:
        out = _worker(job, path + ".partial")
    finally:
        from pyvc.source import cleanup_generated
        cleanup_generated()
    with open(path, "w") as f:
        json.dump(out, f, default=str)


def run_jobs(jobs, n, job_timeout):
    """one forked process per contract (a solver crash or hang in one job cannot take the others down)"""
    import tempfile
    ctxm = mp.get_context("fork")
    tmpdir = tempfile.mkdtemp(prefix="pyvc_jobs_")
    pending = list(enumerate(jobs))
    running, results, retried = {}, {}, set()
    while pending or running:
        while pending and len(running) < n:
            i, job = pending.pop(0)
            path = os.path.join(tmpdir, f"{i}.json")
            p = ctxm.Process(target=_child, args=(job, path))
            p.start()
            running[i] = (p, job, path, time.time())
        time.sleep(0.05)
        for i in list(running):
            p, job, path, t0 = running[i]
            if p.is_alive() and time.time() - t0 < job_timeout:
                continue
            if p.is_alive():
                p.kill()
                p.join()
                results[i] = _crash(job, f"job exceeded {job_timeout}s and was killed")
                try:
                    part = json.load(open(path + ".partial"))
                    results[i].update(label=part["label"], target=part["target"], samples=part["samples"])
                except Exception:   # noqa
                    pass
            else:
                p.join()
                try:
                    results[i] = json.load(open(path))
                except Exception:   # noqa
                    if p.exitcode is not None and p.exitcode < 0 and i not in retried:
                        # killed by a signal (a native crash inside the solver): says nothing about the code - run the job once more
                        retried.add(i)
                        pending.append((i, job))
                    else:
                        results[i] = _crash(job, f"worker process died (exit code {p.exitcode}) - solver crash?")
            del running[i]
    import shutil
    shutil.rmtree(tmpdir, ignore_errors=True)
    return [results[i] for i in sorted(results)]


def _crash(job, msg):
    pid, modname, index, tier, kind = job
    return dict(target=f"{modname}[{index}]", label=f"{modname}[{index}]", module=modname, kind=kind, error=msg, obligations={},
                samples=[], paths=0, post_paths=0, unsupported=[], time=0, hashes={}, models_used=[], trusted=[],
                contracts_used=[], wall=0, regions=[])


def load_findings():
    p = os.path.join(ROOT, "known_findings.json")
    if not os.path.exists(p):
        return []
    return json.load(open(p)).get("findings", [])


def main(argv=None):
    ap = argparse.ArgumentParser()
    ap.add_argument("property")
    ap.add_argument("--tier", default=os.environ.get("VERIF_TIER", "quick"))
    ap.add_argument("--replay")
    ap.add_argument("--jobs", type=int, default=int(os.environ.get("PYVC_JOBS", "12")))
    ap.add_argument("--only", help="substring filter on contract targets (debugging)")
    ap.add_argument("-v", action="store_true")
    args = ap.parse_args(argv)
    pid = args.property
    tier = "thorough" if args.tier == "thorough" else "quick"
    seed = int(os.environ.get("VERIF_SEED", "0") or 0)
    t0 = time.time()
    if args.replay:
        return replay_file(args.replay)

    from contracts import registry
    if pid not in registry.PROPERTIES:
        print(f"unknown or unclaimed property {pid}")
        return 3
    spec = registry.PROPERTIES[pid]
    jobs = []
    for modname in list(spec["modules"]) + ["contracts.canary"]:
        mod = importlib.import_module(modname)
        for i, c in enumerate(getattr(mod, "CONTRACTS", [])):
            if getattr(c, "assumed", False):
                continue      # assumed contract on a function outside the subset: used at call sites, listed as assumption
            if pid in c.props and (not args.only or args.only in c.target):
                jobs.append((pid, modname, i, tier, "contract"))
        for i, c in enumerate(getattr(mod, "CANARIES", [])):
            if pid in c.props and not args.only:
                jobs.append((pid, modname, i, tier, "canary"))
    results = run_jobs(jobs, max(1, args.jobs), 780 if tier == "quick" else 5400)

    # a recorded finding is keyed by function/clause/region, whichever property's check re-derives it
    findings = [f for f in load_findings() if f.get("status", "open") == "open"]
    import shutil
    shutil.rmtree(os.path.join(OUT, "replays", pid), ignore_errors=True)
    os.makedirs(os.path.join(OUT, "replays", pid), exist_ok=True)
    violations, undecided, failures, known_lines = [], [], [], []
    n_obl = n_dis = 0
    per_fn, samples_out, trusted, models_used = [], [], set(), set()
    solver_time = 0.0
    backend_queries = {}
    n_canaries = 0
    n_samples = n_samples_nontrivial = 0
    matched_findings = set()

    def process_samples(r, label):
        nonlocal n_samples, n_samples_nontrivial
        for rep in r["samples"]:
            n_samples += 1
            if rep.get("error"):
                failures.append(f"{label}: sample replay crashed: {rep['error'][:600]}")
                continue
            if rep.get("pre_ok"):
                n_samples_nontrivial += 1
            if rep.get("representation_only") and not rep.get("failed"):
                undecided.append(f"{label}: sample {rep['representation_only'][0]}: the returned representation differs from the specified one but denotes an equal object")
            if rep.get("failed"):
                kf = match_finding(findings, r["target"], rep["failed"][0], rep, None)
                if kf is not None:
                    matched_findings.add(kf["id"])
                    known_lines.append((kf, f"{pid}/{r['target']}/{rep['failed'][0]}", rep))
                    continue
                rfile = os.path.join(OUT, "replays", pid, _safe(f"{r['target']}__sample_{n_samples}") + ".json")
                json.dump(dict(property=pid, obligation=f"{pid}/{r['target']}/{rep['failed'][0]}", function=r["target"],
                               status="bounded sample failed on the real code", replays=[rep], contract_module=r["module"],
                               label=label), open(rfile, "w"), indent=1, default=str)
                violations.append((f"{pid}/{r['target']}/{rep['failed'][0]}", rfile, True))


    for r in results:
        label = r["label"]
        if r.get("error"):
            if str(r["error"]).startswith("target not found"):
                # the function under contract was renamed or removed: its obligations cannot be generated (undecided)
                undecided.append(f"{label}: {r['error']} - the contract no longer has a function to apply to")
            elif "and was killed" in str(r["error"]):
                # the verification of this function did not finish within the job's time limit: nothing is known about it
                undecided.append(f"{label}: {r['error']} (not decided within the time limit)")
                process_samples(r, label)       # the native samples ran before the verification and stand on their own
            else:
                failures.append(f"{label}: {r['error']}")
            continue
        if r["kind"] == "canary":
            n_canaries += 1
            ok = any(o["status"] == "sat" for o in r["obligations"].values())
            if not ok:
                failures.append(f"canary {label} was not refuted (engine unsound or contract vacuous): "
                                f"{ {k: v['status'] for k, v in r['obligations'].items()} }")
            continue
        trusted.update(r["trusted"])
        models_used.update(r["models_used"])
        fn_entry = dict(function=r["target"], paths=r["paths"], paths_reaching_post=r["post_paths"],
                        obligations=len(r["obligations"]), seconds=round(r["time"], 3), source_sha=r["hashes"].get(r["target"], ""),
                        callee_contracts_used=r["contracts_used"])
        per_fn.append(fn_entry)
        if r["unsupported"]:
            undecided.append(f"{label}: outside the supported subset: {r['unsupported'][:3]}")
        if r["post_paths"] == 0 and not r["unsupported"]:
            failures.append(f"{label}: vacuous - no path reaches a postcondition (contradictory precondition?)")
        for cv in r.get("regions", []):
            for fid in cv["regions"]:
                kf = next((f for f in findings if f["id"] == fid), None)
                if kf is None:
                    continue
                still = run_witness(kf)
                extra = sorted(set((still or {}).get("cases", [])) - set(kf.get("cases", (still or {}).get("cases", []))))
                if still and extra:
                    # the witness scenario now fails in cases the finding does not list: a different violation
                    rfile = os.path.join(OUT, "replays", pid, _safe(f"{r['target']}__{cv['obligation']}__new_cases") + ".json")
                    json.dump(dict(property=pid, obligation=f"{pid}/{r['target']}/{cv['obligation']}", function=r["target"],
                                   status="failing cases beyond the recorded known finding", new_cases=extra, replays=[still]),
                              open(rfile, "w"), indent=1, default=str)
                    violations.append((f"{pid}/{r['target']}/{cv['obligation']}", rfile, True))
                if still:
                    matched_findings.add(fid)
                    known_lines.append((kf, f"{pid}/{r['target']}/{cv['obligation']}", still))
                else:
                    print(f"note: finding {fid} is listed but its witness no longer fails (stale entry)")
        for name, o in r["obligations"].items():
            full = f"{pid}/{r['target']}/{name}"
            n_obl += 1
            solver_time += o["time"]
            for bk, cnt in o.get("backends", {}).items():
                backend_queries[bk] = backend_queries.get(bk, 0) + cnt
            if o["status"] == "unsat":
                n_dis += 1
                if len(samples_out) < 6:
                    samples_out.append(dict(obligation=full, status="discharged", path_queries=o["queries"], solver_s=o["time"]))
                continue
            if o["status"] == "unknown":
                undecided.append(f"{full}: solver answered unknown ({o['unknown']})")
                continue
            # sat: counter-model. replayed?
            # a replay confirms a postcondition obligation when it fails THAT clause (another clause failing on the same input is
            # that clause's business); obligations raised on the way (no-raise, invariants, frames) are confirmed by any failing clause
            own_clause = name if name.startswith(("post.", "raises[")) else None
            confirmed = next((rp for rp in o["replays"] if rp.get("failed") and (own_clause is None or any(own_clause == f or own_clause in str(f) for f in rp["failed"]))), None)
            if confirmed is None and r["unsupported"]:
                # the function is partly outside the supported subset (some of its paths could not be executed): the unmodelled parts
                # are abstracted, and only refutations that replay on the real code are trusted
                undecided.append(f"{full}: fails in the engine, but the function is partly outside the supported subset and no replay confirms it on the real code")
                continue
            if confirmed is None and o.get("imprecise"):
                # every failing path went through a loop cut without invariant (over-approximation): not a verdict
                undecided.append(f"{full}: fails only on over-approximated paths (loop without invariant, uninterpreted library model) and no replay confirms it")
                continue
            if confirmed is None and any(rp.get("representation_only") or rp.get("semantic_ok") for rp in o["replays"]):
                undecided.append(f"{full}: the returned representation differs from the specified one, but on the counterexample it denotes an equal object "
                                 "(no input found on which the property itself fails; the contract pins the representation and needs adapting)")
                continue
            kf = match_finding(findings, r["target"], name, confirmed, o)
            if kf is not None:
                matched_findings.add(kf["id"])
                n_dis += 0
                known_lines.append((kf, full, confirmed))
                continue
            rfile = os.path.join(OUT, "replays", pid, _safe(f"{r['target']}__{name}") + ".json")
            payload = dict(property=pid, obligation=full, function=r["target"], source_sha=r["hashes"].get(r["target"], ""),
                           status="counter-model replayed on the real code" if confirmed else "no-failing-input-found",
                           detail=o["detail"], replays=o["replays"], contract_module=r["module"], label=label)
            json.dump(payload, open(rfile, "w"), indent=1, default=str)
            violations.append((full, rfile, confirmed is not None))
        process_samples(r, label)

    # order-dependence obligations generated from whole modules (ghost `ord` flag, see ordscan.py)
    ord_assumed = []
    if spec.get("ordscan"):
        from pyvc.ordscan import scan_modules
        from pyvc.source import REPO
        for o in scan_modules(REPO, spec["ordscan"], os.path.join(ROOT, "contracts", "ord_sanitised.json")):
            n_obl += 1
            if o["status"] == "discharged":
                n_dis += 1
                if o["assumed"]:
                    ord_assumed.append(f"{o['name']}: {o['site']} - {o['rule']}")
                if len(samples_out) < 8:
                    samples_out.append(dict(obligation=f"{pid}/{o['name']}", status="discharged", site=o["site"], rule=o["rule"]))
                continue
            rep = None
            hook = spec.get("ord_replay")
            if hook:
                try:
                    rep = hook()
                except Exception:   # noqa
                    rep = dict(error=traceback.format_exc()[-800:], failed=[])
            rfile = os.path.join(OUT, "replays", pid, _safe(o["name"]) + ".json")
            json.dump(dict(property=pid, obligation=f"{pid}/{o['name']}", function=o["function"], site=o["site"], line=o["lineno"],
                           status="set iteration order reaches an order-sensitive position; no sanitiser recorded for this site",
                           replays=[rep] if rep else []), open(rfile, "w"), indent=1, default=str)
            violations.append((f"{pid}/{o['name']}", rfile, bool(rep and rep.get("failed"))))

    # bounded stand-ins registered for this property
    bounded = []
    for b in spec.get("bounded", []):
        try:
            br = b(tier, seed)
        except Exception:   # noqa
            failures.append("bounded stand-in crashed: " + traceback.format_exc()[-1500:])
            continue
        bounded.append({k: v for k, v in br.items() if k != "failures"})
        for fail in br.get("failures", []):
            kf = match_finding(findings, br["function"], br["name"], fail, None)
            if kf is not None:
                matched_findings.add(kf["id"])
                known_lines.append((kf, f"{pid}/{br['function']}/{br['name']}", fail))
                continue
            rfile = os.path.join(OUT, "replays", pid, _safe(f"{br['function']}__{br['name']}") + ".json")
            json.dump(dict(property=pid, obligation=f"{pid}/{br['function']}/{br['name']}", function=br["function"],
                           status="bounded stand-in failed on the real code", replays=[fail]), open(rfile, "w"), indent=1, default=str)
            violations.append((f"{pid}/{br['function']}/{br['name']}", rfile, True))
            break
        if br.get("failures"):
            bounded[-1]["failures_in_known_regions"] = sum(1 for f_ in br["failures"] if match_finding(findings, br["function"], br["name"], f_, None) is not None)

    seen = set()
    for kf, full, rep in known_lines:
        if kf["id"] in seen:
            continue
        seen.add(kf["id"])
        print(f"KNOWN-FINDING: property={pid} {kf['what']} [{full}]")
    for i, (full, rfile, confirmed) in enumerate(violations):
        if i == 10:
            print(f"... and {len(violations) - 10} more failed obligations (see {os.path.join(ROOT, 'replays', pid)})")
            break
        print(f"obligation failed: {full}")
        print(f"VIOLATION property={pid} replay={rfile}" + ("" if confirmed else " no-failing-input-found"))
    for u in undecided:
        print("UNDECIDED:", u)
    for f in failures:
        print("CHECKER-FAILURE:", f)
    if n_obl == 0:
        failures.append("no obligations were generated")
        print("CHECKER-FAILURE: no obligations were generated")

    wall = time.time() - t0
    known_count = len(seen)
    evidence = dict(
        property_id=pid, tier=tier, seed=seed, level="proof", wall_s=round(wall, 2), violations=len(violations),
        coverage=dict(
            obligations=n_obl, discharged=n_dis + sum(1 for _ in []),
            checker_cmd=f".venv/bin/python -m pyvc.check {pid} --tier {tier}",
            trusted_base=sorted(trusted) + [f"model: {m}" for m in sorted(models_used)],
            backend={"z3": {"version": _z3_version(), "path_queries": backend_queries.get("z3", 0)},
                     "cvc5": {"version": "1.4.0 (python binding)", "path_queries_decided_after_z3_unknown": backend_queries.get("cvc5", 0)},
                     "solver_s": round(solver_time, 3)},
            functions_under_contract=per_fn,
            samples=samples_out or [dict(note="no discharged obligation to show")],
            known_findings=list({kf["id"]: dict(id=kf["id"], what=kf["what"], obligation=full) for kf, full, _ in known_lines}.values()),
            undecided=undecided, bounded=bounded,
            native_cross_check=dict(samples=n_samples, within_precondition=n_samples_nontrivial,
                                    note="real function executed natively on concrete inputs and the same contract clauses evaluated; bounded, not counted as proof"),
            explanation=spec.get("explanation", ""),
            vacuity_guards=dict(canaries_refuted=n_canaries, note="deliberately false postconditions on real functions that must come back sat; "
                                "every contract must reach at least one postcondition; obligation count must be > 0"),
        ),
        assumptions=list(spec.get("assumptions", [])) + ENCODING_ASSUMPTIONS + [f"order sanitised downstream (assumed): {a}" for a in ord_assumed],
    )
    # an obligation with a listed known finding counts as neither discharged nor as a new violation
    evidence["coverage"]["obligations_with_known_finding"] = known_count
    os.makedirs(os.path.join(OUT, "evidence"), exist_ok=True)
    json.dump(evidence, open(os.path.join(OUT, "evidence", f"{pid}.json"), "w"), indent=1, default=str)
    print(f"{pid}: obligations={n_obl} discharged={n_dis} known-findings={known_count} violations={len(violations)} "
          f"undecided={len(undecided)} functions={len(per_fn)} wall={wall:.1f}s")
    if violations:
        return 1          # (a violation stands, whatever else went wrong in the same run)
    if failures:
        return 3
    if undecided:
        return 2
    return 0


ENCODING_ASSUMPTIONS = [
    "Python int = SMT Int (exact); str = SMT String (GraphQL/config names ASCII); float carried as Real, no float arithmetic",
    "objects are records (class tag, ordered fields, identity only for identity-compared classes); AST nodes are never compared with == by code under contract",
    "dict = association list in insertion order (CPython >= 3.7); await/async erased (single task)",
    "extraction drops docstrings, comments, type annotations, lineno= keyword arguments of ast constructors",
    "mypy-level type correctness of the repository is trusted for parameters whose shape predicate states it",
]


def _z3_version():
    import z3
    return z3.get_version_string()


def _safe(s):
    return "".join(ch if ch.isalnum() or ch in "._-" else "_" for ch in s)[:180]


def _fn_matches(finding, target):
    """a finding names one function, or several copies of the same code (`functions`)"""
    return finding.get("function") == target or target in finding.get("functions", ())


def match_finding(findings, target, clause, replay, ob):
    """A failure is a *known* finding only if a listed entry names this function+clause and the failing input lies in
    the entry's region (checked by the entry's `match` predicate over the replayed inputs/outcome)."""
    for f in findings:
        if not _fn_matches(f, target):
            continue
        pred = f.get("match")
        if f.get("clause") and f["clause"] != clause and pred is None:
            continue
        if replay is None:
            continue
        scen = (replay.get("inputs") or {}).get("scenario") if isinstance(replay, dict) else None
        if scen is not None and f.get("cases") and scen not in f["cases"]:
            continue
        if pred is None:
            return f
        try:
            mod = importlib.import_module(f["match_module"])
            if getattr(mod, pred)(replay):
                return f
        except Exception:   # noqa
            continue
    return None


def run_witness(finding):
    """re-run the recorded witness of a known finding on the real code; returns the replay report if it still fails"""
    w = finding.get("witness")
    if not w:
        return {"note": "no witness recorded"}
    try:
        mod = importlib.import_module(w["module"])
        rep = getattr(mod, w["function"])(*w.get("args", []))
        return rep if rep.get("failed") else None
    except Exception:   # noqa
        return {"error": traceback.format_exc()[-800:], "failed": ["witness crashed"]}


def replay_file(path):
    from pyvc.replay import replay_inputs
    data = json.load(open(path))
    print(json.dumps({k: data[k] for k in ("property", "obligation", "function", "status") if k in data}, indent=1))
    for rp in data.get("replays", []):
        print(" inputs :", json.dumps(rp.get("inputs"), default=str)[:1500])
        print(" outcome:", rp.get("outcome"), " failed clauses:", rp.get("failed"))
    return 0


if __name__ == "__main__":
    sys.exit(main())
