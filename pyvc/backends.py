"""Second SMT back end: cvc5 (python binding 1.4 from the offline wheelhouse), fed the SMT-LIB export of a z3 query."""
import re


def cvc5_check(smt2_text, timeout_ms=20000):
    try:
        import cvc5
    except ImportError:
        return "unknown"
    try:
        slv = cvc5.Solver()
        slv.setOption("strings-exp", "true")
        slv.setOption("tlimit-per", str(int(timeout_ms)))
        slv.setLogic("ALL")
        sm = cvc5.SymbolManager(slv.getTermManager()) if hasattr(slv, "getTermManager") else cvc5.SymbolManager(slv)
        parser = cvc5.InputParser(slv, sm)
        text = re.sub(r"\(set-info[^\n]*\n", "", smt2_text)
        parser.setStringInput(cvc5.InputLanguage.SMT_LIB_2_6, text, "query")
        result = "unknown"
        while True:
            cmd = parser.nextCommand()
            if cmd.isNull():
                break
            out = cmd.invoke(slv, sm).strip()
            if out in ("sat", "unsat", "unknown"):
                result = out
        return result
    except Exception:   # noqa  (unsupported construct for cvc5, parse error): no answer
        return "unknown"
