from contracts import e2e_fragments as FR
FR.SCENARIOS.update({
 "closure": ("""
   fragment B on Node { id }
   fragment A on Node { ...B }
   query Op1 { me { ...B name } }
   query Op2 { node { ...A } }
 """, {"op_2": {"Op2Node": ["A"]}, "fragments": {"A": ["B"]}}),
})
print(FR.witness_known("fragment-base-in-one-operation-unpacked-in-another"))
print(FR.check_scenario("closure"))
