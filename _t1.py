from contracts import e2e_results as R
for text in ["query Q { me { id ... { name } } }", "query Q { node { id ... { id } ... on User { name } } }", "query Q { node { ... { id } } actor { ... { __typename } ... on Bot { id } } }",
  "fragment F on Node { ... { id } } query Q { node { ...F } me { ...F ... { name } } }"]:
    r=R.check_operation("x", text, snake=True)
    print(r["failed"], str(r["outcome"])[:200])
