"""C04 - module-level generators: the package __init__ (__all__ is the sorted list of every re-exported name) and enum
classes (one member per value, wire value kept, keywords escaped)."""
import ast
import z3
import graphql as G
from pyvc import val as V
from pyvc import models
from pyvc.val import SV, Obj, MList
from pyvc.contract import Contract, self_obj
from pyvc.spec import *   # noqa
from . import lib_graphql as GQ
from .c06_input_types import name_, const
from ariadne_codegen.client_generators import init_file as IF
from ariadne_codegen.client_generators import enums as EN

V.REG.register(IF.InitFileGenerator, ["imports", "plugin_manager"])
ALIAS = Cls(ast.alias, name=GQ.NAME)
IMPORT = Cls(ast.ImportFrom, names=ListOf(ALIAS, name="all_aliases"))
alias_names = SpecMap("alias_names", lambda a: V.attr_of(a, ast.alias, "name"))
flat_names = z3.RecFunction("flat_import_names", V.VL, V.VL)
_l = z3.Const("imps", V.VL)
z3.RecAddDefinition(flat_names, [_l], z3.If(V.is_VNil(_l), V.VNil,
                                            V.vl_concat(alias_names(V.vl(V.attr_of(V.hd(_l), ast.ImportFrom, "names"))), flat_names(V.tl(_l)))))
all_consts = SpecMap("all_constants", lambda n: const(n))


class InitGenerate(Contract):
    props = ("C04",)
    target = "ariadne_codegen.client_generators.init_file:InitFileGenerator.generate"
    use_at_calls = False
    frame_args = False
    trusted = ["list.sort(): uninterpreted py_sorted; ast.Module(body=self.imports) shares the list (value semantics: the "
               "appended __all__ assignment is compared on the returned module only)"]

    def setup(self, E):
        return [self_obj(IF.InitFileGenerator, dict(imports=E.mlist("imports", IMPORT), plugin_manager=None))], {}

    @property
    def loops(self):
        def inv(rest, xs, st, I, env):
            cur = V.vl(st["constants_names"]) if "constants_names" in st else V.VNil
            rs = z3.simplify(rest)
            prev = getattr(I.p, "_init_elem", None)
            if prev is not None:
                # step check: the comprehension over the element's names was built by the body; relate it to the spec map
                alias_names.apply(I.p, V.vl(V.attr_of(prev, ast.ImportFrom, "names")))
            if z3.is_app(rs) and rs.decl().name() == "VNil":
                return cur == flat_names(xs)
            if z3.is_app(rs) and rs.decl().name() == "VCons":
                I.p._init_elem = rs.arg(0)
                b = alias_names(V.vl(V.attr_of(rs.arg(0), ast.ImportFrom, "names")))
                V.LEMMAS.append(V.vl_concat(V.vl_concat(cur, b), flat_names(rs.arg(1))) == V.vl_concat(cur, V.vl_concat(b, flat_names(rs.arg(1)))))
            return V.vl_concat(cur, flat_names(rest)) == flat_names(xs)
        return {"InitFileGenerator.generate": inv}

    def ensures(self, A, res):
        imports = V.vl(V.attr_of(A.self, IF.InitFileGenerator, "imports"))      # value at entry
        p = A.get("__path__")
        names_sorted = models.PY_SORTED(flat_names(imports))
        consts = all_consts.apply(p, names_sorted) if p is not None else all_consts(names_sorted)
        all_assign = mk(ast.Assign, targets=lst(name_("__all__")), value=mk(ast.List, elts=V.VList(consts)))
        body = V.vl(V.attr_of(res, ast.Module, "body"))
        return {"__all__-is-the-sorted-list-of-every-re-exported-name": z3.If(
            V.is_VCons(imports), body == V.vsnoc(imports, all_assign), body == V.VNil)}


ENUM_VALUES = DictOf(GQ.NAME, Cls(G.GraphQLEnumValue), name="enum_values_map")


def py_member(k):
    s = V.vs(k)
    import keyword
    return V.VStr(z3.If(z3.InRe(s, z3.Union(*[z3.Re(x) for x in keyword.kwlist])), z3.Concat(s, V.S("_")), s))


member_assign = SpecMap("enum_member_assign", lambda p: mk(ast.Assign, targets=lst(name_(py_member(V.pkey(p)))),
                                                             value=const(V.attr_of(V.pval(p), G.GraphQLEnumValue, "value"))))


class ParseEnumDefinition(Contract):
    props = ("C04", "C18", "C06", "C01", "C05", "C19")
    target = "ariadne_codegen.client_generators.enums:EnumsGenerator._parse_enum_definition"
    use_at_calls = False
    frame_args = False

    def setup(self, E):
        d = E.sym("definition", Cls(G.GraphQLEnumType, name=GQ.NAME, values=ENUM_VALUES))
        return [self_obj(EN.EnumsGenerator, dict(plugin_manager=None)), d], {}

    @property
    def loops(self):
        def inv(rest, xs, st, I, env):
            cur = V.vl(st["fields"]) if "fields" in st else V.VNil
            return append_map_inv(cur, rest, xs, member_assign)
        return {"EnumsGenerator._parse_enum_definition": inv}

    def ensures(self, A, res):
        vals = V.vd(V.attr_of(A.definition, G.GraphQLEnumType, "values"))
        body = V.attr_of(res, ast.ClassDef, "body")
        return {"class-is-a-str-enum-named-like-the-type": z3.And(V.attr_of(res, ast.ClassDef, "name") == GQ.name_of(A.definition),
                                                                V.attr_of(res, ast.ClassDef, "bases") == lst(name_("str"), name_("Enum"))),
                "one-member-per-value/wire-value-kept/keywords-escaped": V.vl(body) == member_assign(vals)}


CONTRACTS = [InitGenerate(), ParseEnumDefinition()]
