"""Replay vehicle for C10: run the real generator on a fragment/enum/union-rich input in fresh interpreters with
different PYTHONHASHSEED values (and once more over the existing directory) and compare every generated file."""
import hashlib
import json
import os
import shutil
import subprocess
import sys
import tempfile

SCHEMA = """
interface Node { id: ID! }
enum Color { RED GREEN BLUE }
enum Size { S M L }
enum COLOR { CYAN }
enum SIZE { XL }
enum size { xs }
scalar Money
type User implements Node { id: ID! name: String color: Color size: Size friends: [User!] balanceAmount: Money creditLimit: Money }
type Bot implements Node { id: ID! model: String size: Size upper: COLOR big: SIZE small: size }
union Actor = User | Bot
input Filter { color: Color sizes: [Size!] nested: Filter minBalance: Money maxBalance: Money }
type Query { node(id: ID!): Node actors(f: Filter): [Actor!] me: User }
"""
QUERIES = """
fragment FA on User { id ...FB ...FC ...FD ...FE ...FF }
fragment FB on User { name }
fragment FC on User { color }
fragment FD on User { size }
fragment FE on User { friends { ...FB ...FC } }
fragment FF on User { id }
fragment OnNode on Node { id ... on User { ...FB } ... on Bot { model } }
query GetMe { me { ...FA } }
query GetNode($id: ID!) { node(id: $id) { __typename ...OnNode } }
query GetActors($f: Filter) { actors(f: $f) { __typename ... on User { ...FC ...FD } ... on Bot { size } } }
query GetBalances($f: Filter) { actors(f: $f) { ... on User { balanceAmount creditLimit } } me { balanceAmount } }
query AnOperationWithAVeryLongNameThatGoesWellBeyondSixtyFourCharactersInItsSnakeCaseForm { me { id } }
query SpreadsInsideInlineFragment { me { id ... on User { ...FF ...FD ...FB ...FC } } node(id: "1") { ... on User { ...FD ...FC ...FB ...FF } } }
fragment Unpacked on Node { ... on User { ...FC ...FB ...FF ...FD } }
query SpreadsInsideUnpackedFragment { node(id: "2") { ...Unpacked } }
"""
PROG = r"""
import contextlib, io, json, os, sys
from ariadne_codegen.main import client
root = sys.argv[1]
os.chdir(root)      # relative paths: the `stable` comments name the source files, which must not depend on the scratch directory
cfg = dict(schema_path="schema.graphql", queries_path="queries.graphql",
           target_package_name="pkg", target_package_path=".", include_comments=(sys.argv[3] if len(sys.argv) > 3 else "stable"),
           scalars={"Money": {"type": "client.scalars.Money", "parse": "client.scalars.parse_money", "serialize": "client.scalars.ser_money"}},
           plugins=json.loads(sys.argv[2]))
with contextlib.redirect_stdout(io.StringIO()):
    client({"tool": {"ariadne-codegen": cfg}})
"""


def _digest(d):
    out = {}
    for fn in sorted(os.listdir(d)):
        p = os.path.join(d, fn)
        if os.path.isfile(p):
            out[fn] = hashlib.sha256(open(p, "rb").read()).hexdigest()[:16]
    return out


BUNDLED = ["ariadne_codegen.contrib.shorter_results.ShorterResultsPlugin",
           "ariadne_codegen.contrib.extract_operations.ExtractOperationsPlugin",
           "ariadne_codegen.contrib.client_forward_refs.ClientForwardRefsPlugin"]
PROG_TWICE = r"""
import contextlib, io, json, os, sys
from ariadne_codegen.main import client
root = sys.argv[1]
os.chdir(root)      # relative source paths (the `stable` comments name them)
# ONE configuration (the same objects: scalars dict, plugin list, files_to_include list) used for both generations
files = [os.path.join(root, "extra_helpers.py")]
scalars = {"Money": {"type": "client.scalars.Money", "parse": "client.scalars.parse_money", "serialize": "client.scalars.ser_money"}}
plugins = json.loads(sys.argv[2])
cfg = dict(schema_path="schema.graphql", queries_path="queries.graphql",
           target_package_name="pkg", include_comments=(sys.argv[3] if len(sys.argv) > 3 else "stable"), scalars=scalars, plugins=plugins, files_to_include=files)
config = {"tool": {"ariadne-codegen": cfg}}
for sub in ("first", "second", "edited"):
    if sub == "edited":
        # the operations file is edited in place: the next generation in this interpreter sees the new text
        # (one operation is removed, one is added: nothing of the earlier generations may survive in this one)
        text = open(os.path.join(root, "queries.graphql")).read()
        text = "\n".join(l for l in text.splitlines() if not l.startswith("query GetBalances")) + "\nquery AddedLater { me { id name } }\n"
        with open(os.path.join(root, "queries.graphql"), "w") as f:
            f.write(text)
    cfg["target_package_path"] = os.path.join(root, sub)
    os.makedirs(os.path.join(root, sub), exist_ok=True)
    with contextlib.redirect_stdout(io.StringIO()):
        client(config)
"""


def replay_generation(seeds=(0, 1, 2, 3, 1000)):
    """the registered replay: hash seeds and regeneration without plugins and with the bundled plugins, and two
    generations of the same inputs inside ONE interpreter (`generating twice ... yields byte-identical files`)"""
    rep = dict(inputs={"scenarios": ["hash-seeds", "hash-seeds+bundled-plugins", "twice-in-one-process", "twice-in-one-process+bundled-plugins"]},
               failed=[], undetermined=[], pre_ok=True, outcome={}, error=None)
    for name, plugins, sd in (("hash-seeds", (), seeds), ("hash-seeds+bundled-plugins", BUNDLED, seeds[:3])):
        r = replay_generation_hash_seeds(sd, plugins)
        rep["outcome"][name] = r["outcome"]
        rep["pre_ok"] = rep["pre_ok"] and r["pre_ok"]
        rep["failed"] += [f"{name}: {f}" for f in r["failed"]]
    for name, plugins in (("twice-in-one-process", ()), ("twice-in-one-process+bundled-plugins", BUNDLED)):
        base = tempfile.mkdtemp(prefix="pyvc_det2_")
        try:
            open(os.path.join(base, "schema.graphql"), "w").write(SCHEMA)
            open(os.path.join(base, "queries.graphql"), "w").write(QUERIES)
            open(os.path.join(base, "extra_helpers.py"), "w").write("HELPER = 1\n")
            r = subprocess.run([sys.executable, "-c", PROG_TWICE, base, json.dumps(list(plugins)), "none" if plugins else "stable"], capture_output=True, text=True, timeout=300)
            if r.returncode != 0:
                rep["outcome"][name] = r.stderr[-300:]
                rep["failed"].append(f"{name}: the second generation in the same interpreter fails")
                continue
            a, b = _digest(os.path.join(base, "first", "pkg")), _digest(os.path.join(base, "second", "pkg"))
            differing = sorted(fn for fn in set(a) | set(b) if a.get(fn) != b.get(fn))
            rep["outcome"][name] = dict(files=len(a), differing_files=differing)
            if differing:
                rep["failed"].append(f"{name}: generated files differ between the first and the second generation")
            # after the in-place edit the same interpreter must produce what a fresh interpreter produces from the edited inputs
            fresh = os.path.join(base, "fresh")
            os.makedirs(fresh)
            shutil.copy(os.path.join(base, "schema.graphql"), fresh)
            shutil.copy(os.path.join(base, "queries.graphql"), fresh)
            r2 = subprocess.run([sys.executable, "-c", PROG, fresh, json.dumps(list(plugins)), "none" if plugins else "stable"], capture_output=True, text=True, timeout=300)
            if r2.returncode != 0:
                rep["outcome"][name + ":fresh"] = r2.stderr[-300:]
                rep["pre_ok"] = False
                continue
            c, d = _digest(os.path.join(base, "edited", "pkg")), _digest(os.path.join(fresh, "pkg"))
            d["extra_helpers.py"] = c.get("extra_helpers.py")       # the fresh run has no files_to_include
            stale = sorted(fn for fn in set(c) | set(d) if c.get(fn) != d.get(fn))
            rep["outcome"][name + ":after-edit"] = dict(files=len(c), differing_files=stale)
            if stale:
                rep["failed"].append(f"{name}: after editing the operations file in place, the same interpreter generates something else than a fresh one")
        finally:
            shutil.rmtree(base, ignore_errors=True)
    return rep


def replay_generation_hash_seeds(seeds=(0, 1, 2, 3, 1000), plugins=()):
    rep = dict(inputs={"schema": "fragment/enum/union rich", "seeds": list(seeds), "plugins": list(plugins)}, failed=[], undetermined=[],
               pre_ok=True, outcome={}, error=None)
    base = tempfile.mkdtemp(prefix="pyvc_det_")
    try:
        digests = {}
        for seed in seeds:
            root = os.path.join(base, f"s{seed}")
            os.makedirs(root)
            open(os.path.join(root, "schema.graphql"), "w").write(SCHEMA)
            open(os.path.join(root, "queries.graphql"), "w").write(QUERIES)
            env = dict(os.environ, PYTHONHASHSEED=str(seed))
            r = subprocess.run([sys.executable, "-c", PROG, root, json.dumps(list(plugins)), "stable" if plugins else "none"], capture_output=True, text=True, env=env, timeout=300)
            if r.returncode != 0:
                rep["outcome"][f"seed{seed}"] = r.stderr[-300:]
                rep["pre_ok"] = False
                return rep
            digests[seed] = _digest(os.path.join(root, "pkg"))
            if seed == seeds[0]:        # regenerate over the existing directory
                r = subprocess.run([sys.executable, "-c", PROG, root, json.dumps(list(plugins)), "stable" if plugins else "none"], capture_output=True, text=True, env=env, timeout=300)
                if r.returncode != 0:
                    rep["outcome"]["regeneration"] = r.stderr[-300:]
                    rep["failed"].append("regeneration over the existing directory fails")
                    return rep
                digests["again"] = _digest(os.path.join(root, "pkg"))
        first = digests[seeds[0]]
        differing = sorted({fn for d in digests.values() for fn in set(d) | set(first) if d.get(fn) != first.get(fn)})
        rep["outcome"] = dict(files=len(first), differing_files=differing)
        if differing:
            rep["failed"].append("generated files differ between hash seeds / regeneration")
    finally:
        shutil.rmtree(base, ignore_errors=True)
    return rep


def bounded_generation(tier, seed):
    """the replay scenarios as a standing bounded stand-in (native; never counted as proved)"""
    seeds = (0, 1, 2, 3, 1000) if tier == "quick" else (0, 1, 2, 3, 4, 5, 6, 7, 1000, 4242)
    r = replay_generation(seeds)
    fails = [dict(inputs=dict(scenario=f.split(":")[0]), failed=[f], outcome=r["outcome"].get(f.split(":")[0])) for f in r["failed"]]
    if not r["pre_ok"] and not fails:
        fails.append(dict(inputs=dict(scenario="generation"), failed=["generation of the determinism corpus fails"], outcome=r["outcome"]))
    return dict(function="ariadne_codegen.main:client", name="bounded.determinism", kind="bounded stand-in (end-to-end, native)",
                domain=f"one fragment/enum/union/custom-scalar rich project: {len(seeds)} hash seeds + regeneration over the existing directory, without and "
                       "with the bundled plugins; two generations inside one interpreter",
                cases=4, failed=len(fails), failures=fails)
