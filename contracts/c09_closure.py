"""C09 - `pruning unused inputs never removes something needed ... contains no pruned-kind type outside that closure`:
the depth-first walk that computes which input types are retained.

InputTypesGenerator._get_dependencies_of_type(type_name) runs the recursive closure dfs(node) over self._dependencies (input
type -> the input types its fields mention) with a `visited` set and a `result` list.  Contract of ONE call dfs(node) on an
arbitrary state (V = visited, R = result), for an arbitrary pair of names X, W (the classical invariants of reachability, each
proved with the contract itself as induction hypothesis at the recursive calls and a loop invariant over the neighbours):

  monotone        everything visited before is visited after
  visits          node is visited after the call
  closed          every node the call newly visits has all its dependencies visited:   X in V' \\ V  and  W in deps[X]   =>  W in V'
  only-reachable  every node the call newly visits is reachable from node:              X in V' \\ V   =>  reach(node, X)
  result          the result list gains exactly the newly visited nodes:                W in R'  <=>  W in R  or  W in V' \\ V

`reach` is declared; the three instances of its defining rules the proof uses (reflexivity at node, one step from node to a
neighbour followed by a path) are recorded lemma instances.  Partial correctness: the walk terminates because `visited` grows
inside a finite set of type names - not proved here.  From these clauses, for the top-level call on empty sets: the result is
exactly the set of input types reachable from type_name (closed: nothing needed is missing; only-reachable: nothing else is
kept).  _get_dependencies_of_type itself (empty sets, result returned) is under contract below."""
import z3
from pyvc import val as V
from pyvc import models
from pyvc.val import SV, Obj, MList, MSet
from pyvc.contract import Contract
from pyvc.spec import *   # noqa
from . import lib_graphql as GQ
from . import c09_pruning as P
from ariadne_codegen.client_generators import input_types as IT

MOD = "ariadne_codegen.client_generators.input_types:InputTypesGenerator."
X = z3.Const("any_type_x", V.Val)
W = z3.Const("any_type_w", V.Val)
REACH = z3.Function("reachable_through_dependencies", V.Val, V.Val, V.Val, z3.BoolSort())      # (dependencies, from, to)


def neighbours(deps, n):
    return V.vl(V.dget(V.vd(deps), n, V.VList(V.VNil)))


def mem(l, w):
    return V.vcontains(l, w)


def clauses(deps, node, Vb, Va, Rb, Ra, also=()):
    """the contract of dfs(node) taking (Vb, Rb) to (Va, Ra), for the arbitrary names X, W (monotonicity also for the names in `also`)"""
    new_x = z3.And(mem(Va, X), z3.Not(mem(Vb, X)))
    return {
        "everything-visited-before-stays-visited": z3.And(*[z3.Implies(mem(Vb, c), mem(Va, c)) for c in (X, W) + tuple(also)]),
        "the-node-is-visited": mem(Va, node),
        "every-newly-visited-node-has-all-its-dependencies-visited": z3.Implies(z3.And(new_x, mem(neighbours(deps, X), W)), mem(Va, W)),
        "every-newly-visited-node-is-reachable-from-the-node": z3.Implies(new_x, REACH(deps, node, X)),
        "result-gains-exactly-the-newly-visited-nodes": z3.And(*[mem(Ra, c) == z3.Or(mem(Rb, c), z3.And(mem(Va, c), z3.Not(mem(Vb, c)))) for c in (X, W) + tuple(also)]),
    }


def _state(env):
    return env.lookup("visited").elems, V.vl(V.lower(env.lookup("result")))


def _inv(rest, xs, st, I, env):
    node = V.lower(env.lookup("node"))
    deps = V.lower(env.lookup("self").attrs["_dependencies"])
    Vc, Rc = _state(env)
    V0, R0 = I.ctx.__dict__["dfs_V0"], I.ctx.__dict__["dfs_R0"]
    V1, R1 = V.vl_concat(V0, V.VCons(node, V.VNil)), V.vl_concat(R0, V.VCons(node, V.VNil))
    new_x = z3.And(mem(Vc, X), z3.Not(mem(V1, X)))
    rs = z3.simplify(rest)
    if z3.is_app(rs) and rs.decl().name() == "VCons":
        x = rs.arg(0)
        # one step from the node to this neighbour, then a path: an instance of the defining rule of reachability
        V.LEMMAS.append(z3.Implies(z3.And(mem(xs, x), REACH(deps, x, X)), REACH(deps, node, X)))
    return z3.And(*[z3.Implies(mem(V1, c), mem(Vc, c)) for c in (X, W, node)],
                  z3.Implies(mem(xs, W), z3.Or(mem(Vc, W), mem(rest, W))),
                  z3.Implies(z3.And(new_x, mem(neighbours(deps, X), W)), mem(Vc, W)),
                  z3.Implies(new_x, REACH(deps, node, X)),
                  *[mem(Rc, c) == z3.Or(mem(R1, c), z3.And(mem(Vc, c), z3.Not(mem(V1, c)))) for c in (X, W)])


_inv.extra_mutated = [("visited",), ("result",)]


class Dfs(Contract):
    props = ("C09", "C06")
    target = MOD + "_get_dependencies_of_type.<locals>.dfs"
    partial_correctness = True
    frame_args = False
    assume_proved = True
    trusted = ["termination of the walk (visited grows inside the finite set of type names) is not proved",
               "reachability is a declared relation; used instances of its defining rules: reach(n, n); n' in deps[n] and reach(n', x) => reach(n, x)",
               "a set is an enumeration of its members; set-valued state is compared by membership of arbitrary names"]
    loops = {"InputTypesGenerator._get_dependencies_of_type.<locals>.dfs": _inv}

    def closure_env(self, E):
        s = P.gen_self(E)
        vis = E.mset("visited0", GQ.NAME)
        res = E.mlist("result0", GQ.NAME)
        E.ctx.dfs_V0, E.ctx.dfs_R0 = vis.elems, V.vl(res.t)
        E.ctx.inputs["any_type_x"], E.ctx.inputs["any_type_w"] = X, W
        self._deps = s.attrs["_dependencies"]
        self._V0, self._R0 = vis.elems, V.vl(res.t)
        return dict(self=s, visited=vis, result=res)

    def setup(self, E):
        node = E.sym("node", GQ.NAME)
        deps = V.lower(self._deps)
        V.LEMMAS.append(REACH(deps, node.t, node.t))          # reach(node, node)
        for n in (node.t, X):          # lookup lemma of the dependencies' shape: an entry is a list of names
            V.LEMMAS.append(z3.Implies(V.d_has(V.vd(deps), n), V.is_VList(V.d_get(V.vd(deps), n))))
        return [node], {}

    def apply_at_call(self, I, fn, args, kwargs):
        """recursive call (induction hypothesis): the state after it is arbitrary but satisfies the contract's clauses"""
        if getattr(I.p, "in_comprehension", False):
            from pyvc.interp import Unsupported
            raise Unsupported("a call that changes the bookkeeping state inside a comprehension (the comprehension rule covers pure element expressions)")
        names = self.call_names(fn, args, kwargs, I)
        node = V.lower(names["node"])
        env = fn.env
        vis, res = env.lookup("visited"), env.lookup("result")
        if isinstance(vis, set) and isinstance(res, list):
            # called from the enclosing method: its two local containers (still concrete) become symbolic
            e = env
            while e is not None and "visited" not in e.vars:
                e = e.parent
            vis, res = MSet(V.vlist([V.lower(x) for x in sorted(vis, key=repr)])), MList(V.lower(res))
            e.vars["visited"], e.vars["result"] = vis, res
        if not isinstance(vis, MSet) or not isinstance(res, MList):
            from pyvc.interp import Unsupported
            raise Unsupported("visited / result are not a set and a list any more")
        deps = V.lower(env.lookup("self").attrs["_dependencies"])
        Vb, Rb = vis.elems, V.vl(res.t)
        Va, Ra = I.p.fresh("visited_after_dfs", V.VL), I.p.fresh("result_after_dfs", V.VL)
        outer = I.ctx.entry_args.get("node") if I.ctx.current_key == tuple(self.target.split(":")) else None
        for f in clauses(deps, node, Vb, Va, Rb, Ra, also=[node] + ([outer] if outer is not None else [])).values():
            I.p.assume(f)
        vis.elems, res.t = Va, V.VList(Ra)
        models._used(f"contract:{self.target}")
        return None

    def ensures(self, A, res):
        env = A["__path__"].closure_env
        Va, Ra = _state(env)
        deps = V.lower(env.lookup("self").attrs["_dependencies"])
        out = clauses(deps, A.node, self._V0, Va, self._R0, Ra)
        out["returns-nothing"] = res == V.VNone
        return out

    def replay_custom(self, inputs):
        return replay_closure()

    def samples(self, tier):
        return [dict(case="graphs")]


def replay_closure():
    """native cross-check of the walk on small dependency graphs (cycles, diamonds, self-loops) through the enclosing method"""
    import collections
    import itertools
    g = IT.InputTypesGenerator.__new__(IT.InputTypesGenerator)
    rep = dict(inputs={"graphs": "all graphs on 3 nodes + two hand-written ones"}, failed=[], undetermined=[], pre_ok=True, outcome={}, error=None)
    names = ["A", "B", "C"]
    pairs = [(a, b) for a in names for b in names]
    graphs = [[pairs[k] for k in range(9) if mask >> k & 1] for mask in range(0, 512, 7)]
    graphs += [[("A", "B"), ("B", "C"), ("C", "A"), ("A", "D"), ("D", "D")], [("A", "B"), ("A", "C"), ("B", "D"), ("C", "D")]]
    for edges in graphs:
        deps = collections.defaultdict(list)
        for a, b in edges:
            deps[a].append(b)
        g._dependencies = deps
        for start in sorted({a for a, _ in edges} | {"A"}):
            reach, todo = set(), [start]
            while todo:
                n = todo.pop()
                if n not in reach:
                    reach.add(n)
                    todo += deps.get(n, [])
            try:
                got = g._get_dependencies_of_type(start)
            except Exception as e:   # noqa
                rep["failed"].append("no exception may escape")
                rep["outcome"][str(edges)[:80]] = repr(e)
                continue
            if set(got) != reach or len(got) != len(set(got)) or got[:1] != [start]:
                rep["failed"].append("post.every-newly-visited-node-has-all-its-dependencies-visited" if not reach <= set(got)
                                     else "post.every-newly-visited-node-is-reachable-from-the-node")
                rep["outcome"][f"{edges}@{start}"[:120]] = got
    rep["failed"] = sorted(set(rep["failed"]))
    return rep


class GetDependenciesOfType(Contract):
    """_get_dependencies_of_type(type_name): the walk from empty sets - the returned list holds, for arbitrary names X and W:
    the type itself; with every type all its dependencies (nothing needed is missing); only types reachable from it (nothing else)"""
    props = ("C09", "C06")
    target = MOD + "_get_dependencies_of_type"
    frame_args = False
    assume_proved = True
    use_at_calls = False
    trusted = ["the closure dfs is used through its contract (above)"]

    def setup(self, E):
        s = P.gen_self(E)
        E.ctx.inputs["any_type_x"], E.ctx.inputs["any_type_w"] = X, W
        self._deps = s.attrs["_dependencies"]
        t = E.sym("type_name", GQ.NAME)
        V.LEMMAS.append(REACH(V.lower(self._deps), t.t, t.t))
        return [s, t], {}

    def ensures(self, A, res):
        deps = V.lower(self._deps)
        r = V.vl(res)
        return {"the-type-itself-is-retained": mem(r, A.type_name),
                "with-every-retained-type-all-its-dependencies-are-retained": z3.Implies(z3.And(mem(r, X), mem(neighbours(deps, X), W)), mem(r, W)),
                "only-types-reachable-from-it-are-retained": z3.Implies(mem(r, X), REACH(deps, A.type_name, X))}

    def replay_custom(self, inputs):
        return replay_closure()

    def samples(self, tier):
        return [dict(case="graphs")]


CONTRACTS = [Dfs(), GetDependenciesOfType()]
