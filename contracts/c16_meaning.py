"""C16 - meaning of a generated constructor-call AST (native, used in replays only).

The C16 contracts pin the *AST* a generator returns.  The property speaks about the object that AST evaluates to.  A
counterexample (or sample) on which the returned AST differs from the specified one but evaluates - under the real
graphql-core constructors - to an object equal to the source is therefore not a violation of the property: the replay
reports it as `representation_only` and the check answers UNDECIDED (the contract must be adapted), never VIOLATION."""
import ast
import typing
import graphql as G

_NS = {n: getattr(G, n) for n in ("DirectiveLocation", "GraphQLArgument", "GraphQLDirective", "GraphQLEnumType", "GraphQLEnumValue", "GraphQLField",
                                  "GraphQLInputField", "GraphQLInputObjectType", "GraphQLInterfaceType", "GraphQLList", "GraphQLNamedType", "GraphQLNonNull",
                                  "GraphQLObjectType", "GraphQLScalarType", "GraphQLSchema", "GraphQLUnionType", "GraphQLID", "GraphQLInt", "GraphQLFloat",
                                  "GraphQLString", "GraphQLBoolean", "Undefined")}
_NS.update(cast=typing.cast, List=typing.List)


def referenced(obj, acc=None):
    """named types reachable from a source object, by name"""
    acc = {} if acc is None else acc

    def named(t):
        while isinstance(t, (G.GraphQLList, G.GraphQLNonNull)):
            t = t.of_type
        if t is not None and t.name not in acc:
            acc[t.name] = t
    if isinstance(obj, (G.GraphQLList, G.GraphQLNonNull, G.GraphQLNamedType)):
        named(obj)
    if isinstance(obj, (G.GraphQLArgument, G.GraphQLInputField, G.GraphQLField)):
        named(obj.type)
    if isinstance(obj, (G.GraphQLField, G.GraphQLDirective)):
        for a in obj.args.values():
            named(a.type)
    if isinstance(obj, (G.GraphQLObjectType, G.GraphQLInterfaceType)):
        for i in obj.interfaces:
            named(i)
    if isinstance(obj, (G.GraphQLObjectType, G.GraphQLInterfaceType, G.GraphQLInputObjectType)):
        for f in obj.fields.values():
            referenced(f, acc)
    if isinstance(obj, G.GraphQLUnionType):
        for t in obj.types:
            named(t)
    if isinstance(obj, G.GraphQLSchema):
        for t in (obj.query_type, obj.mutation_type, obj.subscription_type):
            named(t)
        for d in obj.directives:
            referenced(d, acc)
    if isinstance(obj, dict):
        for v in obj.values():
            referenced(v, acc)
    return acc


def evaluate(node, type_map_name, type_map):
    # the repository prints its ASTs with ast.unparse (nodes carry no ctx / positions), so does this evaluation
    v = eval(ast.unparse(node), dict(_NS, **{type_map_name: type_map}))   # noqa: S307 - AST produced by the code under proof
    return v() if callable(v) and not isinstance(v, type) and isinstance(node, ast.Lambda) else v


def _const(v):
    return ("undefined",) if v is G.Undefined else (type(v).__name__, repr(v))


def describe(o, top=True):
    """structural description; references to named types by identity (the type map maps names to the source objects)"""
    if isinstance(o, G.GraphQLList):
        return ("list", describe(o.of_type, False))
    if isinstance(o, G.GraphQLNonNull):
        return ("nonnull", describe(o.of_type, False))
    if isinstance(o, G.GraphQLNamedType) and not top:
        return ("ref", id(o))
    if isinstance(o, (G.GraphQLArgument, G.GraphQLInputField)):
        return (type(o).__name__, describe(o.type, False), _const(o.default_value), o.description, o.deprecation_reason)
    if isinstance(o, G.GraphQLField):
        return ("field", describe(o.type, False), describe(o.args), o.description, o.deprecation_reason)
    if isinstance(o, G.GraphQLEnumValue):
        return ("enum value", _const(o.value), o.description, o.deprecation_reason)
    if isinstance(o, G.GraphQLScalarType):
        return ("scalar", o.name, o.description, o.specified_by_url)
    if isinstance(o, G.GraphQLEnumType):
        return ("enum", o.name, o.description, describe(o.values))
    if isinstance(o, G.GraphQLInputObjectType):
        return ("input", o.name, o.description, describe(o.fields))
    if isinstance(o, (G.GraphQLObjectType, G.GraphQLInterfaceType)):
        return (type(o).__name__, o.name, o.description, [id(i) for i in o.interfaces], describe(o.fields))
    if isinstance(o, G.GraphQLUnionType):
        return ("union", o.name, o.description, [id(t) for t in o.types])
    if isinstance(o, G.GraphQLDirective):
        return ("directive", o.name, o.description, o.is_repeatable, tuple(o.locations), describe(o.args))
    if isinstance(o, G.GraphQLSchema):
        return ("schema", id(o.query_type), id(o.mutation_type), id(o.subscription_type),
                [describe(d) for d in o.directives], o.description)
    if isinstance(o, dict):
        return [(k, describe(v, False) if isinstance(v, G.GraphQLNamedType) else describe(v)) for k, v in o.items()]
    if isinstance(o, (list, tuple)):
        return [describe(v, False) if isinstance(v, G.GraphQLNamedType) else describe(v) for v in o]
    return ("value", repr(o))


class SameMeaning:
    """mixin for C16 generator contracts: first argument = source object, `type_map_name` (if any) names the type map"""
    meaning_of = None     # optional: inputs -> expected object (default: the first argument)
    reference = False     # the result denotes the (referenced) source object itself

    def same_meaning(self, inputs, out):
        if not isinstance(out, ast.AST):
            return False
        src = inputs[self.arg_names[0]]
        tmn = inputs.get("type_map_name", "type_map")
        if not isinstance(tmn, str) or not tmn.isidentifier():
            return False
        tm = referenced(src)
        if self.meaning_of is not None:
            src = self.meaning_of(inputs, tm)
        try:
            got = evaluate(out, tmn, tm)
        except Exception:     # noqa - an AST that cannot be evaluated has no meaning to compare
            return False
        if isinstance(src, G.GraphQLSchema) and isinstance(got, G.GraphQLSchema):
            pass
        top = not self.reference
        a = describe(got, top) if not isinstance(got, (dict, list, tuple)) else describe(got)
        b = describe(src, top) if not isinstance(src, (dict, list, tuple)) else describe(src)
        return a == b
