"""Bounded end-to-end scenarios for C08 on the real generator: fragments as base classes, definition order, @mixin
placements (operation field, fragment definition, field of a fragment used as base class, field reached through an
inlined fragment), fragments shared by several operations."""
import os
import sys
import textwrap
from .e2e import generate_client, SCRATCH, write_helper

SCHEMA = """
interface Node { id: ID! }
type Profile { bio: String }
type User implements Node { id: ID! name: String profile: Profile friend: User }
type Bot implements Node { id: ID! model: String }
union Actor = User | Bot
type Query { me: User node: Node actor: Actor }
"""


def _mixins_module():
    write_helper("pyvc_mixins", textwrap.dedent("""
        class OpFieldMixin: pass
        class SecondMixin: pass
        class FragDefMixin: pass
        class FragFieldMixin: pass
        class InlinedMixin: pass
    """))
    if SCRATCH not in sys.path:
        sys.path.insert(0, SCRATCH)


SCENARIOS = {
    "chain-order": ("""
        query GetMe { me { ...Alpha } }
        fragment Alpha on User { id ...Beta }
        fragment Beta on User { name ...Gamma }
        fragment Gamma on User { profile { bio } }
    """, {"get_me": {"GetMeMe": ["Alpha"]}, "fragments": {"Alpha": ["Beta"], "Beta": ["Gamma"]}}),
    "diamond-shared": ("""
        fragment Top on User { ...Left ...Right }
        fragment Left on User { id ...Base }
        fragment Right on User { name ...Base }
        fragment Base on User { id }
        query A { me { ...Top } }
        query B { me { ...Left } }
    """, {"a": {"AMe": ["Top"]}, "b": {"BMe": ["Left"]}, "fragments": {"Top": ["Left", "Right"], "Left": ["Base"], "Right": ["Base"]}}),
    "mixin-on-operation-field": ("""
        query GetMe { me @mixin(from: "pyvc_mixins", import: "OpFieldMixin") { id } }
    """, {"get_me": {"GetMeMe": ["OpFieldMixin"]}}),
    "mixin-on-fragment-definition": ("""
        query GetMe { me { ...WithMixin } }
        fragment WithMixin on User @mixin(from: "pyvc_mixins", import: "FragDefMixin") { id }
    """, {"fragments": {"WithMixin": ["FragDefMixin"]}}),
    "mixin-on-field-of-base-fragment": ("""
        query GetMe { me { ...F } }
        fragment F on User { friend @mixin(from: "pyvc_mixins", import: "FragFieldMixin") { id } }
    """, {"fragments": {"FFriend": ["FragFieldMixin"]}}),
    "mixin-on-field-reached-through-inlined-fragment": ("""
        query GetNode { node { ...OnNode } }
        fragment OnNode on Node { id ... on User { profile @mixin(from: "pyvc_mixins", import: "InlinedMixin") { bio } } }
    """, {"get_node": {"GetNodeNodeUserProfile": ["InlinedMixin"]}}),
    "fragment-spreading-a-fragment-that-has-inline-fragments-is-still-a-class": ("""
        fragment UserDetails on User { name ... on Node { id } }
        fragment UserBase on User { friend { id } ...UserDetails }
        query GetMe { me { ...UserBase } }
    """, {"get_me": {"GetMeMe": ["UserBase"]}, "fragments": {"UserBase": ["BaseModel"]}}),
    "nested-field-class-based-on-a-fragment-that-sorts-later": ("""
        fragment AuthorInfo on User { friend { ...PersonInfo } profile { ...ZProfile } }
        fragment PersonInfo on User { name }
        fragment ZProfile on Profile { bio }
        query GetMe { me { ...AuthorInfo } }
    """, {"get_me": {"GetMeMe": ["AuthorInfo"]}, "fragments": {"AuthorInfoFriend": ["PersonInfo"], "AuthorInfoProfile": ["ZProfile"]}}),
    "mixin-on-interface-field-with-inline-fragments": ("""
        query GetNode { node @mixin(from: "pyvc_mixins", import: "OpFieldMixin") { id ... on User { name } ... on Bot { model } } }
    """, {"get_node": {"GetNodeNodeNode": ["OpFieldMixin"], "GetNodeNodeUser": ["OpFieldMixin"], "GetNodeNodeBot": ["OpFieldMixin"]}}),
    "mixin-on-union-field-with-fragments-on-members": ("""
        fragment UB on User { name }
        fragment BB on Bot { model }
        query GetActor { actor @mixin(from: "pyvc_mixins", import: "OpFieldMixin") { __typename ... on User { ...UB } ... on Bot { ...BB } } }
    """, {"get_actor": {"GetActorActorUser": ["OpFieldMixin", "UB"], "GetActorActorBot": ["OpFieldMixin", "BB"]}}),
    "two-mixins-from-one-module-on-one-field-and-on-fragments": ("""
        fragment WithTwo on User @mixin(from: "pyvc_mixins", import: "FragDefMixin") @mixin(from: "pyvc_mixins", import: "SecondMixin") { id }
        fragment Other on User @mixin(from: "pyvc_mixins", import: "OpFieldMixin") { name }
        query GetMe { me @mixin(from: "pyvc_mixins", import: "OpFieldMixin") @mixin(from: "pyvc_mixins", import: "SecondMixin") { id ...WithTwo ...Other } }
    """, {"get_me": {"GetMeMe": ["OpFieldMixin", "SecondMixin", "WithTwo", "Other"]}, "fragments": {"WithTwo": ["FragDefMixin", "SecondMixin"], "Other": ["OpFieldMixin"]}}),
    "inline-fragment-two-named-fragments-below-the-interface-field": ("""
        query GetNode { node { ...Outer } }
        fragment Outer on Node { id ... on Bot { model } ...Inner }
        fragment Inner on Node { id ... on User { ...UserBits } }
        fragment UserBits on User { name }
    """, {"get_node": {"GetNodeNodeUser": ["UserBits"], "GetNodeNodeBot": ["BaseModel"]}, "fragments": {"UserBits": ["BaseModel"]}}),
    "subtype-fragment-spread-next-to-an-inline-fragment-at-an-interface-field": ("""
        query GetNode { node { id ...UserBits ... on Bot { model } } }
        fragment UserBits on User { name }
    """, {"get_node": {"GetNodeNodeUser": ["UserBits"], "GetNodeNodeBot": ["BaseModel"]}, "fragments": {"UserBits": ["BaseModel"]}}),
    "fragment-on-interface-spread-inside-an-inline-fragment-on-that-interface": ("""
        fragment NodeFields on Node { id }
        query GetMe { me { ... on Node { ...NodeFields } name } }
        query GetNode { node { ...NodeFields } }
    """, {"get_node": {"GetNodeNode": ["NodeFields"]}, "fragments": {"NodeFields": ["BaseModel"]}}),
    "plain-fragment-spread-inside-an-unpacked-fragment-keeps-its-class": ("""
        fragment UserBase on User { name }
        fragment UserDetails on User { ...UserBase ... on Node { id } }
        query GetUser { me { ...UserDetails } }
        query GetMeToo { me { ...UserBase } }
    """, {"get_me_too": {"GetMeTooMe": ["UserBase"]}, "fragments": {"UserBase": ["BaseModel"]}}),
    "fragment-used-below-a-nested-field-of-a-sibling-fragment-is-still-a-base": ("""
        fragment UserName on User { name }
        fragment UserWithFriend on User { id friend { ...UserName } }
        fragment Child on User { id ...UserName }
        query Q { me { ...UserWithFriend ...UserName } }
        query Inherit { me { ...Child ...UserName } }
    """, {"q": {"QMe": ["UserWithFriend", "UserName"]}, "inherit": {"InheritMe": ["Child", "UserName"]}}),
    # fixed 1b41dca (was finding F11): base class in one operation, unpacked (spread on an implementing object) in another
    "fragment-base-in-one-operation-unpacked-in-another": ("""
        fragment OnNode on Node { id }
        query AsBase { node { ...OnNode } }
        query Unpacked { me { ...OnNode name } }
    """, {"as_base": {"AsBaseNode": ["OnNode"]}, "fragments": {"OnNode": ["BaseModel"]}}),
    # ... in every order of the operations in the file (the bookkeeping must not depend on which use is seen first)
    "fragment-unpacked-in-an-earlier-operation-base-in-a-later-one": ("""
        fragment OnNode on Node { id }
        query Unpacked { me { ...OnNode name } }
        query AsBase { node { ...OnNode } }
        query UnpackedAgain { me { ...OnNode } }
    """, {"as_base": {"AsBaseNode": ["OnNode"]}, "fragments": {"OnNode": ["BaseModel"]}}),
    "fragment-inherited-only-by-a-fragment-and-unpacked-in-an-operation": ("""
        fragment B on Node { id }
        fragment A on Node { ...B }
        query Op1 { me { ...B name } }
        query Op2 { node { ...A } }
    """, {"op_2": {"Op2Node": ["A"]}, "fragments": {"A": ["B"]}}),
}


KNOWN = {
    # a fragment spread next to another spread fragment that already includes it: both become bases, in alphabetical order
    "fragment-spread-next-to-a-fragment-that-includes-it": ("""
        query GetMe { me { ...Alpha ...Beta } }
        fragment Alpha on User { id }
        fragment Beta on User { name ...Alpha }
    """, {"get_me": {"GetMeMe": ["Alpha", "Beta"]}, "fragments": {"Beta": ["Alpha"]}}),
}


def witness_known(name):
    SCENARIOS_ALL = dict(SCENARIOS, **KNOWN)
    saved = dict(SCENARIOS)
    SCENARIOS.update(KNOWN)
    try:
        rep = check_scenario(name)
    finally:
        SCENARIOS.clear()
        SCENARIOS.update(saved)
    rep["cases"] = [name] if rep["failed"] else []
    return rep


def check_scenario(name):
    _mixins_module()
    queries, expect = SCENARIOS[name]
    rep = dict(inputs={"scenario": name}, failed=[], undetermined=[], pre_ok=True, outcome={}, error=None)
    g = None
    try:
        g = generate_client(SCHEMA, textwrap.dedent(queries))
        g.module()                       # package imports (all modules, models rebuilt)
        for modname, classes in expect.items():
            mod = g.module(modname)
            for cls, bases in classes.items():
                have = [b.__name__ for b in getattr(mod, cls).__mro__]
                rep["outcome"][f"{modname}.{cls}"] = have[:5]
                if not all(b in have for b in bases):
                    rep["failed"].append(f"bases-of-{cls}")
                foreign = [b for b in have if b in ("UB", "BB") and b not in bases]
                if foreign:
                    rep["failed"].append(f"foreign-bases-of-{cls}")
    except Exception as e:   # noqa
        rep["outcome"] = {"raise": type(e).__name__, "message": str(e)[:300]}
        rep["failed"].append("package-loads")
    finally:
        if g is not None:
            g.cleanup()
    return rep


def bounded_scenarios(tier, seed):
    fails = []
    for name in list(SCENARIOS) + list(KNOWN):
        r = witness_known(name) if name in KNOWN else check_scenario(name)
        if r["failed"]:
            fails.append(r)
    return dict(function="ariadne_codegen.client_generators.result_types:ResultTypesGenerator", name="bounded.fragment-scenarios",
                kind="bounded stand-in (scenario list, end to end)", domain=f"{len(SCENARIOS)} fragment / @mixin scenarios: {sorted(SCENARIOS)}",
                cases=len(SCENARIOS), failed=len(fails), failures=fails)


def is_known_scenario(rep):
    return rep.get("inputs", {}).get("scenario") in KNOWN
