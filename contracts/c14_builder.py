"""C14 - the custom operation builder emits valid, faithful, history-free documents (run-time side, base_operation.py).

_format_variable_name (fresh variable names; while loop cut with a havoc invariant, termination not proved),
GraphQLArgument.to_ast, _build_field_name, alias (frame).  Whole documents are checked by the end-to-end bounded
stand-in in e2e_builder (builder expression trees on a generated client)."""
import z3
import graphql as G
from pyvc import val as V
from pyvc.val import SV, Obj, MSet
from pyvc.contract import Contract, self_obj
from pyvc.spec import *   # noqa
from . import lib_graphql as GQ
from ariadne_codegen.client_generators.dependencies import base_operation as BO

MOD = "ariadne_codegen.client_generators.dependencies.base_operation:"
V.REG.register(BO.GraphQLField, ["_field_name", "_variables", "formatted_variables", "_subfields", "_alias", "_inline_fragments"])
V.REG.register(BO.GraphQLArgument, ["_name", "_value"])
V.REG.register(G.VariableNode, ["name"])


class FormatVariableName(Contract):
    props = ("C14",)
    target = MOD + "GraphQLField._format_variable_name"
    mutates = ("used_names",)
    trusted = ["termination of the renaming loop is not proved (finite set, unbounded counter)"]
    frame_args = False
    # havoc invariant: only the kinds of the loop variables (what the loop exit needs is its negated condition)
    while_loops = {"GraphQLField._format_variable_name": lambda st, I, env: z3.And(
        V.is_VInt(st["counter"]) if "counter" in st else z3.BoolVal(True),
        V.is_VStr(st["unique_name"]) if "unique_name" in st else z3.BoolVal(True),
        z3.PrefixOf(V.vs(V.lower(env.lookup("base_name"))), V.vs(st["unique_name"])) if "unique_name" in st else z3.BoolVal(True))}

    def setup(self, E):
        return [self_obj(BO.GraphQLField, {}), E.sym_int("idx"), E.sym("var_name", GQ.NAME), E.mset("used_names", Str)], {}

    def requires(self, A):
        return V.vi(A.idx) >= 0

    def ensures(self, A, res):
        old = V.set_elems(A.used_names)
        new = V.set_elems(A.final_used_names)
        x = z3.Const("any_name", V.Val)
        return {"name-is-fresh": z3.Not(V.vcontains(old, res)),
                # set equality, extensionally (x is a free constant: proved for an arbitrary x)
                "name-is-recorded/nothing-else-changes": V.vcontains(new, x) == z3.Or(V.vcontains(old, x), x == res),
                "name-starts-with-the-argument-name-and-index": z3.PrefixOf(z3.Concat(V.vs(A.var_name), V.S("_"), z3.IntToStr(V.vi(A.idx))), V.vs(res))}

    def native_args(self, inputs):
        return [inputs["idx"], inputs["var_name"], inputs["used_names"]], {}

    def native_self(self):
        return BO.GraphQLField("f")

    def native_names(self, inputs, args, kwargs):
        return dict(idx=inputs["idx"], var_name=inputs["var_name"], used_names=inputs["used_names"])

    def samples(self, tier):
        return [dict(idx=i, var_name=n, used_names=set(u)) for i in (0, 3) for n in ("id", "first")
                for u in ((), ("id_0",), ("id_0", "id_0_1", "first_3"))]


class ArgumentToAst(Contract):
    props = ("C14",)
    target = MOD + "GraphQLArgument.to_ast"

    def setup(self, E):
        return [self_obj(BO.GraphQLArgument, dict(_name=E.sym("name", GQ.NAME), _value=E.sym("value", GQ.NAME)))], {}

    def ensures(self, A, res):
        n, v = V.attr_of(A.self, BO.GraphQLArgument, "_name"), V.attr_of(A.self, BO.GraphQLArgument, "_value")
        return {"argument-carries-its-graphql-name-bound-to-the-variable": res == mk(G.ArgumentNode, name=mk(G.NameNode, value=n),
                                                                                        value=mk(G.VariableNode, name=mk(G.NameNode, value=v)))}


class BuildFieldName(Contract):
    props = ("C14",)
    target = MOD + "GraphQLField._build_field_name"

    def setup(self, E):
        return [self_obj(BO.GraphQLField, dict(_field_name=E.sym("field_name", GQ.NAME), _alias=E.sym("alias", Opt(GQ.NAME))))], {}

    def ensures(self, A, res):
        fn, al = V.attr_of(A.self, BO.GraphQLField, "_field_name"), V.attr_of(A.self, BO.GraphQLField, "_alias")
        return {"alias-colon-name-iff-aliased": res == z3.If(truthy(al), V.VStr(z3.Concat(V.vs(al), V.S(": "), V.vs(fn))), fn)}


CONTRACTS = [FormatVariableName(), ArgumentToAst(), BuildFieldName()]
