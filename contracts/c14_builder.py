"""C14 - the custom operation builder emits valid, faithful, history-free documents (run-time side, base_operation.py).

_format_variable_name (fresh variable names; while loop cut with a havoc invariant, termination not proved),
GraphQLArgument.to_ast, _build_field_name, alias (frame).  Whole documents are checked by the end-to-end bounded
stand-in in e2e_builder (builder expression trees on a generated client)."""
import z3
import graphql as G
from pyvc import val as V
from pyvc.val import SV, Obj, MSet
from pyvc.contract import Contract, self_obj
from pyvc.spec import *   # noqa
from . import lib_graphql as GQ
from ariadne_codegen.client_generators.dependencies import base_operation as BO

MOD = "ariadne_codegen.client_generators.dependencies.base_operation:"
V.REG.register(BO.GraphQLField, ["_field_name", "_variables", "formatted_variables", "_subfields", "_alias", "_inline_fragments"])
V.REG.register(BO.GraphQLArgument, ["_name", "_value"])
V.REG.register(G.VariableNode, ["name"])


class FormatVariableName(Contract):
    props = ("C14", "C18", "C07")
    target = MOD + "GraphQLField._format_variable_name"
    mutates = ("used_names",)
    trusted = ["termination of the renaming loop is not proved (finite set, unbounded counter)"]
    frame_args = False
    # havoc invariant: only the kinds of the loop variables (what the loop exit needs is its negated condition)
    while_loops = {"GraphQLField._format_variable_name": lambda st, I, env: z3.And(
        V.is_VInt(st["counter"]) if "counter" in st else z3.BoolVal(True),
        V.is_VStr(st["unique_name"]) if "unique_name" in st else z3.BoolVal(True),
        z3.PrefixOf(V.vs(V.lower(env.lookup("base_name"))), V.vs(st["unique_name"])) if "unique_name" in st else z3.BoolVal(True))}

    def setup(self, E):
        return [self_obj(BO.GraphQLField, {}), E.sym_int("idx"), E.sym("var_name", GQ.NAME), E.mset("used_names", Str)], {}

    def requires(self, A):
        return V.vi(A.idx) >= 0

    def ensures(self, A, res):
        old = V.set_elems(A.used_names)
        new = V.set_elems(A.final_used_names)
        x = z3.Const("any_name", V.Val)
        return {"name-is-fresh": z3.Not(V.vcontains(old, res)),
                # set equality, extensionally (x is a free constant: proved for an arbitrary x)
                "name-is-recorded/nothing-else-changes": V.vcontains(new, x) == z3.Or(V.vcontains(old, x), x == res),
                "name-starts-with-the-argument-name-and-index": z3.PrefixOf(z3.Concat(V.vs(A.var_name), V.S("_"), z3.IntToStr(V.vi(A.idx))), V.vs(res))}

    def native_args(self, inputs):
        return [inputs["idx"], inputs["var_name"], inputs["used_names"]], {}

    def native_self(self):
        return BO.GraphQLField("f")

    def native_names(self, inputs, args, kwargs):
        return dict(idx=inputs["idx"], var_name=inputs["var_name"], used_names=inputs["used_names"])

    def samples(self, tier):
        return [dict(idx=i, var_name=n, used_names=set(u)) for i in (0, 3) for n in ("id", "first")
                for u in ((), ("id_0",), ("id_0", "id_0_1", "first_3"))]


class ArgumentToAst(Contract):
    props = ("C14",)
    target = MOD + "GraphQLArgument.to_ast"

    def setup(self, E):
        return [self_obj(BO.GraphQLArgument, dict(_name=E.sym("name", GQ.NAME), _value=E.sym("value", GQ.NAME)))], {}

    def result_term(self, A):
        n, v = V.attr_of(A.self, BO.GraphQLArgument, "_name"), V.attr_of(A.self, BO.GraphQLArgument, "_value")
        return mk(G.ArgumentNode, name=mk(G.NameNode, value=n), value=mk(G.VariableNode, name=mk(G.NameNode, value=v)))

    def ensures(self, A, res):
        return {"argument-carries-its-graphql-name-bound-to-the-variable": res == self.result_term(A)}


class BuildFieldName(Contract):
    props = ("C14",)
    target = MOD + "GraphQLField._build_field_name"

    def setup(self, E):
        return [self_obj(BO.GraphQLField, dict(_field_name=E.sym("field_name", GQ.NAME), _alias=E.sym("alias", Opt(GQ.NAME))))], {}

    def ensures(self, A, res):
        fn, al = V.attr_of(A.self, BO.GraphQLField, "_field_name"), V.attr_of(A.self, BO.GraphQLField, "_alias")
        return {"alias-colon-name-iff-aliased": res == z3.If(truthy(al), V.VStr(z3.Concat(V.vs(al), V.S(": "), V.vs(fn))), fn)}


V.REG.register(G.ArgumentNode, ["name", "value"]) if G.ArgumentNode not in V.REG.by_cls else None
for _c in (G.FieldNode, G.SelectionSetNode, G.NameNode):
    if _c not in V.REG.by_cls:
        V.REG.register(_c, [k for k in _c.keys if k != "loc"])
FORMATTED = z3.Const("formatted_variables_after_collect", V.Val)
SELECTIONS = z3.Const("selections_built", V.Val)


def _argument_node(p):
    """formatted_variables item (unique variable name -> {"name": GraphQL argument name, ...}) -> ArgumentNode"""
    return mk(G.ArgumentNode, name=mk(G.NameNode, value=get(V.pval(p), "name")), value=mk(G.VariableNode, name=mk(G.NameNode, value=V.pkey(p))))


argument_nodes = SpecMap("builder_argument_nodes", _argument_node)


class FieldToAst(Contract):
    """GraphQLField.to_ast against recording stand-ins of _collect_all_variables / _build_selections (their parts are under
    contract above; whole trees are the bounded stand-in's):
      * the variables are collected exactly once, for this index, into the caller's name set - the very object that was
        passed, also when it is still empty - or into a NEW empty set when none was passed (nothing survives from an
        earlier rendering);
      * one argument node per collected variable, in order: the GraphQL argument name bound to the unique variable name;
      * the field name node is _build_field_name(); a selection set exactly when there are sub-fields or inline fragments,
        built for the same index and the same name set."""
    props = ("C14", "C18", "C07")
    target = MOD + "GraphQLField.to_ast"
    frame_args = False
    use_at_calls = False

    def setup(self, E):
        from pyvc.interp import ModelMethod
        s = self_obj(BO.GraphQLField, dict(_field_name=E.sym("field_name", GQ.NAME), _alias=E.sym("alias", Opt(GQ.NAME)),
                                           _subfields=E.sym("subfields", Pred(V.is_VList, "list")),
                                           _inline_fragments=E.sym("inline_fragments", DictOf(GQ.NAME, Any, name="inline_fragments_by_type")),
                                           formatted_variables=E.sym("stale_formatted_variables", DictOf(Str, Any, name="stale"))))
        fv = E.sym("formatted_variables_after_collect", DictOf(Str, Pred(lambda t: z3.And(V.is_VDict(t), has(t, "name")), "entry with the argument name"), name="formatted_after_collect"))
        sels = E.sym("selections_built", Pred(V.is_VList, "list"))
        given = E.fork("used_names_given")
        used = E.mset("used_names", Str) if given else None
        self._used = used

        def describe(arg):
            if used is not None and arg is used:
                return S("the-callers-set")
            if isinstance(arg, (set, V.PSet)) and len(arg) == 0:
                return S("a-new-empty-set")
            if isinstance(arg, MSet) and arg is not used:
                return z3.If(V.is_VNil(arg.elems), S("a-new-empty-set"), S("another-set"))
            return S("something-else")

        def collect(I, o, a, k):
            I.p.effect("call", ("collect", [V.lower(a[0]), describe(a[1])], V.VNone))
            o.attrs["formatted_variables"] = fv
            return None

        def build(I, o, a, k):
            I.p.effect("call", ("build_selections", [V.lower(a[0]), describe(a[1])], V.VNone))
            return sels
        s.attrs["_collect_all_variables"] = ModelMethod(s, collect, "_collect_all_variables")
        s.attrs["_build_selections"] = ModelMethod(s, build, "_build_selections")
        kw = dict(used_names=used) if given else {}
        return [s, E.sym_int("idx")], kw

    def ensures(self, A, res):
        calls = [p for k, p in A["__effects__"] if k == "call"]
        given = z3.Bool("used_names_given")
        where = z3.If(given, S("the-callers-set"), S("a-new-empty-set"))
        me = A.self
        has_children = z3.Or(truthy(V.attr_of(me, BO.GraphQLField, "_subfields")), truthy(V.attr_of(me, BO.GraphQLField, "_inline_fragments")))
        fn, al = V.attr_of(me, BO.GraphQLField, "_field_name"), V.attr_of(me, BO.GraphQLField, "_alias")
        name = z3.If(truthy(al), V.VStr(z3.Concat(V.vs(al), V.S(": "), V.vs(fn))), fn)
        p = A.get("__path__")
        args = argument_nodes.apply(p, V.vd(FORMATTED)) if p is not None else argument_nodes(V.vd(FORMATTED))
        out = {"variables-collected-exactly-once-first": z3.BoolVal(len(calls) >= 1 and calls[0][0] == "collect" and sum(1 for c in calls if c[0] == "collect") == 1)}
        if not (len(calls) >= 1 and calls[0][0] == "collect"):
            return out
        out["collected-for-this-index-into-the-callers-set-or-a-new-empty-one"] = z3.And(calls[0][1][0] == A.idx, calls[0][1][1] == where)
        out["selections-built-iff-there-are-children-for-the-same-index-and-name-set"] = z3.And(
            z3.BoolVal(len(calls) <= 2), has_children == z3.BoolVal(len(calls) == 2),
            *( [z3.BoolVal(calls[1][0] == "build_selections"), calls[1][1][0] == A.idx, calls[1][1][1] == where] if len(calls) == 2 else []))
        sel = mk(G.SelectionSetNode, selections=z3.If(V.is_VList(SELECTIONS), V.VTuple(V.vl(SELECTIONS)), SELECTIONS)) if len(calls) == 2 else V.VNone
        out["field-name-is-alias-colon-name-or-name"] = V.attr_of(res, G.FieldNode, "name") == mk(G.NameNode, value=name)
        out["one-argument-node-per-collected-variable-in-order"] = V.attr_of(res, G.FieldNode, "arguments") == V.VTuple(args)
        out["selection-set-of-exactly-the-built-selections-or-none"] = V.attr_of(res, G.FieldNode, "selection_set") == sel
        return out

    def replay_custom(self, inputs):
        from .e2e_builder import bounded_builder
        r = bounded_builder("quick", 0)
        return dict(inputs={"scenario": "builder expression trees"}, failed=["post.collected-for-this-index-into-the-callers-set-or-a-new-empty-one"] if r["failed"] else [],
                    undetermined=[], pre_ok=True, outcome={"failures": r["failures"][:3]}, error=None)


RENDERED = z3.Function("builder_rendered_field", V.Val, V.Val, V.Val, V.Val)      # (field, index, name set) -> FieldNode
for _c in (G.InlineFragmentNode, G.NamedTypeNode):
    if _c not in V.REG.by_cls:
        V.REG.register(_c, [k for k in _c.keys if k != "loc"])


class ToAstAtCalls(Contract):
    """stand-in for GraphQLField.to_ast where _build_selections calls it on its children: some field node that depends on the
    child, the index and the name set it is given (to_ast itself is under contract above)"""
    target = MOD + "GraphQLField.to_ast"
    assumed = True

    def result_term(self, A):
        return RENDERED(A.self, A.idx, A.used_names)


def _node(cls, **kw):
    fields = {k: V.VNone for k in V.REG.info(cls).fields}
    fields.update(kw)
    return mk(cls, **fields)


rendered_children = SpecMap("builder_rendered_children", lambda c, i, u: RENDERED(c, i, u), param_sorts=(V.Val, V.Val))


def _inline_fragment(p, i, u):
    return _node(G.InlineFragmentNode, type_condition=_node(G.NamedTypeNode, name=_node(G.NameNode, value=V.pkey(p))),
                 selection_set=_node(G.SelectionSetNode, selections=V.VTuple(rendered_children(V.vt(V.pval(p)), i, u))))


rendered_fragments = SpecMap("builder_rendered_fragments", _inline_fragment, param_sorts=(V.Val, V.Val))


class BuildSelections(Contract):
    """every sub-field rendered, in order, then one inline fragment per type condition, in order, each holding its own
    sub-fields in order - all for the same index and the same name set (nothing is dropped when a field has both)"""
    props = ("C14", "C18", "C07")
    target = MOD + "GraphQLField._build_selections"
    frame_args = False

    def setup(self, E):
        child = Cls(BO.GraphQLField)
        s = self_obj(BO.GraphQLField, dict(_subfields=E.sym("subfields", ListOf(child, name="builder_subfields")),
                                           _inline_fragments=E.sym("inline_fragments", DictOf(GQ.NAME, TupleOf(child, name="builder_fragment_children"),
                                                                                               name="builder_inline_fragments"))))
        return [s, E.sym_int("idx"), E.mset("used_names", Str)], {}

    @property
    def loops(self):
        seen = {}

        def inv(rest, xs, st, I, env):
            i, u = V.lower(env.lookup("idx")), V.lower(env.lookup("used_names"))
            me = V.lower(env.lookup("self"))
            subs = V.vl(V.attr_of(me, BO.GraphQLField, "_subfields"))
            cur = V.vl(st["selections"]) if "selections" in st else V.VNil
            rs = z3.simplify(rest)
            if z3.is_app(rs) and rs.decl().name() == "VCons":
                seen[id(I.p)] = rs.arg(0)
            if id(I.p) in seen:     # the inner comprehension over this item's children (known once the body has run): map extensionality
                rendered_children.apply(I.p, z3.simplify(V.vt(V.pval(seen[id(I.p)]))), i, u)
            rendered_children.apply(I.p, subs, i, u)
            return append_map_inv(cur, rest, xs, rendered_fragments, (i, u), init=rendered_children(subs, i, u))
        return {"GraphQLField._build_selections": inv}

    def ensures(self, A, res):
        me, i, u = A.self, A.idx, A.used_names
        subs = V.vl(V.attr_of(me, BO.GraphQLField, "_subfields"))
        frags = V.vd(V.attr_of(me, BO.GraphQLField, "_inline_fragments"))
        return {"sub-fields-then-one-inline-fragment-per-type-condition-all-in-order-same-index-and-name-set":
                res == V.VList(V.vl_concat(rendered_children(subs, i, u), rendered_fragments(frags, i, u)))}

    def replay_custom(self, inputs):
        from .e2e_builder import bounded_builder
        r = bounded_builder("quick", 0)
        return dict(inputs={"scenario": "builder expression trees"}, failed=["post.sub-fields-then-one-inline-fragment-per-type-condition-all-in-order-same-index-and-name-set"] if r["failed"] else [],
                    undetermined=[], pre_ok=True, outcome={"failures": r["failures"][:3]}, error=None)


CONTRACTS = [FormatVariableName(), ArgumentToAst(), BuildFieldName(), FieldToAst(), BuildSelections(), ToAstAtCalls()]
