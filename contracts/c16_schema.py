"""C16 - the graphqlschema strategy reproduces the schema.

Every generator function returns the constructor-call AST whose evaluation - under the assumed meaning of
graphql-core's constructors (keyword -> attribute, cast(_, type_map[name]) -> reference to the named type) - rebuilds
the object: types with all wrappers, arguments / input fields with default values (None kept distinct from Undefined),
descriptions, deprecation reasons, enum values, the type map without the built-in types.  The end-to-end round trip
(print_schema of the executed module == print_schema of the source) is a bounded stand-in over a schema list."""
import ast
import z3
import graphql as G
from pyvc import val as V
from pyvc.val import SV, Obj
from pyvc.contract import Contract
from pyvc.spec import *   # noqa
from . import lib_graphql as GQ
from .c06_input_types import name_, sub, const, call
from .c16_meaning import SameMeaning
from ariadne_codegen.graphql_schema_generators import fields as SF
from ariadne_codegen.graphql_schema_generators import schema as SS
from ariadne_codegen.graphql_schema_generators import utils as SU
from ariadne_codegen.graphql_schema_generators import constants as SK

MODF = "ariadne_codegen.graphql_schema_generators.fields:"
UNDEFINED = GQ.UNDEFINED

NAMED_ANY = OneOf(*[Cls(c, name=GQ.NAME) for c in (G.GraphQLScalarType, G.GraphQLEnumType, G.GraphQLInputObjectType, G.GraphQLObjectType,
                                                   G.GraphQLInterfaceType, G.GraphQLUnionType)])
ANY_NULLABLE, ANY_TYPE = GQ._type_shapes([NAMED_ANY], "Any")
TMN = GQ.NAME       # name of the type-map variable
DEFAULT = Any       # default values: any value (None and Undefined included)
ARGUMENT = Cls(G.GraphQLArgument, type=ANY_TYPE, description=Opt(Str), deprecation_reason=Opt(Str))
INPUT_FIELD = Cls(G.GraphQLInputField, type=ANY_TYPE, description=Opt(Str), deprecation_reason=Opt(Str))
ARG_MAP = DictOf(GQ.NAME, ARGUMENT, name="argument_map")
FIELD = Cls(G.GraphQLField, type=ANY_TYPE, args=ARG_MAP, description=Opt(Str), deprecation_reason=Opt(Str))
ENUM_VALUE = Cls(G.GraphQLEnumValue, description=Opt(Str), deprecation_reason=Opt(Str))
CLASS_NAMES = {GQ.SCALAR.cid: "GraphQLScalarType", GQ.ENUM.cid: "GraphQLEnumType", GQ.INPUT.cid: "GraphQLInputObjectType",
               GQ.OBJECT.cid: "GraphQLObjectType", GQ.INTERFACE.cid: "GraphQLInterfaceType", GQ.UNION.cid: "GraphQLUnionType"}


def kw(arg, value):
    return mk(ast.keyword, arg=arg, value=value)


def class_name_of(t):
    r = S("?")
    for cid, n in CLASS_NAMES.items():
        r = z3.If(V.cls_of(t) == cid, S(n), r)
    return r


def named_ref(t, m):
    """cast(<Class>, type_map["Name"])"""
    return call(name_("cast"), args=[name_(class_name_of(t)), sub(name_(m), const(GQ.name_of(t)))])


def std_scalar(nm):
    r = name_("?")
    for k, v in SK.STANDARD_SCALARS.items():
        r = z3.If(nm == S(k), name_(v), r)
    return r


type_ast = z3.RecFunction("schema_type_ast", V.Val, V.Val, V.Val)
_t, _m = z3.Const("t", V.Val), z3.Const("m", V.Val)
z3.RecAddDefinition(type_ast, [_t, _m],
    z3.If(GQ.is_cls(_t, GQ.LIST), call(name_("GraphQLList"), args=[type_ast(GQ.of_type(_t), _m)]),
    z3.If(GQ.is_cls(_t, GQ.NONNULL), call(name_("GraphQLNonNull"), args=[type_ast(GQ.of_type(_t), _m)]),
    z3.If(z3.And(GQ.is_cls(_t, GQ.SCALAR), in_strs(GQ.name_of(_t), list(SK.STANDARD_SCALARS))), std_scalar(GQ.name_of(_t)),
          named_ref(_t, _m)))))


def attr(t, cls, f):
    return V.attr_of(t, cls, f)


def arg_ast(a, m, cls=G.GraphQLArgument, ctor="GraphQLArgument"):
    return call(name_(ctor), args=[type_ast(attr(a, cls, "type"), m)],
                keywords=[kw("default_value", const(attr(a, cls, "default_value"))), kw("description", const(attr(a, cls, "description"))),
                          kw("deprecation_reason", const(attr(a, cls, "deprecation_reason")))])


arg_keys = SpecMap("schema_arg_keys", lambda p: const(V.pkey(p)))
arg_vals = SpecMap("schema_arg_vals", lambda p, m: arg_ast(V.pval(p), m), param_sorts=(V.Val,))


def args_ast(args, m):
    return mk(ast.Dict, keys=V.VList(arg_keys(V.vd(args))), values=V.VList(arg_vals(V.vd(args), m)))


class GenerateFieldType(SameMeaning, Contract):
    props = ("C16",)
    arg_names = ("type_", "type_map_name")
    reference = True
    target = MODF + "generate_field_type"
    trusted = GQ.TRUSTED + ["graphql-core constructors: keyword arguments become the attributes of the same name; GraphQLList/GraphQLNonNull wrap their argument"]

    def setup(self, E):
        return [E.sym("type_", ANY_TYPE), E.sym("type_map_name", TMN)], {}

    def decreases(self, A):
        return A.type_

    def result_term(self, A):
        return type_ast(A.type_, A.type_map_name)

    def ensures(self, A, res):
        return {"type-expression-rebuilt-with-every-wrapper": res == self.result_term(A)}

    def native_args(self, inputs):
        return [inputs["type_"], inputs["type_map_name"]], {}

    def samples(self, tier):
        L, N = G.GraphQLList, G.GraphQLNonNull
        ts = [G.GraphQLInt, N(G.GraphQLID), L(N(G.GraphQLString)), GQ.OBJECT.build("User"), N(L(N(GQ.ENUM.build("Color")))),
              GQ.SCALAR.build("DateTime"), L(L(GQ.INPUT.build("Filter"))), GQ.UNION.build("U"), GQ.INTERFACE.build("Node")]
        return [dict(type_=t, type_map_name="type_map") for t in ts]


class GenerateArg(SameMeaning, Contract):
    props = ("C16",)
    arg_names = ("arg", "type_map_name")
    target = MODF + "generate_arg"

    def setup(self, E):
        return [E.sym("arg", ARGUMENT), E.sym("type_map_name", TMN)], {}

    def result_term(self, A):
        return arg_ast(A.arg, A.type_map_name)

    def ensures(self, A, res):
        return {"argument-rebuilt-with-type-default-description-deprecation": res == self.result_term(A)}

    def native_args(self, inputs):
        return [inputs["arg"], inputs["type_map_name"]], {}

    def repair(self, name, v):
        return v

    def samples(self, tier):
        mkA = G.GraphQLArgument
        return [dict(arg=a, type_map_name="tm") for a in (mkA(G.GraphQLInt), mkA(G.GraphQLInt, default_value=None), mkA(G.GraphQLString, default_value="x", description="d"),
                                                          mkA(G.GraphQLList(G.GraphQLInt), default_value=[1, 2], deprecation_reason="old"), mkA(G.GraphQLInt, default_value=0))]


class GenerateInputField(SameMeaning, Contract):
    props = ("C16",)
    arg_names = ("input_field", "type_map_name")
    target = MODF + "generate_input_field"

    def setup(self, E):
        return [E.sym("input_field", INPUT_FIELD), E.sym("type_map_name", TMN)], {}

    def result_term(self, A):
        return arg_ast(A.input_field, A.type_map_name, G.GraphQLInputField, "GraphQLInputField")

    def ensures(self, A, res):
        return {"input-field-rebuilt-with-type-default-description-deprecation": res == self.result_term(A)}

    def native_args(self, inputs):
        return [inputs["input_field"], inputs["type_map_name"]], {}

    def samples(self, tier):
        mkF = G.GraphQLInputField
        return [dict(input_field=a, type_map_name="tm") for a in (mkF(G.GraphQLInt), mkF(G.GraphQLInt, default_value=None), mkF(G.GraphQLString, default_value="x", description="d"))]


class GenerateArgs(SameMeaning, Contract):
    props = ("C16",)
    arg_names = ("args", "type_map_name")
    target = MODF + "generate_args"

    def setup(self, E):
        return [E.sym("args", ARG_MAP), E.sym("type_map_name", TMN)], {}

    @property
    def loops(self):
        def inv(rest, xs, st, I, env):
            m = V.lower(env.lookup("type_map_name"))
            keys = V.vl(st["args_dict.keys"]) if "args_dict.keys" in st else V.VNil
            vals = V.vl(st["args_dict.values"]) if "args_dict.values" in st else V.VNil
            return z3.And(append_map_inv(keys, rest, xs, arg_keys), append_map_inv(vals, rest, xs, arg_vals, (m,)))
        return {"generate_args": inv}

    def result_term(self, A):
        return args_ast(A.args, A.type_map_name)

    def ensures(self, A, res):
        return {"every-argument-rebuilt-under-its-name-in-order": res == self.result_term(A)}

    def native_args(self, inputs):
        return [inputs["args"], inputs["type_map_name"]], {}

    def samples(self, tier):
        mkA = G.GraphQLArgument
        return [dict(args=a, type_map_name="tm") for a in ({}, {"a": mkA(G.GraphQLInt)}, {"b": mkA(G.GraphQLInt, default_value=None), "a": mkA(G.GraphQLString)})]


class GenerateField(SameMeaning, Contract):
    props = ("C16",)
    arg_names = ("field", "type_map_name")
    target = MODF + "generate_field"

    def setup(self, E):
        return [E.sym("field", FIELD), E.sym("type_map_name", TMN)], {}

    def result_term(self, A):
        f, m = A.field, A.type_map_name
        return call(name_("GraphQLField"), args=[type_ast(attr(f, G.GraphQLField, "type"), m)],
                    keywords=[kw("args", args_ast(attr(f, G.GraphQLField, "args"), m)), kw("description", const(attr(f, G.GraphQLField, "description"))),
                              kw("deprecation_reason", const(attr(f, G.GraphQLField, "deprecation_reason")))])

    def ensures(self, A, res):
        return {"field-rebuilt-with-type-args-description-deprecation": res == self.result_term(A)}

    def native_args(self, inputs):
        return [inputs["field"], inputs["type_map_name"]], {}

    def samples(self, tier):
        F, A = G.GraphQLField, G.GraphQLArgument
        return [dict(field=f, type_map_name="tm") for f in (F(G.GraphQLInt), F(G.GraphQLList(GQ.OBJECT.build("User")), args={"n": A(G.GraphQLInt, default_value=None)}, description="d"),
                                                            F(G.GraphQLNonNull(G.GraphQLID), deprecation_reason="old"))]


class GenerateEnumValue(SameMeaning, Contract):
    props = ("C16",)
    arg_names = ("value",)
    target = MODF + "generate_enum_value"

    def setup(self, E):
        return [E.sym("value", ENUM_VALUE)], {}

    def result_term(self, A):
        v = A.value
        return call(name_("GraphQLEnumValue"), keywords=[kw("value", const(attr(v, G.GraphQLEnumValue, "value"))),
                                                         kw("description", const(attr(v, G.GraphQLEnumValue, "description"))),
                                                         kw("deprecation_reason", const(attr(v, G.GraphQLEnumValue, "deprecation_reason")))])

    def ensures(self, A, res):
        return {"enum-value-rebuilt": res == self.result_term(A)}

    def native_args(self, inputs):
        return [inputs["value"]], {}

    def samples(self, tier):
        EV = G.GraphQLEnumValue
        return [dict(value=v) for v in (EV("A"), EV(1, description="one"), EV("B", deprecation_reason="old"), EV(None))]


# type map: every named type except the built-in ones, under its name, in order
# defined in c16_named (dispatch over the kind of named type); generate_named_type is proved against it there
NAMED_AST = z3.RecFunction("schema_named_type_ast", V.Val, V.Val, V.Val)


def named_type_ast_placeholder(t, m):
    return NAMED_AST(t, m)


tm_keys = SpecMap("schema_tm_keys", lambda p: const(V.pkey(p)), keep_fn=lambda p: z3.Not(in_strs(V.pkey(p), list(SK.STANDARD_TYPES))))
tm_vals = SpecMap("schema_tm_vals", lambda p, m: named_type_ast_placeholder(V.pval(p), m), keep_fn=lambda p, m: z3.Not(in_strs(V.pkey(p), list(SK.STANDARD_TYPES))),
                  param_sorts=(V.Val,))


class GenerateTypeMap(Contract):
    props = ("C16",)
    target = "ariadne_codegen.graphql_schema_generators.schema:generate_type_map"
    TYPE_MAP = DictOf(Str, NAMED_ANY, name="schema_type_map")

    def setup(self, E):
        return [E.sym("type_map", self.TYPE_MAP), E.sym("type_map_name", TMN)], {}

    @property
    def loops(self):
        def inv(rest, xs, st, I, env):
            m = V.lower(env.lookup("type_map_name"))
            keys = V.vl(st["type_map_dict.keys"]) if "type_map_dict.keys" in st else V.VNil
            vals = V.vl(st["type_map_dict.values"]) if "type_map_dict.values" in st else V.VNil
            return z3.And(append_map_inv(keys, rest, xs, tm_keys), append_map_inv(vals, rest, xs, tm_vals, (m,)))
        return {"generate_type_map": inv}

    def ensures(self, A, res):
        xs = V.vd(A.type_map)
        return {"type-map-holds-exactly-the-non-builtin-types-under-their-names": res == mk(ast.Dict, keys=V.VList(tm_keys(xs)), values=V.VList(tm_vals(xs, A.type_map_name)))}

    def replay_custom(self, inputs):
        from .e2e_schema import check_round_trip
        names = [k for k in (inputs.get("type_map") or {}) if isinstance(k, str)]
        return check_round_trip(extra_type_names=names)


CONTRACTS = [GenerateFieldType(), GenerateArg(), GenerateInputField(), GenerateArgs(), GenerateField(), GenerateEnumValue(),
             GenerateTypeMap()]

from .c16_named import NEW_CONTRACTS   # noqa: E402  (c16_named builds on the spec functions above)
CONTRACTS = CONTRACTS + NEW_CONTRACTS
