"""C17 - invalid input is rejected up front, with a typed error and no side effects.

Validators of the configuration (each raises InvalidConfiguration iff its documented constraint is violated), header
resolution without mutating the configuration (frame), section lookup, operation validation rule set."""
import keyword
import z3
import graphql as G
from pyvc import val as V
from pyvc import models
from pyvc.val import SV, Obj
from pyvc.contract import Contract
from pyvc.spec import *   # noqa
from . import c19_sources as C19
from ariadne_codegen import settings as ST
from ariadne_codegen import config as CF
from ariadne_codegen import schema as SCH
from ariadne_codegen import exceptions as EX

# configuration names considered: printable ASCII text (str.isidentifier is modelled for ASCII)
ASCII = StrIn(z3.Star(z3.Range(" ", "~")))


class AssertIdentifier(Contract):
    props = ("C17",)
    target = "ariadne_codegen.settings:assert_string_is_valid_python_identifier"
    trusted = ["str.isidentifier on ASCII text = [A-Za-z_][A-Za-z0-9_]*; keyword.iskeyword = membership in kwlist"]

    def setup(self, E):
        return [E.sym("name", ASCII)], {}

    def _usable(self, A):
        s = V.vs(A.name)
        return z3.And(z3.InRe(s, models.RE_IDENT), z3.Not(z3.InRe(s, z3.Union(*[z3.Re(k) for k in keyword.kwlist]))))

    def ensures(self, A, res):
        return {"accepted-only-if-usable-as-python-name": self._usable(A)}

    def on_raise(self, A, exc_cls, exc):
        if exc_cls is EX.InvalidConfiguration:
            return {"rejected-only-if-not-usable": z3.Not(self._usable(A))}
        return {"typed-error": z3.BoolVal(False)}

    def native_args(self, inputs):
        return [inputs["name"]], {}

    def samples(self, tier):
        return [dict(name=n) for n in ("client", "Client1", "1abc", "my-pkg", "", "class", "import", "_x", "a b", "None", "match")]


class ResolveHeaders(Contract):
    props = ("C17", "C19")
    target = "ariadne_codegen.settings:resolve_headers"
    HEADERS = DictOf(Str, Pred(lambda t: z3.And(V.is_VStr(t), z3.Not(z3.PrefixOf(V.S("$$"), V.vs(t)))), "header value"), name="headers17")

    def setup(self, E):
        from pyvc.shapes import assume_shape
        assume_shape(E.p, C19.ENV_SHAPE, C19.ENV)
        E.ctx.inputs["environ"] = C19.ENV
        return [E.sym("headers", self.HEADERS)], {}

    def _maps(self):
        if not hasattr(ResolveHeaders, "_m"):
            def is_var(p):
                return z3.PrefixOf(V.S("$"), V.vs(V.pval(p)))

            def var_value(p):
                v = V.vs(V.pval(p))
                return get(C19.ENV, V.VStr(z3.SubString(v, 1, z3.Length(v) - 1)))
            ResolveHeaders._m = (
                SpecMap("resolved_headers", lambda p: V._pair(V.pkey(p), z3.If(is_var(p), var_value(p), V.pval(p)))),
                SpecMap("unresolvable_flags", lambda p: V.VBool(z3.And(is_var(p), z3.Not(truthy(var_value(p)))))))
        return ResolveHeaders._m

    def ensures(self, A, res):
        resolved, flags = self._maps()
        xs = V.vd(A.headers)
        p = A.get("__path__")
        r = resolved.apply(p, xs) if p is not None else resolved(xs)
        fl = flags.apply_any(p, xs)
        return {"every-header-resolved-keys-and-order-kept": res == V.VDict(r),
                "returns-only-if-every-variable-resolves": z3.Not(fl)}

    def on_raise(self, A, exc_cls, exc):
        resolved, flags = self._maps()
        xs = V.vd(A.headers)
        p = A.get("__path__")
        fl = flags.apply_any(p, xs)
        if exc_cls is EX.InvalidConfiguration:
            return {"raises-only-for-an-unresolvable-variable": fl}
        return {"typed-error": z3.BoolVal(False)}

    def native_args(self, inputs):
        return [inputs["headers"]], {}

    def replay_custom(self, inputs):
        import copy
        import os
        from unittest import mock
        rep = dict(inputs={k: str(v) for k, v in inputs.items()}, failed=[], undetermined=[], pre_ok=True, outcome=None, error=None)
        env = {k: v for k, v in (inputs.get("environ") or {}).items() if isinstance(k, str) and isinstance(v, str) and k and "\\x00" not in k + v and "=" not in k}
        headers = {k: v for k, v in (inputs.get("headers") or {}).items() if isinstance(k, str) and isinstance(v, str)}
        before = copy.deepcopy(headers)
        expected_fail = any(v.startswith("$") and not env.get(v[1:]) for v in headers.values())
        with mock.patch.dict(os.environ, env, clear=True):
            try:
                out = ST.resolve_headers(headers)
                rep["outcome"] = {"return": out}
                exp = {k: (env.get(v[1:]) if v.startswith("$") else v) for k, v in before.items()}
                if expected_fail:
                    rep["failed"].append("post.returns-only-if-every-variable-resolves")
                elif out != exp or list(out) != list(exp):
                    rep["failed"].append("post.every-header-resolved-keys-and-order-kept")
            except EX.InvalidConfiguration:
                rep["outcome"] = {"raise": "InvalidConfiguration"}
                if not expected_fail:
                    rep["failed"].append("raises[InvalidConfiguration].raises-only-for-an-unresolvable-variable")
            except Exception as e:   # noqa
                rep["outcome"] = {"raise": type(e).__name__}
                rep["failed"].append(f"raises[{type(e).__name__}].typed-error")
        if headers != before:
            rep["failed"].append("frame.arguments-not-mutated")
            rep["mutated"] = {"headers": [before, headers]}
        return rep

    def samples(self, tier):
        return [dict(headers=h, environ=e) for h in ({}, {"A": "x"}, {"A": "$TOKEN", "B": "y"}, {"A": "x", "B": "$MISSING"})
                for e in ({"TOKEN": "secret"}, {})]


class GetSection(Contract):
    props = ("C17",)
    target = "ariadne_codegen.config:get_section"
    CONFIG = DictOf(Str, Any, name="config_dict")

    def setup(self, E):
        cfg = E.sym("config_dict", self.CONFIG)
        E.assume(z3.Implies(has(cfg.t, "tool"), DictOf(Str, Any, name="tool_table").pred(get(cfg.t, "tool"))))
        return [cfg], {}

    def _where(self, A):
        c = A.config_dict
        tool = get(c, "tool", {})
        in_tool = z3.And(has(c, "tool"), has(tool, "ariadne-codegen"))
        return c, tool, in_tool, has(c, "ariadne-codegen")

    def ensures(self, A, res):
        c, tool, in_tool, legacy = self._where(A)
        return {"section-found": z3.Or(in_tool, legacy),
                "tool-section-preferred": res == z3.If(in_tool, get(tool, "ariadne-codegen"), get(c, "ariadne-codegen"))}

    def on_raise(self, A, exc_cls, exc):
        c, tool, in_tool, legacy = self._where(A)
        if exc_cls is EX.MissingConfiguration:
            return {"missing-configuration-iff-no-section": z3.And(z3.Not(in_tool), z3.Not(legacy))}
        return {"typed-error": z3.BoolVal(False)}

    def native_args(self, inputs):
        return [inputs["config_dict"]], {}

    def repair(self, name, v):
        from .lib_http import json_sanitize
        return json_sanitize(v) if name == "config_dict" else v

    def samples(self, tier):
        return [dict(config_dict=c) for c in ({}, {"tool": {}}, {"tool": {"ariadne-codegen": {"a": 1}}}, {"ariadne-codegen": {"b": 2}},
                                               {"tool": {"x": 1}, "ariadne-codegen": {"b": 2}})]


CONTRACTS = [AssertIdentifier(), ResolveHeaders(), GetSection(), C19.GetHeaderValue()]


# ------------------------------------------------------------------------------------------ operations validation
VALIDATION_ERRORS = z3.Const("validation_errors", V.Val)


class _Doc:
    pass


V.REG.register(_Doc, ["definitions"])
V.REG.register(G.GraphQLError, ["message"], build=lambda message="err": G.GraphQLError(message if isinstance(message, str) else "err"))


GQL_ERRORS = ListOf(Cls(G.GraphQLError, message=Str), name="all_gql_errors")


def _install_models():
    def load(I, a, k):
        I.p.effect("read_files", a[0])
        return SV(z3.Const("queries_text", V.Val))

    def parse(I, a, k):
        return Obj(_Doc, {"definitions": SV(z3.Const("queries_definitions", V.Val))})

    def validate(I, a, k):
        kw = dict(k)
        I.p.effect("validate", dict(schema=kw.get("schema", a[0] if a else None), rules=kw.get("rules")))
        return SV(VALIDATION_ERRORS)
    models.NATIVE[SCH.load_graphql_files_from_path] = load
    models.NATIVE[SCH.parse] = parse
    models.NATIVE[SCH.validate] = validate


_install_models()


class GetGraphqlQueries(Contract):
    """get_graphql_queries: the document is validated under the full specified rule set except NoUnusedFragments (the one
    documented relaxation), and InvalidOperationForSchema is raised iff validation reports errors."""
    props = ("C17", "C02")
    target = "ariadne_codegen.schema:get_graphql_queries"
    trusted = ["graphql-core: validate(schema, document, rules) returns the list of violations of exactly the given rules"]
    use_at_calls = False

    def setup(self, E):
        from pyvc.shapes import assume_shape
        assume_shape(E.p, GQL_ERRORS, VALIDATION_ERRORS)
        E.ctx.inputs["validation_errors"] = VALIDATION_ERRORS
        return ["queries.graphql", Obj(G.GraphQLSchema, {})], {}

    def configure(self, ctx):
        # load_graphql_files_from_path is a repository function: replaced by its effect model here
        from pyvc.contract import Contract as _C

        class _Load(_C):
            target = "ariadne_codegen.schema:load_graphql_files_from_path"

            def apply_at_call(self, I, fn, args, kwargs):
                I.p.effect("read_files", args[0])
                return SV(z3.Const("queries_text", V.Val))
        ctx.contracts[("ariadne_codegen.schema", "load_graphql_files_from_path")] = _Load()

    def _rules_ok(self, A):
        calls = [p for k, p in A["__effects__"] if k == "validate"]
        if len(calls) != 1:
            return z3.BoolVal(False)
        rules = calls[0]["rules"]
        if rules is None:       # graphql-core default = specified_rules (would include NoUnusedFragments: stricter, still "full")
            return z3.BoolVal(True)
        got = list(rules)
        want = [r for r in G.specified_rules if r is not G.NoUnusedFragmentsRule]
        return z3.BoolVal(set(got) == set(want) and len(got) == len(want))

    def ensures(self, A, res):
        return {"validated-under-the-full-rule-set-minus-NoUnusedFragments": self._rules_ok(A),
                "accepted-only-without-validation-errors": z3.Not(truthy(VALIDATION_ERRORS)),
                "returns-the-parsed-definitions": res == z3.Const("queries_definitions", V.Val)}

    def on_raise(self, A, exc_cls, exc):
        if exc_cls is EX.InvalidOperationForSchema:
            return {"validated-under-the-full-rule-set-minus-NoUnusedFragments": self._rules_ok(A),
                    "rejected-only-with-validation-errors": truthy(VALIDATION_ERRORS)}
        return {"typed-error": z3.BoolVal(False)}

    def replay_custom(self, inputs):
        return replay_validation_rules()

    def samples(self, tier):
        return [dict()]


def replay_validation_rules():
    """native: every specified rule except NoUnusedFragments must be enforced by get_graphql_queries (one minimal invalid
    document per rule family that the statement names)"""
    import os
    import tempfile
    rep = dict(inputs={}, failed=[], undetermined=[], pre_ok=True, outcome={}, error=None, cases=[])
    schema = G.build_schema("type Query { user(id: ID!): User } type User { id: ID! name: String }")
    docs = {
        "unknown-field": "query Q { user(id: 1) { nope } }",
        "unused-variable": "query Q($id: ID!, $first: ID) { user(id: $id) { id } }",
        "undefined-variable": "query Q { user(id: $id) { id } }",
        "unknown-fragment": "query Q { user(id: 1) { ...F } }",
        "missing-required-argument": "query Q { user { id } }",
        "duplicate-operation-name": "query Q { user(id: 1) { id } } query Q { user(id: 2) { id } }",
        "scalar-leaf-selection": "query Q { user(id: 1) { id { x } } }",
    }
    ok_doc = "query Q { user(id: 1) { id } } fragment Unused on User { name }"
    d = tempfile.mkdtemp(prefix="pyvc_rules_")
    try:
        for name, text in docs.items():
            p = os.path.join(d, name + ".graphql")
            open(p, "w").write(text)
            try:
                SCH.get_graphql_queries(p, schema)
                rep["cases"].append(name)
                rep["outcome"][name] = "accepted"
            except EX.InvalidOperationForSchema:
                rep["outcome"][name] = "rejected"
            except Exception as e:   # noqa
                rep["cases"].append(name)
                rep["outcome"][name] = f"{type(e).__name__}"
        p = os.path.join(d, "ok.graphql")
        open(p, "w").write(ok_doc)
        try:
            SCH.get_graphql_queries(p, schema)
            rep["outcome"]["unused-fragment-allowed"] = "accepted"
        except Exception as e:   # noqa
            rep["cases"].append("unused-fragment-allowed")
            rep["outcome"]["unused-fragment-allowed"] = type(e).__name__
    finally:
        import shutil
        shutil.rmtree(d, ignore_errors=True)
    if rep["cases"]:
        rep["failed"].append("post.validated-under-the-full-rule-set-minus-NoUnusedFragments")
    return rep


CONTRACTS.append(GetGraphqlQueries())
