"""Assumed contracts (trusted base) on httpx.Response and the JSON value domain."""
import json
import httpx
import z3
from pyvc import val as V
from pyvc.val import SV
from pyvc.interp import PyRaise
from pyvc.spec import *   # noqa

TRUSTED = [
    "httpx.Response: is_success <=> 200 <= status_code < 300; is_error <=> 400 <= status_code < 600; "
    "is_redirect <=> 300 <= status_code < 400; is_client_error/is_server_error by hundreds",
    "httpx.Response.json(): returns the parsed JSON value of the body, raises json.JSONDecodeError for text that is not "
    "JSON and UnicodeDecodeError for bytes that cannot be decoded (both ValueError subclasses)",
]


def json_sanitize(v):
    """repair a decoded model value into a JSON value (non-JSON leaves -> null, non-string keys -> str)"""
    if v is None or isinstance(v, (bool, int, float, str)):
        return v
    if isinstance(v, (list, tuple)):
        return [json_sanitize(x) for x in v]
    if isinstance(v, dict):
        return {(k if isinstance(k, str) else str(k)): json_sanitize(x) for k, x in v.items()}
    return None


def _build_response(status_code=200, kind=0, json=None):
    import json as _json
    if not isinstance(status_code, int):
        status_code = 200
    if kind == 0:
        return httpx.Response(status_code, content=_json.dumps(json_sanitize(json)).encode())
    if kind == 1:
        return httpx.Response(status_code, content=b"this is <not> json")
    return httpx.Response(status_code, content=b'{"data": "\xe9\xff"}')


def _get_response_field(o, f):
    if f == "status_code":
        return o.status_code
    try:
        v = o.json()
        return 0 if f == "kind" else v
    except UnicodeDecodeError:
        return 2 if f == "kind" else None
    except ValueError:
        return 1 if f == "kind" else None


RESP = V.REG.register(httpx.Response, ["status_code", "kind", "json"], build=_build_response, getter=_get_response_field)


def _status(t):
    return V.vi(V.attr_of(t, httpx.Response, "status_code"))


RESP.computed["status_code"] = lambda I, t: SV(V.attr_of(t, httpx.Response, "status_code"))
RESP.computed["is_success"] = lambda I, t: SV(V.VBool(z3.And(_status(t) >= 200, _status(t) < 300)))
RESP.computed["is_error"] = lambda I, t: SV(V.VBool(z3.And(_status(t) >= 400, _status(t) < 600)))
RESP.computed["is_redirect"] = lambda I, t: SV(V.VBool(z3.And(_status(t) >= 300, _status(t) < 400)))
RESP.computed["is_client_error"] = lambda I, t: SV(V.VBool(z3.And(_status(t) >= 400, _status(t) < 500)))
RESP.computed["is_server_error"] = lambda I, t: SV(V.VBool(z3.And(_status(t) >= 500, _status(t) < 600)))
RESP.computed["is_informational"] = lambda I, t: SV(V.VBool(z3.And(_status(t) >= 100, _status(t) < 200)))


def _json_method(I, t, args, kwargs):
    kind = V.vi(V.attr_of(t, httpx.Response, "kind"))
    if I.p.branch(kind == 0, "response.json:ok"):
        return SV(V.attr_of(t, httpx.Response, "json"))
    if I.p.branch(kind == 1, "response.json:invalid-json"):
        raise PyRaise(json.JSONDecodeError("Expecting value", "x", 0))
    raise PyRaise(UnicodeDecodeError("utf-8", b"\xff", 0, 1, "invalid start byte"))


RESP.methods["json"] = _json_method

RESPONSE = Cls(httpx.Response,
               status_code=Pred(lambda t: z3.And(V.is_VInt(t), V.vi(t) >= 100, V.vi(t) <= 599), "status 100..599"),
               kind=Pred(lambda t: z3.And(V.is_VInt(t), V.vi(t) >= 0, V.vi(t) <= 2), "body kind"),
               json=JSON)


def resp_status(r):
    return _status(r)


def resp_kind(r):
    return V.vi(V.attr_of(r, httpx.Response, "kind"))


def resp_json(r):
    return V.attr_of(r, httpx.Response, "json")


def is_2xx(r):
    return z3.And(_status(r) >= 200, _status(r) < 300)
