import importlib


def lazy(module, fn):
    def run(tier, seed):
        return getattr(importlib.import_module(module), fn)(tier, seed)
    return run
