import importlib


def lazy(module, fn):
    def run(tier, seed):
        return getattr(importlib.import_module(module), fn)(tier, seed)
    return run


def lazy0(module, fn):
    def run():
        return getattr(importlib.import_module(module), fn)()
    return run
