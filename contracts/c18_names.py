"""C18 - GraphQL names map lawfully to Python names.

process_name for all strings (SMT string theory) with snake-casing off, and with it on modulo the assumed contract
A_snake on str_to_snake_case (which uses lookahead regexes: outside both solvers' fragment -> bounded stand-in:
exhaustive over a reduced alphabet).  The bounded stand-in also checks the full statement (every letter and digit
kept in order, idempotence, determinism) natively on the real function."""
import itertools
import keyword
import re
import z3
from pyvc import val as V
from pyvc import models
from pyvc.val import SV, Obj
from pyvc.contract import Contract
from pyvc.spec import *   # noqa
from . import lib_graphql as GQ
from ariadne_codegen import utils as U

import pydantic                                                    # noqa: E402
# the statement's `pydantic model attribute`: every public attribute of pydantic.BaseModel - computed here from pydantic itself,
# NOT taken from the repository's constant (an oracle must not move with the code it judges)
RESERVED = sorted(n for n in dir(pydantic.BaseModel) if not n.startswith("_"))
RE_LOWER_WORD = z3.Plus(z3.Range("a", "z"))
RE_DIGITS = z3.Plus(z3.Range("0", "9"))
RE_WORD = z3.Union(RE_LOWER_WORD, RE_DIGITS)
RE_SNAKE = z3.Option(z3.Concat(RE_WORD, z3.Star(z3.Concat(z3.Re("_"), RE_WORD))))


class StrToSnakeCase(Contract):
    """assumed contract A_snake (checked by the bounded stand-in below, never counted as proved)"""
    props = ("C18",)
    target = "ariadne_codegen.utils:str_to_snake_case"
    assumed = True

    def setup(self, E):
        return [E.sym("name", GQ.NAME)], {}

    def ensures(self, A, res):
        return {"A_snake": z3.And(V.is_VStr(res), z3.InRe(V.vs(res), RE_SNAKE),
                                  # a name without letters and digits has no words
                                  z3.Implies(z3.InRe(V.vs(A.name), z3.Plus(z3.Re("_"))), z3.Length(V.vs(res)) == 0),
                                  # a name containing a letter or digit keeps at least one word
                                  z3.Implies(z3.Not(z3.InRe(V.vs(A.name), z3.Plus(z3.Re("_")))), z3.Length(V.vs(res)) > 0),
                                  # the first word starts with a letter when the first letter/digit of the name is a letter
                                  z3.Implies(z3.InRe(V.vs(A.name), z3.Concat(z3.Star(z3.Re("_")), z3.Union(z3.Range("a", "z"), z3.Range("A", "Z")), z3.Star(models.RE_IDENT_CONT))),
                                             z3.InRe(V.vs(res), z3.Concat(z3.Range("a", "z"), z3.Star(z3.AllChar(z3.ReSort(z3.StringSort())))))))}


def is_kw(s):
    return z3.InRe(s, z3.Union(*[z3.Re(k) for k in keyword.kwlist]))


def is_reserved(s):
    return z3.InRe(s, z3.Union(*[z3.Re(k) for k in RESERVED]))


class ProcessName(Contract):
    props = ("C18", "C06", "C03", "C04")
    target = "ariadne_codegen.utils:process_name"
    trusted = ["keyword.iskeyword = membership in the running interpreter's kwlist; str.lstrip per documentation",
               "A_snake (assumed contract on str_to_snake_case, bounded stand-in only)"]
    regions = {
        # names whose first letter/digit is a digit: _0, _1a, __9 ... lose their leading underscores (trim or snake-casing)
        "leading-digit-after-underscores": lambda A: z3.And(
            z3.Or(V.vb(A.trim_leading_underscore), V.vb(A.convert_to_snake_case)),
            z3.InRe(V.vs(A.name), z3.Concat(z3.Plus(z3.Re("_")), z3.Range("0", "9"), z3.Star(models.RE_IDENT_CONT)))),
    }

    def setup(self, E):
        return [], dict(name=E.sym("name", GQ.NAME), convert_to_snake_case=E.sym_bool("convert_to_snake_case"),
                        plugin_manager=None, node=None, trim_leading_underscore=E.sym_bool("trim_leading_underscore"),
                        handle_pydantic_resrved_field_names=E.sym_bool("handle_pydantic_resrved_field_names"))

    def configure(self, ctx):
        ctx.prefer_cvc5 = False       # string theory: cvc5 decides these queries in ~0.1 s where z3 needs seconds

    def ensures(self, A, res):
        r = V.vs(res)
        return {"valid-identifier": z3.And(V.is_VStr(res), z3.InRe(r, models.RE_IDENT)),
                "not-a-keyword": z3.Not(is_kw(r)),
                "does-not-shadow-pydantic-attribute": z3.Implies(V.vb(A.handle_pydantic_resrved_field_names), z3.Not(is_reserved(r)))}

    def samples(self, tier):
        names = ["a", "fooBar", "class", "_class", "_0", "_copy", "copy", "__", "_", "modelDump", "from", "_a_", "A1b", "schema"]
        return [dict(name=n, convert_to_snake_case=s, plugin_manager=None, node=None, trim_leading_underscore=t,
                     handle_pydantic_resrved_field_names=h) for n in names for s in (False, True) for t in (False, True) for h in (False, True)]


CONTRACTS = [ProcessName(), StrToSnakeCase()]


# ------------------------------------------------------------------------------------------ bounded stand-ins

def _alnum(s):
    return [c.lower() for c in s if c.isalnum()]


def witness_leading_digit():
    rep = dict(inputs={}, failed=[], cases=[], outcome={})
    for name, kw in [("_0", dict(convert_to_snake_case=False, trim_leading_underscore=True)),
                     ("_1a", dict(convert_to_snake_case=True, trim_leading_underscore=False)),
                     ("__9", dict(convert_to_snake_case=True, trim_leading_underscore=True))]:
        r = U.process_name(name, **kw)
        rep["outcome"][name] = r
        if not r.isidentifier():
            rep["cases"].append(name)
    if rep["cases"]:
        rep["failed"].append("post.valid-identifier")
    return rep


def in_known_region(fail):
    i = fail.get("inputs", {})
    n = i.get("name", "")
    return bool(re.fullmatch(r"_+[0-9][_0-9A-Za-z]*", n)) and (i.get("trim_leading_underscore") or i.get("convert_to_snake_case")) \
        and [f.replace("post.", "") for f in fail.get("failed", [])] == ["valid-identifier"]


def bounded_names(tier, seed):
    """Exhaustive native check of the statement on the real process_name / str_to_snake_case over a reduced alphabet."""
    alphabet = "abAB1_"
    maxlen = 5 if tier == "quick" else 7
    starts = "abAB_"
    extra = []
    for kw in keyword.kwlist + getattr(keyword, "softkwlist", []) + RESERVED:
        for v in (kw, kw.capitalize(), kw.upper(), "_" + kw, kw + "_", "".join(p.capitalize() for p in kw.split("_")),
                  (lambda p: p[0] + "".join(x.capitalize() for x in p[1:]))(kw.split("_")) if "_" in kw else kw):
            if re.fullmatch(r"[_A-Za-z][_0-9A-Za-z]*", v):
                extra.append(v)
    cases = failures = 0
    fails = []
    snake_ok = re.compile(r"([a-z]+|[0-9]+)(_([a-z]+|[0-9]+))*|")

    def names():
        for n in range(1, maxlen + 1):
            for first in starts:
                for rest in itertools.product(alphabet, repeat=n - 1):
                    yield first + "".join(rest)
        yield from extra
    for name in names():
        sn = U.str_to_snake_case(name)
        cases += 1
        first = next((c for c in name if c.isalnum()), "")
        if not snake_ok.fullmatch(sn) or _alnum(sn) != _alnum(name) or (any(c.isalnum() for c in name) and not sn) \
                or (first.isalpha() and not sn[:1].isalpha()) or (not first and sn):
            fails.append(dict(inputs=dict(name=name, function="str_to_snake_case"), outcome=sn, failed=["A_snake"]))
        for snake in (False, True):
            for trim in (False, True):
                for pyd in (False, True):
                    cases += 1
                    r = U.process_name(name, convert_to_snake_case=snake, trim_leading_underscore=trim,
                                       handle_pydantic_resrved_field_names=pyd)
                    bad = []
                    if not r.isidentifier():
                        bad.append("valid-identifier")
                    if keyword.iskeyword(r):
                        bad.append("not-a-keyword")
                    if pyd and r in RESERVED:
                        bad.append("does-not-shadow-pydantic-attribute")
                    if r != "underscore_named_field_" and _alnum(r) != _alnum(name):
                        bad.append("keeps-every-letter-and-digit-in-order")
                    if U.process_name(name, convert_to_snake_case=snake, trim_leading_underscore=trim,
                                      handle_pydantic_resrved_field_names=pyd) != r:
                        bad.append("deterministic")
                    if bad:
                        fails.append(dict(inputs=dict(name=name, convert_to_snake_case=snake, trim_leading_underscore=trim,
                                                      handle_pydantic_resrved_field_names=pyd), outcome=r, failed=bad))
    return dict(function="ariadne_codegen.utils:process_name", name="bounded.names", kind="bounded stand-in (exhaustive, native)",
                domain=f"all names of length <= {maxlen} over '{alphabet}' starting with [abAB_], plus every keyword / soft keyword / "
                       f"public BaseModel attribute in 7 spellings, x snake on/off x trim on/off x pydantic flag on/off",
                cases=cases, failed=len(fails), failures=fails)


# ------------------------------------------------------------------------------------------ pairs of names in one scope
PAIRS = [("_id", "id"), ("fooBar", "foo_bar"), ("from", "from_"), ("__x", "_x"), ("Copy", "copy")]


def _pair_outcome(scope, a, b, snake):
    """'error' (generation refused), 'both' (both names usable), 'merged' (one silently lost), 'broken' (package does not load)"""
    from . import e2e
    enum_vals = f"{a} {b}" if scope == "enum-values" else "X Y"
    fields = f"{a}: Int {b}: Int" if scope in ("input-fields", "response-keys") else "p: Int q: Int"
    sdl = f"type Query {{ item(f: F, {a if scope == 'variables' else 'v1'}: Int, {b if scope == 'variables' else 'v2'}: Int): Item }}\n" \
          f"type Item {{ {fields} e: E sub: Item }}\ninput F {{ {fields} }}\nenum E {{ {enum_vals} }}\n"
    sel = f"{a} {b}" if scope == "response-keys" else "p q e" if scope != "input-fields" else "e"
    if scope == "variables":
        q = f"query Q(${a}: Int, ${b}: Int) {{ item({a}: ${a}, {b}: ${b}) {{ p }} }}"
    else:
        q = f"query Q($f: F) {{ item(f: $f) {{ {sel} }} }}"
    try:
        g = e2e.generate_client(sdl, q, convert_to_snake_case=snake)
    except Exception:      # noqa: any refusal is an acceptable outcome of the statement
        return "error"
    try:
        try:
            if scope == "input-fields":
                aliases = {f.alias or n for n, f in g.module("input_types").F.model_fields.items()}
                return "both" if {a, b} <= aliases else "merged"
            if scope == "response-keys":
                aliases = {f.alias or n for n, f in g.module("q").QItem.model_fields.items()}
                return "both" if {a, b} <= aliases else "merged"
            if scope == "enum-values":
                values = {m.value for m in g.module("enums").E}
                return "both" if {a, b} <= values else "merged"
            import ast as _ast
            fn = next(n for n in _ast.walk(_ast.parse(g.read("client.py"))) if isinstance(n, (_ast.FunctionDef, _ast.AsyncFunctionDef)) and n.name == "q")
            params = [x.arg for x in fn.args.args if x.arg != "self"]
            g.module("client")
            return "both" if len(set(params)) >= 2 and len(params) == len(set(params)) else "merged"
        except Exception:   # noqa
            return "broken"
    finally:
        g.cleanup()


def bounded_pairs(tier, seed):
    """second sentence of the statement: `two distinct names in one scope are never silently merged into one Python name:
    both remain usable or generation fails with an error` - end to end on the real generator"""
    cases, fails = 0, []
    for scope in ("input-fields", "response-keys", "variables", "enum-values"):
        for a, b in PAIRS:
            if scope == "enum-values" and not (a[0].isalpha() or a[0] == "_"):
                continue
            for snake in (True, False):
                cases += 1
                out = _pair_outcome(scope, a, b, snake)
                if out in ("merged", "broken"):
                    fails.append(dict(inputs=dict(scenario=f"{scope}:{a}/{b}:snake={snake}"), outcome=out,
                                      failed=["distinct-names-never-silently-merged"]))
    # an operation whose module name coincides with a module of the package itself: refused, or both remain usable
    from . import e2e
    for op in ("exceptions", "Exceptions", "enums", "Client", "InputTypes", "base_model", "async_base_client", "fragments"):
        cases += 1
        sdl = "type Query { item: Item }\ntype Item { p: Int }\n"
        try:
            g = e2e.generate_client(sdl, f"fragment F on Item {{ p }} query {op} {{ item {{ ...F }} }}")
        except Exception:       # noqa: refused
            continue
        try:
            g.module()
            for m in ("client", "exceptions", "enums", "input_types", "base_model", "async_base_client", "fragments"):
                g.module(m)
            g.module("exceptions").GraphQLClientHttpError
            g.module("fragments").F
        except Exception as e:  # noqa
            fails.append(dict(inputs=dict(scenario=f"operation-vs-package-module:{op}"), outcome=f"{type(e).__name__}: {str(e)[:120]}",
                              failed=["distinct-names-never-silently-merged"]))
        finally:
            g.cleanup()
    return dict(function="ariadne_codegen.main:client", name="bounded.name-pairs", kind="bounded stand-in (end-to-end, native)",
                domain=f"{len(PAIRS)} pairs of distinct GraphQL names that map to one Python name x 4 scopes (input fields, response keys, "
                       "variables of one operation, values of one enum) x snake-case on/off",
                cases=cases, failed=len(fails), failures=fails)


def witness_pairs():
    out = bounded_pairs("quick", 0)
    cases = sorted(f["inputs"]["scenario"] for f in out["failures"])
    return dict(inputs={"scenario": "name-pairs"}, cases=cases, failed=["distinct-names-never-silently-merged"] if cases else [])


# ------------------------------------------------------------------------------------------ the original name stays the wire name
WIRE_NAMES = ["_id", "_key", "from", "class", "camelCase", "schema", "modelDump", "copy", "plain", "UPPER", "with_under", "a1b2"]


# operation names with upper-case runs and digits: method, module and result class are derived from one name each
ACRONYM_OPERATIONS = ["getUserByID", "listHTTPCodes", "XMLExport", "get2FAStatus", "fetch_URL_v2"]


def bounded_wire_names(tier, seed):
    """`every GraphQL name that becomes a Python name ... the original name stays the wire name`: end to end, snake-casing on
    and off: response keys, input fields, variables (incl. a variable of a custom scalar with a serializer) and enum
    values named like keywords / underscore-prefixed / camelCase / BaseModel attributes: the response is accepted and every
    key readable, the input model and the variables travel under the GraphQL names"""
    import asyncio
    import json
    import httpx
    from . import e2e
    fields = " ".join(f"{n}: String" for n in WIRE_NAMES)
    sdl = (f"scalar Stamp\nenum E {{ from class _x Plain }}\ntype Item {{ {fields} e: E sub: Item }}\ninput In {{ {fields} }}\n"
           f"type Query {{ item(i: In, {', '.join(n + ': String' for n in WIRE_NAMES)}, createdAfter: Stamp, from_stamp: Stamp): Item }}\n")
    var_defs = ", ".join(f"${n}: String" for n in WIRE_NAMES)
    var_use = ", ".join(f"{n}: ${n}" for n in WIRE_NAMES)
    q = (f"query Q($i: In, {var_defs}, $createdAfter: Stamp, $from_stamp: Stamp) {{ item(i: $i, {var_use}, createdAfter: $createdAfter, from_stamp: $from_stamp) "
         f"{{ {' '.join(WIRE_NAMES)} e firstCopy: plain second_copy: plain left: sub {{ plain }} rightSide: sub {{ e }} Sub: sub {{ plain }} }} }}"
         + "".join(f" query {n} {{ item {{ plain }} }}" for n in ACRONYM_OPERATIONS))
    cases, fails = 0, []
    for snake in (True, False):
        cases += 1
        g = None
        bad = []
        try:
            g = e2e.generate_client(sdl, q, convert_to_snake_case=snake,
                                    scalars={"Stamp": {"type": "str", "serialize": "pyvc_stamp.ser", "parse": "pyvc_stamp.par"}})
            import sys
            import types
            m = types.ModuleType("pyvc_stamp")
            m.ser = lambda v: "ser:" + str(v)
            m.par = lambda v: "par:" + str(v)
            sys.modules["pyvc_stamp"] = m
            sent = []
            data = {"item": dict({n: "v-" + n for n in WIRE_NAMES}, e="from", firstCopy="c1", second_copy="c2", left={"plain": "lp"}, rightSide={"e": "class"}, Sub={"plain": "sp"})}

            def handler(request):
                sent.append(json.loads(request.content))
                return httpx.Response(200, json={"data": data})
            mod = g.module("client")
            it = g.module("input_types")
            In = it.In
            by_alias = {(f.alias or n): n for n, f in In.model_fields.items()}
            if set(by_alias) != set(WIRE_NAMES):
                bad.append(f"input-fields-keep-their-graphql-names: {sorted(set(WIRE_NAMES) ^ set(by_alias))}")
            inp = In(**{n: "i-" + n for n in WIRE_NAMES if n in by_alias})
            import inspect
            client = mod.Client(url="http://x/graphql", http_client=httpx.AsyncClient(transport=httpx.MockTransport(handler)))
            params = [p for p in inspect.signature(client.q).parameters if p not in ("kwargs",)]
            if len(params) != len(WIRE_NAMES) + 3:
                bad.append(f"one-parameter-per-variable: {params}")
            # map python parameter -> graphql name through the variables dict of a call with distinct values
            kw = {p: f"arg-{k}" for k, p in enumerate(params) if p != "i"}
            kw["i"] = inp
            res = asyncio.run(client.q(**kw))
            got = sent[-1]["variables"]
            want_names = set(WIRE_NAMES) | {"i", "createdAfter", "from_stamp"}
            if set(got) != want_names:
                bad.append(f"variables-travel-under-their-graphql-names: {sorted(set(got) ^ want_names)}")
            if got.get("i") != {n: "i-" + n for n in WIRE_NAMES}:
                bad.append("input-model-travels-under-the-graphql-field-names")
            for special in ("createdAfter", "from_stamp"):
                if not str(got.get(special, "")).startswith("ser:arg-"):
                    bad.append(f"custom-scalar-variable-serialised-once: {special}={got.get(special)!r}")
            item = res.item
            falias = {(f.alias or n): n for n, f in type(item).model_fields.items()}
            missing = [n for n in WIRE_NAMES if n not in falias]
            if missing:
                bad.append(f"response-keys-are-fields-of-the-model: {missing}")
            wrong = [n for n in WIRE_NAMES if n in falias and getattr(item, falias[n]) != "v-" + n]
            if wrong:
                bad.append(f"response-values-readable-under-the-mapped-name: {wrong}")
            for k2, v2 in (("firstCopy", "c1"), ("second_copy", "c2")):
                if k2 not in falias or getattr(item, falias[k2]) != v2:
                    bad.append(f"two-aliases-of-one-field-both-readable: {k2}")
            # two response keys of one object field with different selections: each keeps its own shape
            try:
                lp = getattr(getattr(item, falias["left"]), "plain", None)
                re_ = getattr(getattr(item, falias["rightSide"]), "e", None)
                if lp != "lp" or getattr(re_, "value", re_) != "class":
                    bad.append(f"two-aliases-of-one-object-field-keep-their-own-selections: left.plain={lp!r} rightSide.e={re_!r}")
            except Exception as e:      # noqa
                bad.append(f"two-aliases-of-one-object-field-keep-their-own-selections: {type(e).__name__}: {str(e)[:120]}")
            # an alias whose mapped Python name is the name of the field it aliases (Sub: sub): the response key is still the alias
            if "Sub" not in falias or getattr(getattr(item, falias.get("Sub", "Sub"), None), "plain", None) != "sp":
                bad.append("alias-that-maps-back-to-the-field-name-keeps-its-response-key")
            for opname in ACRONYM_OPERATIONS:
                key = opname.replace("_", "").lower()
                meth = [a for a in dir(client) if a.replace("_", "").lower() == key]
                if len(meth) != 1:
                    bad.append(f"operation-has-one-method: {opname} -> {meth}")
                    continue
                data = {"item": {"plain": "p-" + opname}}
                r2 = asyncio.run(getattr(client, meth[0])())
                if sent[-1].get("operationName") != opname or f"query {opname}" not in sent[-1]["query"]:
                    bad.append(f"operation-name-stays-the-wire-name: {opname} sent as {sent[-1].get('operationName')!r}")
                if getattr(getattr(r2, "item", None), "plain", None) != "p-" + opname:
                    bad.append(f"operation-result-readable: {opname}")
            en = g.module("enums").E
            if {x.value for x in en} != {"from", "class", "_x", "Plain"}:
                bad.append("enum-values-keep-their-graphql-names")
        except Exception as e:      # noqa
            bad.append(f"raises-{type(e).__name__}: {str(e)[:160]}")
        finally:
            if g is not None:
                g.cleanup()
        if bad:
            fails.append(dict(inputs=dict(scenario=f"wire-names:snake={snake}"), failed=bad, outcome=None))
    return dict(function="ariadne_codegen.main:client", name="bounded.wire-names", kind="bounded stand-in (end-to-end, native)",
                domain=f"{len(WIRE_NAMES)} names (underscore-prefixed, keywords, camelCase, BaseModel attributes, upper case, digits) as response keys, "
                       "input fields and variables + 2 custom-scalar variables + 4 enum values, snake-casing on/off",
                cases=cases, failed=len(fails), failures=fails)
