"""Bounded end-to-end stand-in for C14: builder expression trees on a client generated with enable_custom_operations.
Every produced document is parsed, validated against the schema with graphql-core's full rule set, its variable
definitions are compared with the schema's argument types, and the variables payload with the caller's values."""
import asyncio
import json
import httpx
import graphql as G
from .e2e import generate_client

SCHEMA = """
interface Node { id: ID! }
type Tag { id: ID! label: String }
type Post implements Node { id: ID! title: String tags(tagIds: [ID!]!, first: Int): [Tag!] privateMeta: Meta }
type Meta { key: String value: String }
type User implements Node { id: ID! userName: String posts(first: Int, orderBy: String): [Post!] comments(first: Int): [Post!] bestFriend: User privateMeta: Meta
  pinned(maxHits: Int = 5): Actor
  metaField(key: String!): String }
type Bot implements Node { id: ID! model: String }
union Actor = User | Bot
type Query { findUser(id: ID): User user(id: ID!): User users(ids: [ID!]!, first: Int): [User!] me: User actor(id: ID!): Actor node(id: ID!): Node
  findPost(key: ID!): Post post(key: ID): Post matrix(rows: [[Int!]!]!, opt: [[ID]]): Int }
type Mutation { rename(id: ID!, newName: String!): User }
"""


SCHEMA_KEYWORDS = """
type Party { name: String }
type Transfer { id: ID! from: String class: String camelCase: Int import(global: Int): Party }
type Query { transfer(id: ID!): Transfer }
"""


def _run(pkg, fields, name="Op", mutation=False):
    sent = []

    def handler(request):
        sent.append(json.loads(request.content))
        return httpx.Response(200, json={"data": {}})
    client = pkg.Client(url="http://x/graphql", http_client=httpx.AsyncClient(transport=httpx.MockTransport(handler)))
    op = client.mutation if mutation else client.query
    asyncio.run(op(*fields, operation_name=name))
    return sent[-1]


def _check_document(schema, payload, expect_values):
    problems = []
    doc = G.parse(payload["query"])
    errs = G.validate(schema, doc)
    if errs:
        problems.append("invalid: " + "; ".join(e.message for e in errs)[:300])
    op = doc.definitions[0]
    declared = {v.variable.name.value: G.print_ast(v.type) for v in op.variable_definitions}
    if set(declared) != set(payload.get("variables") or {}):
        problems.append(f"declared {sorted(declared)} vs sent {sorted(payload.get('variables') or {})}")
    if sorted((payload.get("variables") or {}).values(), key=repr) != sorted(expect_values, key=repr):
        problems.append(f"values {payload.get('variables')} != expected {expect_values}")
    return problems


def run_cases():
    rep = dict(inputs={"schema": "users/posts/tags"}, failed=[], undetermined=[], pre_ok=True, outcome={}, error=None, cases=[])
    g = None
    try:
        g = generate_client(SCHEMA, None, enable_custom_operations=True)
        pkg = g.module()
        cf = g.module("custom_fields")
        cq = g.module("custom_queries")
        cm = g.module("custom_mutations")
        schema = G.build_schema(SCHEMA)
        Q, U, P, T = cq.Query, cf.UserFields, cf.PostFields, cf.TagFields

        def case(name, build, expect_values, mutation=False, extra=None, payload_fn=None):
            try:
                payload = payload_fn() if payload_fn else _run(pkg, build(), mutation=mutation)
                problems = _check_document(schema, payload, expect_values)
                if extra:
                    problems += extra(payload)
            except Exception as e:   # noqa
                payload, problems = None, [f"{type(e).__name__}: {str(e)[:200]}"]
            rep["outcome"][name] = problems or "ok"
            if problems:
                rep["cases"].append(name)
        case("args-on-top-level-field", lambda: [Q.users(ids=["1"], first=2).fields(U.id)], [["1"], 2])
        case("none-arguments-omitted", lambda: [Q.users(ids=["1"]).fields(U.id)], [["1"]])
        case("args-on-sub-field", lambda: [Q.me().fields(U.posts(first=3).fields(P.id))], [3])
        case("args-on-grandchild-field", lambda: [Q.me().fields(U.posts().fields(P.tags(tag_ids=["t"]).fields(T.id)))], [["t"]])
        case("same-argument-name-at-two-levels", lambda: [Q.users(ids=["1"], first=1).fields(U.posts(first=2).fields(P.id))], [["1"], 1, 2])
        case("two-top-level-fields", lambda: [Q.users(ids=["1"]).fields(U.id), Q.me().fields(U.user_name)], [["1"]])
        case("camel-case-object-field", lambda: [Q.me().fields(U.private_meta().fields(cf.MetaFields.key))], [])
        case("camel-case-scalar-field-with-argument", lambda: [Q.me().fields(U.meta_field(key="k"))], ["k"])
        case("alias", lambda: [Q.me().alias("self").fields(U.id)], [],
             extra=lambda p: [] if "self: me" in p["query"] else ["alias not emitted"])
        case("inline-fragments-on-union", lambda: [Q.actor(id="1").on("User", U.id, U.user_name).on("Bot", cf.BotFields.model)], ["1"])
        case("interface-field-with-common-sub-fields-and-inline-fragments", lambda: [Q.node(id="1").fields(cf.NodeInterface.id).on("User", U.user_name).on("Bot", cf.BotFields.model)], ["1"],
             extra=lambda p: [] if all(x in p["query"] for x in ("id", "... on User", "userName", "... on Bot", "model")) and p["query"].count(" id") >= 1 and
             __import__("re").search(r"node\(id: \$id_0\) \{\s+id\b", p["query"]) else ["common sub-field or inline fragment missing: " + p["query"].replace("\n", " ")])
        case("mutation-with-required-args", lambda: [cm.Mutation.rename(id="1", new_name="n").fields(U.id)], ["1", "n"], mutation=True)

        case("same-argument-list-different-nullability-1", lambda: [Q.find_user(id="1").fields(U.id), Q.user(id="2").fields(U.id)], ["1", "2"])
        case("same-argument-list-different-nullability-2", lambda: [Q.find_post(key="1").fields(P.id), Q.post().fields(P.id)], ["1"])

        case("siblings-with-the-same-argument-name-under-an-argument-less-parent",
             lambda: [Q.me().fields(U.posts(first=1).fields(P.id), U.comments(first=2).fields(P.id))], [1, 2],
             extra=lambda p: [] if len(set(p["variables"])) == 2 else ["one variable for two arguments"])
        case("nested-list-arguments", lambda: [Q.matrix(rows=[[1, 2], [3]], opt=[["a", None], None])], [[[1, 2], [3]], [["a", None], None]])
        case("same-field-twice-under-different-aliases",
             lambda: [Q.me().fields(U.meta_field(key="a").alias("x"), U.meta_field(key="b").alias("y"), U.posts(first=1).alias("p1").fields(P.id),
                                    U.posts(first=2).alias("p2").fields(P.title))], ["a", "b", 1, 2],
             extra=lambda p: [] if all(f"{a}:" in p["query"] for a in ("x", "y", "p1", "p2")) else ["an aliased selection is missing: " + p["query"].replace("\n", " ")])
        case("inline-fragments-with-arguments-below-the-top-level",
             lambda: [Q.me().fields(U.pinned(max_hits=2).on("User", U.posts(first=7).fields(P.id)).on("Bot", cf.BotFields.model))], [2, 7])
        # a nested abstract field selected ONLY through .on(...) (no arguments, no plain sub-fields of its own) whose inline
        # fragments hold fields with arguments - at depth 2 and 3, next to a sibling with the same argument name
        case("argument-less-abstract-field-selected-only-through-inline-fragments",
             lambda: [Q.users(ids=["1"]).fields(U.pinned().on("User", U.meta_field(key="k")).on("Bot", cf.BotFields.model), U.meta_field(key="outer").alias("m"))],
             [["1"], "k", "outer"])
        case("inline-fragments-only-two-levels-deep",
             lambda: [Q.me().fields(U.best_friend().fields(U.pinned().on("User", U.posts(first=4).fields(P.tags(tag_ids=["x"]).fields(T.id)))))], [4, ["x"]])
        case("camel-case-optional-argument-left-as-none-is-omitted",
             lambda: [Q.me().fields(U.pinned().on("Bot", cf.BotFields.model), U.posts(order_by=None).fields(P.id))], [])
        # falsy argument values are values: declared and transmitted (only None means "not given")
        case("falsy-int-argument", lambda: [Q.users(ids=["1"], first=0).fields(U.id)], [["1"], 0])
        case("empty-list-argument", lambda: [Q.users(ids=[]).fields(U.id)], [[]])
        case("empty-string-arguments", lambda: [Q.me().fields(U.posts(order_by="").fields(P.id), U.meta_field(key=""))], ["", ""])
        case("falsy-arguments-in-mutation", lambda: [cm.Mutation.rename(id="", new_name="").fields(U.id)], ["", ""], mutation=True)

        def same_signature_different_selection():
            _run(pkg, [Q.users(ids=["1"]).fields(U.id)], name="Same")
            return _run(pkg, [Q.users(ids=["2"]).fields(U.user_name)], name="Same")
        case("history-free-same-name-and-variable-signature", None, [["2"]], payload_fn=same_signature_different_selection,
             extra=lambda p: [] if "userName" in p["query"] and " id" not in p["query"].replace("ids", "") else ["selection of an earlier operation reused: " + p["query"].replace("\n", " ")])

        def reused():
            bio = U.meta_field(key="bio").alias("b")
            _run(pkg, [Q.me().fields(bio)])
            return _run(pkg, [Q.me().fields(U.meta_field(key="other").alias("a"), bio)])
        case("builder-object-reused-in-a-later-operation", None, ["other", "bio"], payload_fn=reused)

        def rebuilt():
            mk_ = lambda: [Q.users(ids=["1"], first=2).fields(U.id, U.posts(first=3).fields(P.id)), Q.user(id="9").fields(U.id)]   # noqa: E731
            first = _run(pkg, mk_(), name="Again")
            second = _run(pkg, mk_(), name="Again")          # the same expression, new objects, a new client
            return second if first == second else dict(second, query="DIFFERS FROM THE FIRST BUILD: " + second["query"])
        case("history-free-same-expression-built-twice-sends-the-same-request", None, [["1"], 2, 3, "9"], payload_fn=rebuilt,
             extra=lambda p: ["the same expression produced a different request after an earlier operation"] if p["query"].startswith("DIFFERS") else [])

        def history():
            first = _run(pkg, [Q.me().fields(U.id.alias("pid"))])
            second = _run(pkg, [Q.me().fields(U.id)])
            return second
        case("history-free-after-alias-on-shared-field", None, [], payload_fn=history,
             extra=lambda p: [] if "pid" not in p["query"] else ["alias from an earlier operation leaked: " + p["query"].replace("\n", " ")])
    except Exception as e:   # noqa
        rep["outcome"]["generation"] = f"{type(e).__name__}: {str(e)[:300]}"
        rep["cases"].append("generation")
    finally:
        if g is not None:
            g.cleanup()
    # snake-casing off: the Python attribute of a keyword-named field is escaped, the document keeps the GraphQL name
    g = None
    try:
        g = generate_client(SCHEMA_KEYWORDS, None, enable_custom_operations=True, convert_to_snake_case=False)
        pkg = g.module()
        cf = g.module("custom_fields")
        cq = g.module("custom_queries")
        schema = G.build_schema(SCHEMA_KEYWORDS)
        T = cf.TransferFields

        def kw_case(name, build, expect_values):
            try:
                payload = _run(pkg, build())
                problems = _check_document(schema, payload, expect_values)
            except Exception as e:   # noqa
                problems = [f"{type(e).__name__}: {str(e)[:200]}"]
            rep["outcome"][name] = problems or "ok"
            if problems:
                rep["cases"].append(name)
        kw_case("no-snake-case:keyword-named-scalar-fields", lambda: [cq.Query.transfer(id="1").fields(getattr(T, "from_"), getattr(T, "class_"), T.camelCase)], ["1"])
        kw_case("no-snake-case:keyword-named-object-field-and-argument",
                lambda: [cq.Query.transfer(id="1").fields(getattr(T, "import_")(**{"global_": 0}).fields(cf.PartyFields.name))], ["1", 0])
    except Exception as e:   # noqa
        rep["outcome"]["generation-no-snake-case"] = f"{type(e).__name__}: {str(e)[:300]}"
        rep["cases"].append("generation-no-snake-case")
    finally:
        if g is not None:
            g.cleanup()
    # configured scalars in builder arguments - also a built-in scalar that the configuration maps to another type
    g = None
    try:
        g = generate_client(SCHEMA_SCALAR_ARGS, None, enable_custom_operations=True,
                            scalars={"ID": {"type": "str", "serialize": "json.dumps"}, "Stamp": {"type": "str", "serialize": "json.dumps"}})
        pkg, cf, cq = g.module(), g.module("custom_fields"), g.module("custom_queries")
        schema = G.build_schema(SCHEMA_SCALAR_ARGS)
        for name, build, expect in (
                ("configured-builtin-scalar-argument-goes-through-its-serialize", lambda: [cq.Query.item(id="7", at="u", n=3).fields(cf.ItemFields.name)], ['"7"', '"u"', 3]),
                ("configured-custom-scalar-argument-next-to-plain-ones", lambda: [cq.Query.item(id="8", at="t", n=0, label="l").fields(cf.ItemFields.name)], ['"8"', '"t"', 0, "l"])):
            try:
                payload = _run(pkg, build())
                problems = _check_document(schema, payload, expect)
            except Exception as e:   # noqa
                problems = [f"{type(e).__name__}: {str(e)[:200]}"]
            rep["outcome"][name] = problems or "ok"
            if problems:
                rep["cases"].append(name)
    except Exception as e:   # noqa
        rep["outcome"]["generation-scalar-arguments"] = f"{type(e).__name__}: {str(e)[:300]}"
        rep["cases"].append("generation-scalar-arguments")
    finally:
        if g is not None:
            g.cleanup()
    if rep["cases"]:
        rep["failed"].append("bounded.builder-documents")
    return rep


SCHEMA_SCALAR_ARGS = """
scalar Stamp
type Item { name: String }
type Query { item(id: ID!, at: Stamp!, n: Int, label: String): Item }
"""


def bounded_builder(tier, seed):
    r = run_cases()
    fails = [dict(inputs={"scenario": c}, outcome=r["outcome"].get(c), failed=["bounded.builder-documents"]) for c in r["cases"]]
    return dict(function="ariadne_codegen.client_generators.dependencies.base_operation:GraphQLField", name="bounded.builder-documents",
                kind="bounded stand-in (scenario list, end to end)", domain=f"{len(r['outcome'])} builder expression trees (depth <= 3) on one schema",
                cases=len(r["outcome"]), failed=len(fails), failures=fails)


KNOWN_CASES = {"history-free-after-alias-on-shared-field"}


def is_known_case(rep):
    return rep.get("inputs", {}).get("scenario") in KNOWN_CASES
