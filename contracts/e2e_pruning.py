"""Replay vehicle for C09 at package level: generate with the given flag combination on a schema whose enums are used
only by input types / only by results / only by variables, import the package and compare with the independently
computed closure."""
import graphql as G
from .e2e import generate_client

SCHEMA = """
enum OnlyInInput { A B }
enum OnlyInNestedInput { C D }
enum OnlyInResult { E F }
enum OnlyAsVariable { G H }
enum Orphan { I J }
input Inner { kind: OnlyInNestedInput }
input Used { inner: Inner, label: OnlyInInput = A }
input Unused { label: OnlyInInput }
type Item { state: OnlyInResult }
type Query { items(f: Used, v: OnlyAsVariable): [Item] }
"""
QUERY = "query GetItems($f: Used, $v: OnlyAsVariable) { items(f: $f, v: $v) { state } }"


def check_pruning(include_all_inputs=True, include_all_enums=False):
    rep = dict(inputs=dict(include_all_inputs=include_all_inputs, include_all_enums=include_all_enums), failed=[], undetermined=[],
               pre_ok=True, outcome={}, error=None)
    g = None
    try:
        g = generate_client(SCHEMA, QUERY, include_all_inputs=bool(include_all_inputs), include_all_enums=bool(include_all_enums))
        pkg = g.module()
        enums = g.module("enums")
        inputs = g.module("input_types")
        have_enums = {n for n in dir(enums) if isinstance(getattr(enums, n), type) and n not in ("Enum",)}
        have_inputs = {n for n in dir(inputs) if isinstance(getattr(inputs, n), type) and hasattr(getattr(inputs, n), "model_fields") and n != "BaseModel"}
        need_inputs = {"Used", "Inner"} | (set() if not include_all_inputs else {"Unused"})
        need_enums = {"OnlyInInput", "OnlyInNestedInput", "OnlyInResult", "OnlyAsVariable"}
        rep["outcome"] = dict(enums=sorted(have_enums), inputs=sorted(have_inputs))
        if not need_inputs <= have_inputs or (not include_all_inputs and "Unused" in have_inputs):
            rep["failed"].append("post.pruned-iff-include_all_inputs-is-off/pruning-roots-are-the-inputs-used-by-operations")
        if not need_enums <= have_enums or (not include_all_enums and "Orphan" in have_enums):
            rep["failed"].append("post.enums-of-retained-inputs-recorded-for-enum-pruning")
    except Exception as e:   # noqa: generation or import failed
        rep["outcome"] = {"raise": type(e).__name__, "message": str(e)[:300]}
        rep["failed"].append("post.enums-of-retained-inputs-recorded-for-enum-pruning")
    finally:
        if g is not None:
            g.cleanup()
    return rep
