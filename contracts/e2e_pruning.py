"""Replay vehicle for C09 at package level: generate with the given flag combination on a schema whose enums are used
only by input types / only by results / only by variables, import the package and compare with the independently
computed closure."""
import graphql as G
from .e2e import generate_client

SCHEMA = """
enum OnlyInInput { A B }
enum OnlyInNestedInput { C D }
enum OnlyInResult { E F }
enum OnlyAsVariable { G H }
enum Orphan { I J }
input Inner { kind: OnlyInNestedInput }
input Used { inner: Inner, label: OnlyInInput = A }
input Unused { label: OnlyInInput }
type Item { state: OnlyInResult }
type Query { items(f: Used, v: OnlyAsVariable): [Item] }
"""
QUERY = "query GetItems($f: Used, $v: OnlyAsVariable) { items(f: $f, v: $v) { state } }"


def check_pruning(include_all_inputs=True, include_all_enums=False):
    rep = dict(inputs=dict(include_all_inputs=include_all_inputs, include_all_enums=include_all_enums), failed=[], undetermined=[],
               pre_ok=True, outcome={}, error=None)
    g = None
    try:
        g = generate_client(SCHEMA, QUERY, include_all_inputs=bool(include_all_inputs), include_all_enums=bool(include_all_enums))
        pkg = g.module()
        enums = g.module("enums")
        inputs = g.module("input_types")
        have_enums = {n for n in dir(enums) if isinstance(getattr(enums, n), type) and n not in ("Enum",)}
        have_inputs = {n for n in dir(inputs) if isinstance(getattr(inputs, n), type) and hasattr(getattr(inputs, n), "model_fields") and n != "BaseModel"}
        need_inputs = {"Used", "Inner"} | (set() if not include_all_inputs else {"Unused"})
        need_enums = {"OnlyInInput", "OnlyInNestedInput", "OnlyInResult", "OnlyAsVariable"}
        rep["outcome"] = dict(enums=sorted(have_enums), inputs=sorted(have_inputs))
        if not need_inputs <= have_inputs or (not include_all_inputs and "Unused" in have_inputs):
            rep["failed"].append("post.pruned-iff-include_all_inputs-is-off/pruning-roots-are-the-inputs-used-by-operations")
        if not need_enums <= have_enums or (not include_all_enums and "Orphan" in have_enums):
            rep["failed"].append("post.enums-of-retained-inputs-recorded-for-enum-pruning")
    except Exception as e:   # noqa: generation or import failed
        rep["outcome"] = {"raise": type(e).__name__, "message": str(e)[:300]}
        rep["failed"].append("post.enums-of-retained-inputs-recorded-for-enum-pruning")
    finally:
        if g is not None:
            g.cleanup()
    return rep


# ------------------------------------------------------------------------------------------ the statement on whole packages
SCENARIOS = {
    "nested-inputs-and-enums": (SCHEMA, QUERY, {}),
    "input-reachable-only-through-list-of-lists": ("""
        enum CellKind { X Y }
        enum Unused2 { U V }
        input Cell { kind: CellKind! note: String }
        input Grid { rows: [[Cell!]!]! name: String }
        input Flat { cells: [Cell] }
        input NotUsed { u: Unused2 }
        type Query { g(grid: Grid): Int f(flat: Flat): Int }
        """, "query G($grid: Grid) { g(grid: $grid) }", {}),
    "enum-only-as-variable-of-the-last-operation": ("""
        enum First { A } enum Last { B } enum Never { C }
        input I { n: Int }
        type Query { a(v: First, i: I): Int b(v: Last): Int }
        """, "query OpA($v: First, $i: I) { a(v: $v, i: $i) } query OpB { a } query OpC($v: Last) { b(v: $v) }", {}),
    "no-input-object-variable-at-all": ("""
        enum E1 { A } enum OnlyInUnusedInput { B }
        input Unused { e: OnlyInUnusedInput }
        type T { e: E1 }
        type Query { t(n: Int, u: Unused): T }
        """, "query Q($n: Int) { t(n: $n) { e } }", {}),
    "custom-scalar-only-in-a-nested-input": ("""
        scalar Money
        input Price { amount: Money! }
        input Order { price: Price note: String }
        input Other { m: Money }
        type Query { o(order: Order): Int }
        """, "query O($order: Order) { o(order: $order) }", {"scalars": {"Money": {"type": "decimal.Decimal"}}}),
    "fragment-with-own-enum-that-spreads-another-fragment": ("""
        enum Shade { DARK LIGHT } enum Form { ROUND SQUARE } enum Unused3 { Z }
        type Thing { shade: Shade form: Form name: String inner: Thing }
        type Query { thing: Thing }
        """, "fragment Base on Thing { name form } fragment Top on Thing { shade ...Base inner { ...Base } } query T { thing { ...Top } }", {}),
    "enum-field-selected-next-to-a-fragment-spread-that-becomes-a-base-class": ("""
        enum Kind { K1 K2 } enum Tone { T1 } enum InFragment { F1 } enum Unused4 { U }
        type Thing { kind: Kind tone: Tone f: InFragment name: String child: Thing }
        type Query { thing: Thing }
        """, "fragment TF on Thing { name f } query GetT { thing { kind ...TF child { tone ...TF } } }", {}),
    "list-variables-with-non-null-items-of-inputs-and-enums": ("""
        enum E { A } enum E2 { B } enum EU { C }
        input I { e: E2 } input J { n: Int } input Never { u: EU }
        type Query { q(items: [I!]!, modes: [E!], grid: [[J!]]): Int }
        """, "query Q($items: [I!]!, $modes: [E!], $grid: [[J!]]) { q(items: $items, modes: $modes, grid: $grid) }", {}),
    "enums-only-in-list-typed-result-fields": ("""
        enum Label { L1 L2 } enum Stage { S1 } enum Role2 { R } enum Unused5 { U }
        type Thing { labels: [Label!]! grid: [[Stage]] name: String owners: [Person!] }
        type Person { roles: [Role2!] }
        type Query { thing: Thing }
        """, "fragment P on Person { roles } query GetThing { thing { labels grid owners { ...P } } }", {}),
    "custom-operations-enabled-next-to-operations": ("""
        enum Used { A } enum OnlyInSchema { B } enum ArgEnum { C }
        input In { n: Int }
        type Item { u: Used other: OnlyInSchema sub(kind: ArgEnum): Item }
        type Query { item(i: In): Item }
        """, "query Q { item { u } }", {"enable_custom_operations": True}),
    # an enum selected only for one possible type of an abstract position: a union member that is not the first, an implementation
    # reached through an inline fragment / a fragment on the sub-type
    "enum-selected-only-for-a-later-member-of-an-abstract-position": ("""
        enum Coat { SHORT LONG } enum Tail { CURLY } enum Mood { CALM } enum Perch { HIGH } enum UnusedHere { U }
        interface Animal { name: String }
        type Cat implements Animal { name: String mood: Mood }
        type Dog implements Animal { name: String coat: Coat tail: Tail }
        type Bird implements Animal { name: String perch: Perch }
        union Pet = Cat | Dog | Bird
        type Query { pets: [Pet!] animal: Animal }
        """, "fragment OnBird on Bird { perch } query Pets { pets { ... on Cat { name } ... on Dog { coat } } animal { name ... on Dog { tail } ...OnBird } }", {}),
    # input objects and enums written as literals in the operation text: no generated Python code mentions their types
    "inline-literal-arguments-of-input-and-enum-type": ("""
        enum State { OPEN CLOSED } enum Order { ASC DESC } enum Prio { HIGH } enum ViaVariable { V }
        input Range { from: Int to: Int }
        input Filter { state: State range: Range }
        input Paging { first: Int prio: Prio }
        type Ticket { id: ID! }
        type Query { tickets(filter: Filter, order: Order, paging: Paging, v: ViaVariable): [Ticket!] }
        """, "query Tickets($paging: Paging, $v: ViaVariable) { tickets(filter: {state: OPEN, range: {from: 1}}, order: DESC, paging: $paging, v: $v) { id } }", {}),
    "diamond-repeated-type-and-cycle": ("""
        enum K { A } enum K2 { B } enum KUnused { C }
        input Leaf { k: K }
        input Left { leaf: Leaf again: Leaf tail: Tail }
        input Tail { k2: K2 back: Root }
        input Right { leaf: Leaf }
        input Root { left: Left right: Right self: Root after: After }
        input After { n: Int }
        input Unreached { k: KUnused }
        type Query { r(root: Root): Int }
        """, "query R($root: Root) { r(root: $root) }", {}),
}


def _argument_closure(schema):
    """(input types, enums) reachable from the arguments of any field of the schema (what custom operations can send)"""
    inputs, enums = set(), set()

    def visit_type(t):
        while hasattr(t, "of_type"):
            t = t.of_type
        if isinstance(t, G.GraphQLEnumType):
            enums.add(t.name)
        elif isinstance(t, G.GraphQLInputObjectType) and t.name not in inputs:
            inputs.add(t.name)
            for f in t.fields.values():
                visit_type(f.type)
    for n, t in schema.type_map.items():
        if not n.startswith("__") and isinstance(t, (G.GraphQLObjectType, G.GraphQLInterfaceType)):
            for f in t.fields.values():
                for a in f.args.values():
                    visit_type(a.type)
    return inputs, enums


def _closure(schema, doc):
    """(input types, enums) the operations need: variable types, transitively through input fields; enums also from results"""
    inputs, enums = set(), set()

    def named(t):
        while hasattr(t, "of_type"):
            t = t.of_type
        return t

    def visit_type(t):
        t = named(t)
        if isinstance(t, G.GraphQLEnumType):
            enums.add(t.name)
        elif isinstance(t, G.GraphQLInputObjectType) and t.name not in inputs:
            inputs.add(t.name)
            for f in t.fields.values():
                visit_type(f.type)
    info = G.TypeInfo(schema)

    class V(G.Visitor):
        def enter_variable_definition(self, node, *_):
            visit_type(G.type_from_ast(schema, node.type))

        def enter_field(self, node, *_):
            t = info.get_type()
            if t is not None and isinstance(named(t), G.GraphQLEnumType):
                enums.add(named(t).name)
    G.visit(doc, G.TypeInfoVisitor(info, V()))
    return inputs, enums


def _classes(src):
    import ast as _ast
    return {n.name: _ast.unparse(n) for n in _ast.parse(src).body if isinstance(n, _ast.ClassDef)}


def bounded_pruned_packages(tier, seed):
    import textwrap
    cases, fails = 0, []
    for name, (sdl, query, opts) in SCENARIOS.items():
        sdl = textwrap.dedent(sdl)
        schema = G.build_schema(sdl)
        need_inputs, need_enums = _closure(schema, G.parse(query))
        if opts.get("enable_custom_operations"):
            # the custom operation builder can send any field with any of its arguments: their types are reachable too
            ci, ce = _argument_closure(schema)
            need_inputs, need_enums = need_inputs | ci, need_enums | ce
        all_inputs = {n for n, t in schema.type_map.items() if isinstance(t, G.GraphQLInputObjectType)}
        all_enums = {n for n, t in schema.type_map.items() if isinstance(t, G.GraphQLEnumType) and not n.startswith("__")}
        full = None
        for inc_in in (True, False):
            for inc_en in (True, False):
                cases += 1
                bad = []
                g = None
                try:
                    g = generate_client(sdl, query, include_all_inputs=inc_in, include_all_enums=inc_en, **opts)
                    g.module()                      # the package imports (all modules)
                    for m in ("client", "input_types", "enums"):
                        g.module(m)
                    for m in ("custom_fields", "custom_queries", "custom_mutations"):
                        if m + ".py" in g.files:
                            g.module(m)
                    ins, ens = _classes(g.read("input_types.py")), _classes(g.read("enums.py"))
                    if inc_in and inc_en:
                        full = (ins, ens)
                    want_in = all_inputs if inc_in else need_inputs
                    # with all inputs kept, every enum an input mentions is needed too
                    enums_of_inputs = set()
                    for n in want_in:
                        for f in schema.type_map[n].fields.values():
                            t = f.type
                            while hasattr(t, "of_type"):
                                t = t.of_type
                            if isinstance(t, G.GraphQLEnumType):
                                enums_of_inputs.add(t.name)
                    want_en = all_enums if inc_en else (need_enums | enums_of_inputs)
                    if set(ins) != want_in:
                        bad.append(f"retained-inputs-are-exactly-the-closure: missing {sorted(want_in - set(ins))} extra {sorted(set(ins) - want_in)}")
                    if set(ens) != want_en:
                        bad.append(f"retained-enums-are-exactly-the-closure: missing {sorted(want_en - set(ens))} extra {sorted(set(ens) - want_en)}")
                    if full is not None:
                        changed = [n for n, src in list(ins.items()) + list(ens.items()) if (full[0].get(n) or full[1].get(n)) != src]
                        if changed:
                            bad.append(f"retained-definitions-identical-to-the-unpruned-package: {changed}")
                    for model in ins:
                        cls = getattr(g.module("input_types"), model)
                        if not getattr(cls, "__pydantic_complete__", True):
                            bad.append(f"model-complete: {model}")
                except Exception as e:      # noqa
                    bad.append(f"package-generates-and-imports: {type(e).__name__}: {str(e)[:160]}")
                finally:
                    if g is not None:
                        g.cleanup()
                for b in bad:      # one failure per clause: a known finding lists scenario and clause, a different clause is a new violation
                    fails.append(dict(inputs=dict(scenario=f"{name}:include_all_inputs={inc_in},include_all_enums={inc_en}:{b.split(':')[0]}"), failed=[b], outcome=None))
    return dict(function="ariadne_codegen.client_generators.package:PackageGenerator.generate", name="bounded.pruned-packages",
                kind="bounded stand-in (end-to-end, native)",
                domain=f"{len(SCENARIOS)} schemas/operation sets (nested inputs, list-of-lists fields, enum only as variable of the last operation, no input "
                       "variable at all, custom scalar only in a nested input, diamond + repeated type + cycle) x 4 flag combinations; closure computed "
                       "independently with graphql-core; package imported; retained definitions compared with the unpruned package",
                cases=cases, failed=len(fails), failures=fails)


def witness_custom_operations():
    """known finding F37: custom operations + pruning; reports the failing (scenario, clause) cases"""
    r = bounded_pruned_packages("quick", 0)
    cases = [f["inputs"]["scenario"] for f in r["failures"] if f["inputs"]["scenario"].startswith("custom-operations-enabled-next-to-operations:")]
    return dict(inputs={"scenario": "custom-operations-enabled-next-to-operations"}, failed=cases, cases=cases, outcome={}, error=None)
