"""C01 / C05 / C08 - which fragments on member types belong to a selection set of an abstract-typed field.

get_fragments_on_subtype decides (with get_inline_fragments_from_selection_set, c01_inline) for which runtime types a
field of interface type gets its own class: every named fragment spread in the selection set whose type condition is a
sub-type of the field's abstract type - and, since fix f4231fe, every such fragment reached through fragments that are
*not* on a sub-type (on the abstract type itself or on an overlapping abstract type), at any depth, in document order.
Contract: nothing when there is no selection set / the type is unknown / the type is not abstract, otherwise the
one-step unfolding equation

    result(selection_set) = concat over its selections of   [definition(s)]                                 if s spreads a fragment on a sub-type
                                                            result(definition(s).selection_set)             if s spreads any other fragment
                                                            []                                              otherwise

(partial correctness: the recursion terminates because fragment definitions of a validated document are acyclic -
NoFragmentCycles -, which is not proved here).  schema.get_type / schema.is_sub_type / is_abstract_type are graphql-core's:
get_type is the lookup in the type map, is_sub_type an uninterpreted relation over (abstract type, type)."""
import z3
import graphql as G
from pyvc import val as V
from pyvc import models
from pyvc.val import SV, Obj
from pyvc.contract import Contract
from pyvc.spec import *   # noqa
from . import lib_graphql as GQ
from . import c03_arguments as _c03       # noqa: F401  (registers the type nodes, with their builders)
from . import c01_inline as CI      # noqa: F401  (registers the selection node classes)
from .c09_pruning import FakeSchema

TARGET = "ariadne_codegen.client_generators.result_fields:get_fragments_on_subtype"
IS_SUB = z3.Function("graphql_is_sub_type", V.Val, V.Val, z3.BoolSort())        # schema.is_sub_type(abstract, maybe_sub) (assumed: a relation)
NESTED = z3.Function("fragments_on_subtype_of", V.Val, V.Val, V.Val, V.Val, V.VL)   # (selection set, definitions, type map, root type name) -> list

SPREAD = V.REG.info(G.FragmentSpreadNode)
ABSTRACT = (G.GraphQLInterfaceType, G.GraphQLUnionType)


def is_abstract(t):
    return z3.Or(*[V.is_instance(t, c) for c in ABSTRACT])


def lookup_type(tm, name):
    return get(tm, name)


def _get_type(I, o, a, k):
    models._used("graphql-core: schema.get_type(name) = type_map.get(name)")
    tm, k = V.lower(o.attrs["type_map"]), V.lower(a[0])
    models.dict_lookup_lemma(I, V.vd(tm), k, V.dlookup(V.vd(tm), k))      # the shape of the type map's values holds for the type found
    return SV(lookup_type(tm, k))


def _is_sub_type(I, o, a, k):
    models._used("graphql-core: schema.is_sub_type(abstract_type, maybe_sub_type) is a relation over the two types (uninterpreted)")
    return SV(V.VBool(IS_SUB(V.lower(a[0]), V.lower(a[1]))))


if not hasattr(FakeSchema, "__pyvc_methods__"):
    FakeSchema.__pyvc_methods__ = {}
FakeSchema.__pyvc_methods__.update({"get_type": _get_type, "is_sub_type": _is_sub_type})


@models.model(G.is_abstract_type)
def _is_abstract_type(I, args, kwargs):
    models._used("graphql-core: is_abstract_type(t) = isinstance(t, (GraphQLInterfaceType, GraphQLUnionType))")
    x = args[0]
    if isinstance(x, SV):
        return SV(V.VBool(is_abstract(x.t)))
    return isinstance(x, ABSTRACT)


def type_condition(fd):
    return V.attr_of(V.attr_of(V.attr_of(fd, G.FragmentDefinitionNode, "type_condition"), G.NamedTypeNode, "name"), G.NameNode, "value")


def piece(x, defs, tm, root):
    fd = get(defs, CI.spread_name(x))
    ft = lookup_type(tm, type_condition(fd))
    on_subtype = z3.And(z3.Not(V.is_VNone(ft)), IS_SUB(lookup_type(tm, root), ft))
    return z3.If(GQ.is_cls(x, SPREAD),
                 z3.If(on_subtype, V.VCons(fd, V.VNil), NESTED(V.attr_of(fd, G.FragmentDefinitionNode, "selection_set"), defs, tm, root)),
                 V.VNil)


# the flat-map over the selection list is a *declared* function constrained by instances of its defining equations
# (flat(nil) = nil, flat(x :: l) = piece(x) ++ flat(l)) - as in c01_resolve: the recursive definition made the solver unfold a
# large body and one verdict depended on the load of the machine
flat = z3.Function("fragments_on_subtype_flat", V.VL, V.Val, V.Val, V.Val, V.VL)

SCHEMA_TYPE = OneOf(Cls(G.GraphQLObjectType, name=GQ.NAME), Cls(G.GraphQLInterfaceType, name=GQ.NAME), Cls(G.GraphQLUnionType, name=GQ.NAME),
                    Cls(G.GraphQLScalarType, name=GQ.NAME), Cls(G.GraphQLEnumType, name=GQ.NAME))
NAMED_TYPE_NODE = Cls(G.NamedTypeNode, name=GQ.NAME_NODE)


class GetFragmentsOnSubtype(Contract):
    props = ("C01", "C05", "C08")
    target = TARGET
    partial_correctness = True
    frame_args = False
    assume_proved = True
    trusted = ["termination of the recursion through the fragment definitions is not proved (acyclic by graphql-core's NoFragmentCycles validation rule)",
               "graphql-core: schema.get_type is the type-map lookup; schema.is_sub_type is a relation over (abstract type, type); is_abstract_type = interface or union",
               "associativity of list concatenation, used as lemma instances ((a ++ p) ++ t == a ++ (p ++ t))"]

    def setup(self, E):
        tm = E.sym("type_map", DictOf(GQ.NAME, SCHEMA_TYPE, name="type_map_fos"))
        defs = E.sym("fragments_definitions", DictOf(GQ.NAME, Cls(G.FragmentDefinitionNode, type_condition=NAMED_TYPE_NODE,
                                                                   selection_set=Cls(G.SelectionSetNode)), name="fragment_definitions_fos"))
        defined = Pred(lambda t: has(defs.t, t), "name of a defined fragment")      # validated document: KnownFragmentNames
        sel = OneOf(Cls(G.FieldNode), Cls(G.InlineFragmentNode), Cls(G.FragmentSpreadNode, name=Cls(G.NameNode, value=defined)))
        ss = E.sym("selection_set", Opt(Cls(G.SelectionSetNode, selections=TupleOf(sel, name="the_selections_fos"))))
        self._tm = tm
        return [Obj(FakeSchema, {"type_map": tm}), ss, defs, E.sym("root_type", GQ.NAME)], {}

    def _tm_of(self, A):
        return A["type_map"] if "type_map" in A else V.attr_of(A.schema, FakeSchema, "type_map")

    @property
    def loops(self):
        def inv(rest, xs, st, I, env):
            defs = V.lower(env.lookup("fragments_definitions"))
            tm = V.lower(env.lookup("schema").attrs["type_map"])
            root = V.lower(env.lookup("root_type"))
            cur = V.vl(st["fragments"]) if "fragments" in st else V.VNil
            rs = z3.simplify(rest)
            if z3.is_app(rs) and rs.decl().name() == "VCons":
                x, r1 = rs.arg(0), rs.arg(1)
                p, t = piece(x, defs, tm, root), flat(r1, defs, tm, root)
                fd = get(defs, CI.spread_name(x))
                nested = NESTED(V.attr_of(fd, G.FragmentDefinitionNode, "selection_set"), defs, tm, root)
                V.LEMMAS.append(flat(rs, defs, tm, root) == V.vl_concat(p, t))                                  # unfolding
                V.LEMMAS.append(V.vl_concat(V.vl_concat(cur, p), t) == V.vl_concat(cur, V.vl_concat(p, t)))    # associativity instances
                V.LEMMAS.append(V.vl_concat(V.vl_concat(cur, nested), t) == V.vl_concat(cur, V.vl_concat(nested, t)))
                V.LEMMAS.append(V.vl_concat(V.vl_concat(cur, V.VCons(fd, V.VNil)), t) == V.vl_concat(cur, V.VCons(fd, t)))
                V.LEMMAS.append(V.vl_concat(V.VNil, t) == t)
                V.LEMMAS.append(V.vl_concat(V.VCons(fd, V.VNil), t) == V.VCons(fd, t))
            if z3.is_app(rs) and rs.decl().name() == "VNil":
                V.LEMMAS.append(flat(V.VNil, defs, tm, root) == V.VNil)                                         # defining equation at nil
                return cur == flat(xs, defs, tm, root)
            return V.vl_concat(cur, flat(rest, defs, tm, root)) == flat(xs, defs, tm, root)
        return {"get_fragments_on_subtype": inv}

    def result_term(self, A):
        return V.VList(NESTED(A.selection_set, A.fragments_definitions, self._tm_of(A), A.root_type))

    def ensures(self, A, res):
        ss, defs, root = A.selection_set, A.fragments_definitions, A.root_type
        tm = self._tm_of(A)
        rt = lookup_type(tm, root)
        sels = V.vt(V.attr_of(ss, G.SelectionSetNode, "selections"))
        nothing = z3.Or(V.is_VNone(ss), V.is_VNone(rt), z3.Not(is_abstract(rt)))
        V.LEMMAS.append(z3.Implies(V.is_VNil(sels), flat(sels, defs, tm, root) == V.VNil))        # unfolding at the empty selection list
        return {"fragments-on-subtypes-spread-here-or-inside-fragments-not-on-a-subtype-at-any-depth-in-document-order":
                res == V.VList(z3.If(nothing, V.VNil, flat(sels, defs, tm, root)))}

    def replay_custom(self, inputs):
        return replay_nested()

    def samples(self, tier):
        return [dict(case="nested")]


def replay_nested():
    """native cross-check on a real schema and documents: member fragments spread directly, inside a fragment on the interface,
    two levels deep, next to fragments on other types; non-abstract and unknown root types"""
    from ariadne_codegen.client_generators.result_fields import get_fragments_on_subtype as real
    schema = G.build_schema("""
        interface Node { id: ID! }
        interface Named { name: String }
        type User implements Node & Named { id: ID! name: String }
        type Bot implements Node { id: ID! model: String }
        type Ghost implements Node { id: ID! }
        union Actor = User | Bot
        type Query { node: Node actor: Actor me: User }
    """)
    doc = G.parse("""
        query Q { a: node { id ...OnUser ...OnNode ... on Bot { model } ...OnNamed } b: actor { ...OnActor } c: me { ...OnUser } d: node { id } }
        fragment OnUser on User { name }
        fragment OnBot on Bot { model }
        fragment OnGhost on Ghost { id }
        fragment OnNode on Node { ...OnBot ...Deeper id }
        fragment Deeper on Node { ...OnGhost ...OnUser }
        fragment OnNamed on Named { name }
        fragment OnActor on Actor { ...OnBot ... on User { id } }
    """)
    defs = {d.name.value: d for d in doc.definitions if isinstance(d, G.FragmentDefinitionNode)}
    op = doc.definitions[0]
    rep = dict(inputs={"document": "member fragments at 0-2 levels of fragments on the abstract type"}, failed=[], undetermined=[], pre_ok=True, outcome={}, error=None)
    clause = "post.fragments-on-subtypes-spread-here-or-inside-fragments-not-on-a-subtype-at-any-depth-in-document-order"

    def spec(ss, root):
        rt = schema.get_type(root)
        if ss is None or rt is None or not G.is_abstract_type(rt):
            return []
        out = []
        for s in ss.selections:
            if isinstance(s, G.FragmentSpreadNode):
                fd = defs[s.name.value]
                ft = schema.get_type(fd.type_condition.name.value)
                if ft is not None and schema.is_sub_type(rt, ft):
                    out.append(fd)
                else:
                    out += spec(fd.selection_set, root)
        return out
    roots = {"a": "Node", "b": "Actor", "c": "User", "d": "Node"}
    for fld in op.selection_set.selections:
        key = fld.alias.value
        for root in (roots[key], "Missing"):
            got = real(schema, fld.selection_set, defs, root)
            want = spec(fld.selection_set, root)
            rep["outcome"][f"{key}@{root}"] = [g.name.value for g in got]
            if [id(x) for x in got] != [id(x) for x in want]:
                rep["failed"].append(clause)
    if real(schema, None, defs, "Node") != [] or real(schema, op.selection_set.selections[3].selection_set, None, "Node") != []:
        rep["failed"].append(clause)
    if rep["outcome"].get("a@Node") != ["OnUser", "OnBot", "OnGhost", "OnUser"]:
        rep["failed"].append(clause + " (expected OnUser, OnBot, OnGhost, OnUser for field a)")
    return rep


CONTRACTS = [GetFragmentsOnSubtype()]
