"""graphql-core type objects as records (assumed: the GraphQL* classes are free constructors over name / of_type),
shapes for valid type expressions, and builders used to materialise counter-models."""
import z3
import graphql as G
from pyvc import val as V
from pyvc import models
from pyvc.spec import *   # noqa

TRUSTED = ["graphql-core: GraphQLNonNull/GraphQLList/GraphQL*Type are records over (name | of_type); a NonNull never wraps a NonNull"]

BUILTIN = {"String": G.GraphQLString, "Int": G.GraphQLInt, "Float": G.GraphQLFloat, "Boolean": G.GraphQLBoolean, "ID": G.GraphQLID}


def _name(n, default):
    import re
    return n if isinstance(n, str) and re.fullmatch(r"[_A-Za-z][_0-9A-Za-z]*", n) and not n.startswith("__") else default


def _descr(d):
    return d if isinstance(d, str) else None


SCALAR = V.REG.register(G.GraphQLScalarType, ["name", "description", "specified_by_url"],
                        build=lambda name=None, description=None, specified_by_url=None:
                        BUILTIN.get(name) or G.GraphQLScalarType(_name(name, "Custom"), description=_descr(description), specified_by_url=_descr(specified_by_url)))
ENUM = V.REG.register(G.GraphQLEnumType, ["name", "description", "values"],
                      build=lambda name=None, description=None, values=None:
                      G.GraphQLEnumType(_name(name, "E"), values if isinstance(values, dict) and values and all(isinstance(v, G.GraphQLEnumValue) for v in values.values()) else {"A": None, "B": None}, description=_descr(description)))
INPUT = V.REG.register(G.GraphQLInputObjectType, ["name", "description", "fields"],
                       build=lambda name=None, description=None, fields=None:
                       G.GraphQLInputObjectType(_name(name, "In"), fields if isinstance(fields, dict) and fields and all(isinstance(v, G.GraphQLInputField) for v in fields.values()) else {"x": G.GraphQLInputField(G.GraphQLInt)}, description=_descr(description)))
OBJECT = V.REG.register(G.GraphQLObjectType, ["name", "description", "interfaces", "fields"],
                        build=lambda name=None, description=None, interfaces=None, fields=None:
                        G.GraphQLObjectType(_name(name, "Obj"), fields if isinstance(fields, dict) and fields and all(isinstance(v, G.GraphQLField) for v in fields.values()) else {"x": G.GraphQLField(G.GraphQLInt)},
                                            interfaces=[i for i in (interfaces if isinstance(interfaces, (list, tuple)) else []) if isinstance(i, G.GraphQLInterfaceType)], description=_descr(description)))
INTERFACE = V.REG.register(G.GraphQLInterfaceType, ["name", "description", "interfaces", "fields"],
                           build=lambda name=None, description=None, interfaces=None, fields=None:
                           G.GraphQLInterfaceType(_name(name, "Iface"), fields if isinstance(fields, dict) and fields and all(isinstance(v, G.GraphQLField) for v in fields.values()) else {"x": G.GraphQLField(G.GraphQLInt)},
                                                  interfaces=[i for i in (interfaces if isinstance(interfaces, (list, tuple)) else []) if isinstance(i, G.GraphQLInterfaceType)], description=_descr(description)))
UNION = V.REG.register(G.GraphQLUnionType, ["name", "description", "types"],
                       build=lambda name=None, description=None, types=None:
                       G.GraphQLUnionType(_name(name, "U"), [t for t in (types if isinstance(types, (list, tuple)) else []) if isinstance(t, G.GraphQLObjectType)] or [G.GraphQLObjectType("Member", {"x": G.GraphQLField(G.GraphQLInt)})], description=_descr(description)))
LIST = V.REG.register(G.GraphQLList, ["of_type"], build=lambda of_type=None: G.GraphQLList(of_type))
NONNULL = V.REG.register(G.GraphQLNonNull, ["of_type"], build=lambda of_type=None: G.GraphQLNonNull(of_type))

RE_NAME = z3.Concat(models.RE_IDENT_START, z3.Star(models.RE_IDENT_CONT))
NAME = StrIn(RE_NAME)


def is_cls(t, info):
    return z3.And(V.is_VObj(t), V.cls_of(t) == info.cid)


def name_of(t):
    return V.nth(V.fs_of(t), 0)


def of_type(t):
    return V.nth(V.fs_of(t), 0)


def _type_shapes(named_alts, tag):
    nullable = Rec(f"{tag}Nullable", lambda self: OneOf(*named_alts, Cls(G.GraphQLList, of_type=anyt)))
    anyt = Rec(f"{tag}Type", lambda self: OneOf(nullable, Cls(G.GraphQLNonNull, of_type=nullable)))
    return nullable, anyt


# input type expressions: scalar | enum | input object, wrapped by List / NonNull
IN_NULLABLE, IN_TYPE = _type_shapes([Cls(G.GraphQLScalarType, name=NAME), Cls(G.GraphQLEnumType, name=NAME),
                                     Cls(G.GraphQLInputObjectType, name=NAME)], "In")


# ---------------------------------------------------------------- const value literals (graphql.language.ast)
def _nm(value="x"):
    return G.NameNode(value=value if isinstance(value, str) else "x")


LIT_CLASSES = {}
for _cls, _fields, _b in [
    (G.NameNode, ["value"], lambda value="x": _nm(value)),
    (G.IntValueNode, ["value"], lambda value="0": G.IntValueNode(value=value if isinstance(value, str) and value.lstrip("-").isdigit() else "7")),
    (G.FloatValueNode, ["value"], lambda value="0.5": G.FloatValueNode(value=value if isinstance(value, str) and _is_float(value) else "1.5")),
    (G.StringValueNode, ["value"], lambda value="": G.StringValueNode(value=value if isinstance(value, str) else "s")),
    (G.BooleanValueNode, ["value"], lambda value=False: G.BooleanValueNode(value=bool(value))),
    (G.NullValueNode, [], lambda: G.NullValueNode()),
    (G.EnumValueNode, ["value"], lambda value="A": G.EnumValueNode(value=_name(value, "A"))),
    (G.ListValueNode, ["values"], lambda values=(): G.ListValueNode(values=tuple(values or ()))),
    (G.ObjectFieldNode, ["name", "value"], lambda name=None, value=None: G.ObjectFieldNode(name=name or _nm("f"), value=value or G.NullValueNode())),
    (G.ObjectValueNode, ["fields"], lambda fields=(): G.ObjectValueNode(fields=tuple(fields or ()))),
]:
    LIT_CLASSES[_cls] = V.REG.register(_cls, _fields, build=_b)


def _is_float(s):
    try:
        float(s)
        return True
    except ValueError:
        return False


NAME_NODE = Cls(G.NameNode, value=NAME)
# literal text of numbers: what the GraphQL lexer accepts (digits; the int()/float() conversions are uninterpreted)
LIT = Rec("ConstValue", lambda self: OneOf(
    Cls(G.IntValueNode, value=StrIn(z3.Concat(z3.Option(z3.Re("-")), z3.Plus(z3.Range("0", "9"))))),
    Cls(G.FloatValueNode, value=Str), Cls(G.StringValueNode, value=Str), Cls(G.BooleanValueNode, value=Bool),
    Cls(G.NullValueNode), Cls(G.EnumValueNode, value=NAME),
    Cls(G.ListValueNode, values=TupleOf(self, name="all_lit")),
    Cls(G.ObjectValueNode, fields=TupleOf(Cls(G.ObjectFieldNode, name=NAME_NODE, value=self), name="all_lit_fields"))))


V.REG.register(G.DirectiveNode, ["name", "arguments"],
               build=lambda name=None, arguments=(): G.DirectiveNode(name=name or G.NameNode(value="skip"), arguments=tuple(arguments or ())))


PRINT_AST = z3.Function("graphql_print_ast", V.Val, z3.StringSort())   # assumed: print_ast is a function of the node (parse(print_ast(n)) == n)


def _print_ast(I, args, kwargs):
    models._used("graphql.print_ast: uninterpreted text of the node; parse(print_ast(n)) = n up to locations (assumed)")
    return SV(V.VStr(PRINT_AST(V.lower(args[0]))))


from pyvc.val import SV   # noqa
models.NATIVE[G.print_ast] = _print_ast


# ---------------------------------------------------------------- field / argument / enum value records
V.REG.register(G.GraphQLArgument, ["type", "default_value", "description", "deprecation_reason"],
               build=lambda type=None, default_value=G.Undefined, description=None, deprecation_reason=None:
               G.GraphQLArgument(type or G.GraphQLInt, default_value=default_value, description=_descr(description), deprecation_reason=_descr(deprecation_reason)))
V.REG.register(G.GraphQLInputField, ["type", "default_value", "description", "deprecation_reason", "ast_node"],
               build=lambda type=None, default_value=G.Undefined, description=None, deprecation_reason=None, ast_node=None:
               G.GraphQLInputField(type or G.GraphQLInt, default_value=default_value, description=_descr(description), deprecation_reason=_descr(deprecation_reason),
                                   ast_node=ast_node if isinstance(ast_node, G.InputValueDefinitionNode) else None))
V.REG.register(G.GraphQLField, ["type", "args", "description", "deprecation_reason"],
               build=lambda type=None, args=None, description=None, deprecation_reason=None:
               G.GraphQLField(type or G.GraphQLInt, args={k: v for k, v in (args or {}).items() if isinstance(v, G.GraphQLArgument)}, description=_descr(description), deprecation_reason=_descr(deprecation_reason)))
V.REG.register(G.GraphQLEnumValue, ["value", "description", "deprecation_reason"],
               build=lambda value=None, description=None, deprecation_reason=None: G.GraphQLEnumValue(value, description=_descr(description), deprecation_reason=_descr(deprecation_reason)))

UNDEFINED = V.VAtom(z3.IntVal(V.REG.atom(G.Undefined, "Undefined")))
