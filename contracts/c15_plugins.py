"""C15 - bundled plugins preserve client behaviour apart from their documented change.

PluginManager._apply_plugins_on_object is a left fold over the configured plugins in list order (loop invariant in
accumulator form); every manager hook forwards to the plugin hook *of the same name* with the same object and keyword
arguments; every hook of the base Plugin returns its first argument unchanged (so a plugin overriding nothing changes
nothing); NoReimports only empties the init module.  The behaviour of whole plugged packages is covered by the
end-to-end bounded stand-in in e2e_plugins."""
import inspect
import z3
from pyvc import val as V
from pyvc import models
from pyvc.val import SV, Obj, MList
from pyvc.contract import Contract, self_obj, Args
from pyvc.interp import Unsupported
from pyvc.spec import *   # noqa
from ariadne_codegen.plugins import manager as PM
from ariadne_codegen.plugins import base as PB
from ariadne_codegen.contrib import no_reimports as NR
import ast

V.REG.register(PM.PluginManager, ["plugins"])
HOOK = z3.Function("plugin_hook", V.Val, V.Val, V.Val, V.Val, V.Val, V.Val)   # (plugin, hook name, object, args, kwargs) -> object
apply_all = z3.RecFunction("apply_plugins_in_order", V.VL, V.Val, V.Val, V.Val, V.Val, V.Val)
_ps, _n, _o, _a, _k = z3.Const("ps", V.VL), z3.Const("hn", V.Val), z3.Const("ho", V.Val), z3.Const("ha", V.Val), z3.Const("hk", V.Val)
z3.RecAddDefinition(apply_all, [_ps, _n, _o, _a, _k],
                    z3.If(V.is_VNil(_ps), _o, apply_all(V.tl(_ps), _n, HOOK(V.hd(_ps), _n, _o, _a, _k), _a, _k)))


class BoundHook:
    """getattr(plugin, name) of a symbolic plugin: calling it is the uninterpreted hook application"""

    def __init__(self, plugin, name):
        self.plugin, self.name = plugin, name


def _getattr_model(I, args, kwargs):
    o, name = args[0], args[1]
    if isinstance(o, SV) and not isinstance(name, SV):
        return BoundHook(o, name)
    if isinstance(o, SV):
        return BoundHook(o, name)
    return models._getattr(I, args, kwargs)


def install(ctx):
    ctx.getattr_hook = True


_orig_call_native = models.call_native


def _call_native(I, fn, args, kwargs):
    if isinstance(fn, BoundHook):
        if isinstance(kwargs, dict) and set(kwargs) == {"__splat__"}:
            kwargs = kwargs["__splat__"]
        return SV(HOOK(fn.plugin.t, V.lower(fn.name), V.lower(args[0]), V.lower(tuple(args[1:])), V.lower(kwargs if not isinstance(kwargs, dict) else dict(kwargs))))
    return _orig_call_native(I, fn, args, kwargs)


models.call_native = _call_native
models.NATIVE[getattr] = _getattr_model
PLUGINS = Pred(V.is_VList, "list of plugins")


class ApplyPlugins(Contract):
    props = ("C15",)
    target = "ariadne_codegen.plugins.manager:PluginManager._apply_plugins_on_object"
    trusted = ["plugin hooks are functions of (plugin, hook name, object, arguments): plugin_hook is uninterpreted"]
    frame_args = False

    def setup(self, E):
        self_ = self_obj(PM.PluginManager, {"plugins": E.sym("plugins", PLUGINS)})
        return [self_, E.sym("method_name", Str), E.sym("obj", Any)], {"__splat__": E.sym("kwargs", DictOf(Str, Any, name="hook_kwargs"))}

    @property
    def loops(self):
        def inv(rest, xs, st, I, env):
            cur = st.get("modified_obj", V.lower(env.lookup("modified_obj")))
            a = V.lower(env.lookup("args"))
            k = V.lower(env.lookup("kwargs"))
            n = V.lower(env.lookup("method_name"))
            o = V.lower(env.lookup("obj"))
            return apply_all(rest, n, cur, a, k) == apply_all(xs, n, o, a, k)
        return {"PluginManager._apply_plugins_on_object": inv}

    def result_term(self, A):
        plugins = V.vl(V.attr_of(A.self, PM.PluginManager, "plugins"))
        args = A["args"] if A.get("args") is not None else V.lower(())
        return apply_all(plugins, A.method_name, A.obj, args, A.kwargs)

    def ensures(self, A, res):
        return {"plugins-applied-to-the-hook-in-configuration-order": res == self.result_term(A)}


def _manager_hook_contract(name, fn):
    params = [p for p in inspect.signature(fn).parameters if p != "self"]

    class ManagerHook(Contract):
        props = ("C15",)
        target = f"ariadne_codegen.plugins.manager:PluginManager.{name}"
        use_at_calls = False
        frame_args = False

        def setup(self, E):
            self_ = self_obj(PM.PluginManager, {"plugins": E.sym("plugins", PLUGINS)})
            return [self_], {p: E.sym(p, Any) for p in params}

        def ensures(self, A, res):
            plugins = V.vl(V.attr_of(A.self, PM.PluginManager, "plugins"))
            first = A[params[0]]
            rest = {p: SV(A[p]) for p in params[1:]}
            # same hook name, same object, remaining parameters by keyword
            return {"forwards-to-the-plugin-hook-of-the-same-name": res == apply_all(plugins, S(name), first, V.lower(()), V.lower(rest))}
    ManagerHook.__name__ = f"ManagerHook_{name}"
    return ManagerHook()


def _base_hook_contract(name, fn):
    params = [p for p in inspect.signature(fn).parameters if p != "self"]

    class BaseHook(Contract):
        props = ("C15",)
        target = f"ariadne_codegen.plugins.base:Plugin.{name}"
        use_at_calls = False

        def setup(self, E):
            return [self_obj(PB.Plugin, {})], {p: E.sym(p, Any) for p in params}

        def ensures(self, A, res):
            return {"identity-on-its-first-argument": res == A[params[0]]}
    BaseHook.__name__ = f"BaseHook_{name}"
    return BaseHook()


class NoReimportsInit(Contract):
    props = ("C15",)
    target = "ariadne_codegen.contrib.no_reimports:NoReimportsPlugin.generate_init_module"
    mutates = ("module",)
    frame_args = False

    def setup(self, E):
        return [self_obj(NR.NoReimportsPlugin, {}), Obj(ast.Module, {"body": E.mlist("body0"), "type_ignores": []})], {}

    def ensures(self, A, res):
        return {"only-empties-the-init-module": res == mk(ast.Module, body=lst(), type_ignores=lst())}


SKIP = {"__init__", "_apply_plugins_on_object", "process_schema"}
CONTRACTS = [ApplyPlugins(), NoReimportsInit()]
for _name, _fn in inspect.getmembers(PM.PluginManager, inspect.isfunction):
    if _name not in SKIP:
        CONTRACTS.append(_manager_hook_contract(_name, _fn))
for _name, _fn in inspect.getmembers(PB.Plugin, inspect.isfunction):
    if _name not in ("__init__",):
        CONTRACTS.append(_base_hook_contract(_name, _fn))
