"""C15 - bundled plugins preserve client behaviour apart from their documented change.

PluginManager._apply_plugins_on_object is a left fold over the configured plugins in list order (loop invariant in
accumulator form); every manager hook forwards to the plugin hook *of the same name* with the same object and keyword
arguments; every hook of the base Plugin returns its first argument unchanged (so a plugin overriding nothing changes
nothing); NoReimports only empties the init module.  The behaviour of whole plugged packages is covered by the
end-to-end bounded stand-in in e2e_plugins."""
import inspect
import z3
from pyvc import val as V
from pyvc import models
from pyvc.val import SV, Obj, MList
from pyvc.contract import Contract, self_obj, Args
from pyvc.interp import Unsupported
from pyvc.spec import *   # noqa
from ariadne_codegen.plugins import manager as PM
from ariadne_codegen.plugins import base as PB
from ariadne_codegen.contrib import no_reimports as NR
import ast

V.REG.register(PM.PluginManager, ["plugins"])
HOOK = z3.Function("plugin_hook", V.Val, V.Val, V.Val, V.Val, V.Val, V.Val)   # (plugin, hook name, object, args, kwargs) -> object
apply_all = z3.RecFunction("apply_plugins_in_order", V.VL, V.Val, V.Val, V.Val, V.Val, V.Val)
_ps, _n, _o, _a, _k = z3.Const("ps", V.VL), z3.Const("hn", V.Val), z3.Const("ho", V.Val), z3.Const("ha", V.Val), z3.Const("hk", V.Val)
z3.RecAddDefinition(apply_all, [_ps, _n, _o, _a, _k],
                    z3.If(V.is_VNil(_ps), _o, apply_all(V.tl(_ps), _n, HOOK(V.hd(_ps), _n, _o, _a, _k), _a, _k)))


class BoundHook:
    """getattr(plugin, name) of a symbolic plugin: calling it is the uninterpreted hook application"""

    def __init__(self, plugin, name):
        self.plugin, self.name = plugin, name


def _getattr_model(I, args, kwargs):
    o, name = args[0], args[1]
    if isinstance(o, SV) and not isinstance(name, SV):
        return BoundHook(o, name)
    if isinstance(o, SV):
        return BoundHook(o, name)
    return models._getattr(I, args, kwargs)


def install(ctx):
    ctx.getattr_hook = True


_orig_call_native = models.call_native


def _call_native(I, fn, args, kwargs):
    if isinstance(fn, BoundHook):
        if isinstance(kwargs, dict) and set(kwargs) == {"__splat__"}:
            kwargs = kwargs["__splat__"]
        return SV(HOOK(fn.plugin.t, V.lower(fn.name), V.lower(args[0]), V.lower(tuple(args[1:])), V.lower(kwargs if not isinstance(kwargs, dict) else dict(kwargs))))
    return _orig_call_native(I, fn, args, kwargs)


models.call_native = _call_native
models.NATIVE[getattr] = _getattr_model
PLUGINS = Pred(V.is_VList, "list of plugins")


class ApplyPlugins(Contract):
    props = ("C15",)
    target = "ariadne_codegen.plugins.manager:PluginManager._apply_plugins_on_object"
    trusted = ["plugin hooks are functions of (plugin, hook name, object, arguments): plugin_hook is uninterpreted"]
    frame_args = False

    def setup(self, E):
        self_ = self_obj(PM.PluginManager, {"plugins": E.sym("plugins", PLUGINS)})
        return [self_, E.sym("method_name", Str), E.sym("obj", Any)], {"__splat__": E.sym("kwargs", DictOf(Str, Any, name="hook_kwargs"))}

    @property
    def loops(self):
        def inv(rest, xs, st, I, env):
            cur = st.get("modified_obj", V.lower(env.lookup("modified_obj")))
            a = V.lower(env.lookup("args"))
            k = V.lower(env.lookup("kwargs"))
            n = V.lower(env.lookup("method_name"))
            o = V.lower(env.lookup("obj"))
            return apply_all(rest, n, cur, a, k) == apply_all(xs, n, o, a, k)
        return {"PluginManager._apply_plugins_on_object": inv}

    def result_term(self, A):
        plugins = V.vl(V.attr_of(A.self, PM.PluginManager, "plugins"))
        args = A["args"] if A.get("args") is not None else V.lower(())
        return apply_all(plugins, A.method_name, A.obj, args, A.kwargs)

    def ensures(self, A, res):
        return {"plugins-applied-to-the-hook-in-configuration-order": res == self.result_term(A)}


def _manager_hook_contract(name, fn):
    params = [p for p in inspect.signature(fn).parameters if p != "self"]

    class ManagerHook(Contract):
        props = ("C15",)
        target = f"ariadne_codegen.plugins.manager:PluginManager.{name}"
        use_at_calls = False
        frame_args = False

        def setup(self, E):
            self_ = self_obj(PM.PluginManager, {"plugins": E.sym("plugins", PLUGINS)})
            return [self_], {p: E.sym(p, Any) for p in params}

        def ensures(self, A, res):
            plugins = V.vl(V.attr_of(A.self, PM.PluginManager, "plugins"))
            first = A[params[0]]
            rest = {p: SV(A[p]) for p in params[1:]}
            # same hook name, same object, remaining parameters by keyword
            return {"forwards-to-the-plugin-hook-of-the-same-name": res == apply_all(plugins, S(name), first, V.lower(()), V.lower(rest))}
    ManagerHook.__name__ = f"ManagerHook_{name}"
    return ManagerHook()


def _base_hook_contract(name, fn):
    params = [p for p in inspect.signature(fn).parameters if p != "self"]

    class BaseHook(Contract):
        props = ("C15",)
        target = f"ariadne_codegen.plugins.base:Plugin.{name}"
        use_at_calls = False

        def setup(self, E):
            return [self_obj(PB.Plugin, {})], {p: E.sym(p, Any) for p in params}

        def ensures(self, A, res):
            return {"identity-on-its-first-argument": res == A[params[0]]}
    BaseHook.__name__ = f"BaseHook_{name}"
    return BaseHook()


class NoReimportsInit(Contract):
    props = ("C15",)
    target = "ariadne_codegen.contrib.no_reimports:NoReimportsPlugin.generate_init_module"
    mutates = ("module",)
    frame_args = False

    def setup(self, E):
        return [self_obj(NR.NoReimportsPlugin, {}), Obj(ast.Module, {"body": E.mlist("body0"), "type_ignores": []})], {}

    def ensures(self, A, res):
        return {"only-empties-the-init-module": res == mk(ast.Module, body=lst(), type_ignores=lst())}


SKIP = {"__init__", "_apply_plugins_on_object", "process_schema"}
CONTRACTS = [ApplyPlugins(), NoReimportsInit()]
for _name, _fn in inspect.getmembers(PM.PluginManager, inspect.isfunction):
    # a hook of the manager is a public method that the plugin base class has too (private helpers are not hooks)
    if _name not in SKIP and not _name.startswith("_") and hasattr(PB.Plugin, _name):
        CONTRACTS.append(_manager_hook_contract(_name, _fn))
for _name, _fn in inspect.getmembers(PB.Plugin, inspect.isfunction):
    if _name not in ("__init__",):
        CONTRACTS.append(_base_hook_contract(_name, _fn))


# ------------------------------------------------------------------------------------------ configuration order
from ariadne_codegen.plugins import explorer as EXP        # noqa: E402

IS_MODULE = z3.Function("plugin_entry_is_module", V.Val, z3.BoolSort())
MODULE_PLUGINS = z3.Function("plugins_of_module", V.Val, V.Val)       # a list of classes
CLASS_OF = z3.Function("plugin_class_of_path", V.Val, V.Val)


class _ExplorerStub(Contract):
    """assumed contract: what a configuration entry denotes is importlib's / inspect's business"""
    props = ("C15",)
    assumed = True

    def __init__(self, fn, param, term):
        self.target = f"ariadne_codegen.plugins.explorer:{fn}"
        self.param, self.term = param, term

    def setup(self, E):
        return [], {self.param: E.sym(self.param, Str)}

    def result_term(self, A):
        return self.term(A[self.param])

    def ensures(self, A, res):
        return {"denotation": res == self.term(A[self.param])}


STUBS = [_ExplorerStub("is_module_str", "plugin_str", lambda s: V.VBool(IS_MODULE(s))),
         _ExplorerStub("get_plugins_types_from_module", "module_str", lambda s: MODULE_PLUGINS(s)),
         _ExplorerStub("get_plugin_type", "class_str", lambda s: CLASS_OF(s))]


def _entry_classes(s):
    return z3.If(IS_MODULE(s), V.vl(MODULE_PLUGINS(s)), V.VCons(CLASS_OF(s), V.VNil))


plugins_in_order = z3.RecFunction("plugins_in_configuration_order", V.VL, V.VL)
_es = z3.Const("entries", V.VL)
z3.RecAddDefinition(plugins_in_order, [_es], z3.If(V.is_VNil(_es), V.VNil, V.vl_concat(_entry_classes(V.hd(_es)), plugins_in_order(V.tl(_es)))))


class GetPluginsTypes(Contract):
    """statement: `several plugins are applied to each hook in configuration order`: the plugin classes are listed in the
    order of the configuration entries, whichever spelling (module or class path) an entry uses"""
    props = ("C15",)
    target = "ariadne_codegen.plugins.explorer:get_plugins_types"
    use_at_calls = False
    trusted = ["importlib / inspect: which classes a module string or class path denotes (uninterpreted functions of the entry)",
               "list concatenation is associative (lemma instance supplied to the solver)"]

    def setup(self, E):
        entries = E.sym("plugins_strs", ListOf(Str, name="plugin_entries"))
        from pyvc.shapes import Pred
        # the module's plugin list is a list, whatever the entry
        some = z3.Const("any_entry", V.Val)
        E.assume(z3.ForAll([some], V.is_VList(MODULE_PLUGINS(some))))
        return [entries], {}

    @property
    def loops(self):
        def inv(rest, xs, st, I, env):
            cur = V.vl(st["classes"]) if "classes" in st else V.VNil
            rest = z3.simplify(rest)
            if z3.is_app(rest) and rest.decl().name() == "VCons":
                b = _entry_classes(V.hd(rest))
                tail = plugins_in_order(V.tl(rest))
                V.LEMMAS.append(V.vl_concat(V.vl_concat(cur, b), tail) == V.vl_concat(cur, V.vl_concat(b, tail)))
                V.LEMMAS.append(plugins_in_order(rest) == V.vl_concat(b, tail))
            if z3.is_app(rest) and rest.decl().name() == "VNil":
                return cur == plugins_in_order(xs)
            return V.vl_concat(cur, plugins_in_order(rest)) == plugins_in_order(xs)
        return {"get_plugins_types": inv}

    def ensures(self, A, res):
        return {"classes-in-configuration-order": V.vl(res) == plugins_in_order(V.vl(A.plugins_strs))}

    def replay_custom(self, inputs):
        return replay_plugin_order(inputs)

    def samples(self, tier):
        return [dict(plugins_strs=p) for p in ([], ["pyvc_order_a.PluginA", "pyvc_order_b"], ["pyvc_order_b", "pyvc_order_a.PluginA"],
                                                 ["pyvc_order_a.PluginA", "pyvc_order_b", "pyvc_order_a.PluginC", "pyvc_order_b"])]


def _order_modules():
    """two throw-away plugin modules for the native replay"""
    import sys
    import types
    if "pyvc_order_a" in sys.modules:
        return
    a, b = types.ModuleType("pyvc_order_a"), types.ModuleType("pyvc_order_b")
    for mod, names in ((a, ("PluginA", "PluginC")), (b, ("PluginB",))):
        for n in names:
            cls = type(n, (PB.Plugin,), {"__module__": mod.__name__})
            setattr(mod, n, cls)
        mod.__spec__ = __import__("importlib.machinery").machinery.ModuleSpec(mod.__name__, loader=None)
        sys.modules[mod.__name__] = mod


def replay_plugin_order(inputs):
    _order_modules()
    import sys
    rep = dict(inputs={k: str(v) for k, v in inputs.items()}, failed=[], undetermined=[], pre_ok=True, outcome=None, error=None)
    entries = [e for e in inputs.get("plugins_strs") or [] if isinstance(e, str)]
    known = {"pyvc_order_a.PluginA": ["PluginA"], "pyvc_order_a.PluginC": ["PluginC"], "pyvc_order_b": ["PluginB"], "pyvc_order_a": ["PluginA", "PluginC"]}
    if not all(e in known for e in entries):
        entries = ["pyvc_order_a.PluginA", "pyvc_order_b", "pyvc_order_a.PluginC"]      # the counter-model's shape, on real plugin modules
        rep["inputs"]["replayed_as"] = entries
    want = [n for e in entries for n in known[e]]
    try:
        got = [c.__name__ for c in EXP.get_plugins_types(entries)]
        rep["outcome"] = {"return": got}
        if got != want:
            rep["failed"].append("post.classes-in-configuration-order")
    except Exception as e:      # noqa
        rep["outcome"] = {"raise": type(e).__name__, "message": str(e)[:200]}
        rep["failed"].append("post.classes-in-configuration-order")
    return rep


CONTRACTS += [GetPluginsTypes()] + STUBS


# ------------------------------------------------------------------------------------------ hook application, natively
def bounded_hook_order(tier, seed):
    """`several plugins are applied to each hook in configuration order` and `a plugin overriding no hook changes no byte`,
    natively on the real PluginManager with throw-away plugins whose hooks RETURN NEW OBJECTS (the bundled plugins mutate
    in place and would hide a manager that forgets to thread the result through)"""
    import graphql as G
    schema = G.build_schema("type Query { a: Int }")
    str_hooks = ["generate_client_code", "generate_enums_code", "generate_inputs_code", "generate_result_types_code", "copy_code",
                 "generate_init_code", "process_name"]

    def stamp(tag):
        ns = {}
        for h in str_hooks:
            ns[h] = (lambda t: lambda self, s, *a, **k: s + t)(f"<{tag}:{h}>")
        ns["generate_operation_str"] = lambda self, s, *a, **k: s + f"<{tag}:op>"
        ns["generate_init_module"] = lambda self, m: ast.Module(body=list(m.body) + [ast.Expr(value=ast.Constant(value=tag))], type_ignores=[])
        return type("Stamp" + tag, (PB.Plugin,), ns)
    A, B, C = stamp("A"), stamp("B"), stamp("C")
    Identity = type("Identity", (PB.Plugin,), {})
    cases, fails = 0, []
    for order in ([A], [A, Identity], [Identity, A], [A, B], [B, A], [A, Identity, B, C], [Identity, Identity], []):
        m = PM.PluginManager(schema=schema, plugins_types=order)
        tags = [c.__name__[5:] for c in order if c is not Identity]
        for h in str_hooks + ["generate_operation_str"]:
            cases += 1
            try:
                got = getattr(m, h)("x") if h != "generate_operation_str" else m.generate_operation_str("x", operation_definition=None)
            except Exception as e:      # noqa
                got = f"raises {type(e).__name__}: {e}"
            want = "x" + "".join(f"<{t}:{'op' if h == 'generate_operation_str' else h}>" for t in tags)
            if got != want:
                fails.append(dict(inputs=dict(scenario=f"{'+'.join(c.__name__ for c in order) or 'none'}:{h}"), outcome=got,
                                  failed=["hooks-applied-in-configuration-order/each-on-the-result-of-the-previous"]))
        cases += 1
        mod = m.generate_init_module(ast.Module(body=[], type_ignores=[]))
        got = [st.value.value for st in mod.body]
        if got != tags:
            fails.append(dict(inputs=dict(scenario=f"{'+'.join(c.__name__ for c in order) or 'none'}:generate_init_module"), outcome=got,
                              failed=["hooks-applied-in-configuration-order/each-on-the-result-of-the-previous"]))
    return dict(function="ariadne_codegen.plugins.manager:PluginManager._apply_plugins_on_object", name="bounded.hook-order",
                kind="bounded stand-in (native)", domain="8 plugin lists (stamping plugins returning new objects, identity plugins) x 8 string hooks + 1 AST hook",
                cases=cases, failed=len(fails), failures=fails[:10])
