"""C17 - `invalid input is rejected up front, with a typed error and no side effects`.

Bounded stand-in (native, end to end, never counted as proved): every single-constraint violation of a valid base
configuration (client and graphqlschema strategies) is run through the real entry points `main.client` /
`main.graphql_schema` with a pre-populated target directory; the command must fail with an exception class defined in
`ariadne_codegen.exceptions` (the specific class where the statement names one) and the snapshot of the target tree must
be unchanged.  Valid configurations (with unknown keys) must be accepted and the configuration dict must not be mutated.
"""
import contextlib
import copy
import hashlib
import io
import os
import shutil
import tempfile
import warnings

from ariadne_codegen import exceptions as EX

SCHEMA = """
interface Node { id: ID! }
type User implements Node { id: ID! name: String role: Role }
enum Role { ADMIN USER }
input Filter { role: Role = USER }
type Query { user(id: ID!, f: Filter): User }
scalar DateTime
"""
QUERIES = "query GetUser($id: ID!) { user(id: $id) { id name } }\n"


def _snapshot(root):
    """every directory, and every file with content hash and modification time: creating a directory or an empty file,
    rewriting or touching an existing file all count as `created or modified`"""
    out = {}
    for d, dirs, files in os.walk(root):
        for sub in dirs:
            if sub != "__pycache__":
                out[os.path.relpath(os.path.join(d, sub), root) + os.sep] = "dir"
        if os.path.basename(d) == "__pycache__":
            continue
        for f in files:
            p = os.path.join(d, f)
            out[os.path.relpath(p, root)] = (hashlib.sha256(open(p, "rb").read()).hexdigest()[:12], os.stat(p).st_mtime_ns)
    return out


class Sandbox:
    def __init__(self):
        self.root = tempfile.mkdtemp(prefix="pyvc_cfg_")
        w = lambda rel, text: (os.makedirs(os.path.dirname(os.path.join(self.root, rel)), exist_ok=True),   # noqa: E731
                               open(os.path.join(self.root, rel), "w").write(text))
        w("schema.graphql", SCHEMA)
        w("queries.graphql", QUERIES)
        w("bad_syntax.graphql", "type Query { a: Int ")
        w("empty.graphql", "")
        w("pyvc_cfg_plugins.py", "import graphql\nfrom ariadne_codegen.plugins.base import Plugin\n\n\nclass BreakSchema(Plugin):\n"
                                 "    def process_schema(self, schema):\n"
                                 "        return graphql.GraphQLSchema(query=graphql.GraphQLObjectType('Query', {}))\n")
        w("blank.graphql", "  \n\t\n")
        w("schema_dir_with_empty/a.graphql", SCHEMA)
        w("schema_dir_with_empty/b_empty.graphql", "\n")
        w("queries_dir_with_empty/a.graphql", QUERIES)
        w("queries_dir_with_empty/b_empty.graphql", "   ")
        w("bad_queries.graphql", "query Q { user(id: 1) { ")
        w("invalid_op_unknown_field.graphql", "query Q { user(id: 1) { nope } }")
        w("invalid_op_missing_arg.graphql", "query Q { user { id } }")
        w("invalid_op_unknown_type.graphql", "query Q($f: Nope) { user(id: 1) { id } }")
        w("invalid_op_unused_variable.graphql", "query Q($x: Int) { user(id: 1) { id } }")
        w("invalid_op_undefined_variable.graphql", "query Q { user(id: $id) { id } }")
        w("invalid_op_duplicate_name.graphql", "query Q { user(id: 1) { id } } query Q { user(id: 2) { id } }")
        w("invalid_op_unknown_fragment.graphql", "query Q { user(id: 1) { ...Nope } }")
        w("invalid_op_wrong_arg_type.graphql", 'query Q { user(id: 1, f: {role: "x"}) { id } }')
        w("invalid_op_scalar_selection.graphql", "query Q { user(id: 1) { id { x } } }")
        w("schema_dir_bad/a.graphql", "type Query { a: Int }")
        w("schema_dir_bad/b.graphql", "type Broken { ")
        w("schema_dir_split/a.graphql", "type Query { a: Int")
        w("schema_dir_split/b.graphql", "}")
        w("queries_dir_split/a.graphql", "query A { user(id: 1) { id ")
        w("queries_dir_split/b.graphql", "} }")
        w("invalid_schema_no_query.graphql", "type Mutation { a: Int }")
        w("invalid_schema_interface_not_implemented.graphql", "interface Node { id: ID! } type User implements Node { name: String } type Query { u: User }")
        w("invalid_schema_empty_union.graphql", "union U type Query { u: U }")
        w("invalid_schema_unknown_type.graphql", "type Query { u: Nope }")
        w("invalid_schema_empty_object.graphql", "type Empty type Query { e: Empty }")
        w("invalid_schema_duplicate_type.graphql", "type A { x: Int } type A { y: Int } type Query { a: A }")
        w("typename_query.graphql", "query Q { __typename }")
        w("op_named_enums.graphql", "query enums { user(id: 1) { id } }")
        w("op_named_client.graphql", "query Client { user(id: 1) { id } }")
        w("op_named_exceptions.graphql", "query Exceptions { user(id: 1) { id } }")
        w("get_user.py", "# a file to include that is named like an operation module\n")
        w("custom_base_client.py", "class OtherName:\n    pass\n")
        w("commented_base_client.py", "# class CustomBase used to live here\nimport httpx\n\nclass Other:\n    \"\"\"CustomBase replacement\"\"\"\n    def CustomBase_compat(self):\n        return httpx.AsyncClient\n")
        w("a_directory/inner.py", "x = 1\n")
        w("not_a_dir.txt", "x")
        # previous generation in the target directory
        w("target/pkg/__init__.py", "# previous generation\n")
        w("target/pkg/client.py", "PREVIOUS = True\n")
        w("target/unrelated.txt", "keep me\n")
        w("schema_out/schema.py", "PREVIOUS_SCHEMA = True\n")

    def p(self, rel):
        return os.path.join(self.root, rel)

    def client_cfg(self, **over):
        cfg = dict(schema_path=self.p("schema.graphql"), queries_path=self.p("queries.graphql"), target_package_name="pkg",
                   target_package_path=self.p("target"), include_comments="none", plugins=[])
        for k, v in over.items():
            if v is _DROP:
                cfg.pop(k, None)
            else:
                cfg[k] = v
        return cfg

    def schema_cfg(self, **over):
        cfg = dict(schema_path=self.p("schema.graphql"), target_file_path=self.p("schema_out/schema.py"), plugins=[])
        for k, v in over.items():
            if v is _DROP:
                cfg.pop(k, None)
            else:
                cfg[k] = v
        return cfg

    def close(self):
        shutil.rmtree(self.root, ignore_errors=True)


_DROP = object()
CODEGEN = EX.CodeGenException


def _violations(sb):
    """(name, strategy, config, expected exception classes)"""
    C, S = sb.client_cfg, sb.schema_cfg
    v = [
        ("no-schema-source", "client", C(schema_path=_DROP), (EX.InvalidConfiguration, EX.MissingConfiguration)),
        ("schema-path-missing", "client", C(schema_path=sb.p("nope.graphql")), (EX.InvalidConfiguration,)),
        ("queries-path-missing", "client", C(queries_path=sb.p("nope.graphql")), (EX.InvalidConfiguration,)),
        ("queries-path-absent", "client", C(queries_path=_DROP), (EX.MissingConfiguration, EX.InvalidConfiguration)),
        ("target-path-is-a-file", "client", C(target_package_path=sb.p("not_a_dir.txt")), (EX.InvalidConfiguration,)),
        ("target-path-does-not-exist", "client", C(target_package_path=sb.p("no_such_dir")), (EX.InvalidConfiguration,)),
        ("target-path-does-not-exist-nested-with-trailing-slash", "client", C(target_package_path=sb.p("no_such_dir") + "/deeper/"), (EX.InvalidConfiguration,)),
        ("target-path-below-a-file", "client", C(target_package_path=sb.p("not_a_dir.txt") + "/sub"), (EX.InvalidConfiguration,)),
        # a remote url that the http library cannot even parse is a bad url like any other: the introspection error, not an httpx one
        ("remote-url-with-a-non-numeric-port", "client", C(schema_path=_DROP, remote_schema_url="http://localhost:80a0/graphql"), (EX.IntrospectionError, EX.InvalidConfiguration)),
        ("remote-url-with-an-unbalanced-bracket", "schema", S(schema_path=_DROP, remote_schema_url="http://[::1/graphql"), (EX.IntrospectionError, EX.InvalidConfiguration)),
        ("remote-url-with-a-control-character", "client", C(schema_path=_DROP, remote_schema_url="http://localhost:1/gra\x07phql"), (EX.IntrospectionError, EX.InvalidConfiguration)),
        ("unknown-comment-mode", "client", C(include_comments="loud"), (EX.InvalidConfiguration,)),
        ("unknown-comment-mode-capitalised", "client", C(include_comments="Stable"), (EX.InvalidConfiguration,)),
        ("scalar-without-type", "client", C(scalars={"DateTime": {"parse": "x.y"}}), (EX.MissingConfiguration,)),
        # the header constraint does not depend on which schema source is used
        ("unresolvable-header-variable:local-schema", "client", C(remote_schema_headers={"Authorization": "$PYVC_DEFINITELY_UNSET_VARIABLE"}), (EX.InvalidConfiguration,)),
        ("unresolvable-header-variable:local-schema:graphqlschema", "schema", S(remote_schema_headers={"X-Key": "$PYVC_DEFINITELY_UNSET_VARIABLE"}), (EX.InvalidConfiguration,)),
        ("unresolvable-header-variable", "client", C(schema_path=_DROP, remote_schema_url="http://127.0.0.1:9/graphql",
                                                    remote_schema_headers={"Authorization": "$PYVC_DEFINITELY_UNSET_VARIABLE"}), (EX.InvalidConfiguration,)),
        ("base-client-file-missing", "client", C(base_client_file_path=sb.p("nope.py"), base_client_name="X"), (EX.InvalidConfiguration,)),
        ("base-client-class-missing", "client", C(base_client_file_path=sb.p("custom_base_client.py"), base_client_name="CustomBase"), (EX.InvalidConfiguration,)),
        ("files-to-include-missing", "client", C(files_to_include=[sb.p("nope.py")]), (EX.InvalidConfiguration,)),
        ("files-to-include-is-a-directory", "client", C(files_to_include=[sb.p("custom_base_client.py"), sb.p("a_directory")]), (EX.InvalidConfiguration,)),
        ("base-client-name-only-mentioned-in-comments", "client", C(base_client_file_path=sb.p("commented_base_client.py"), base_client_name="CustomBase"),
         (EX.InvalidConfiguration,)),
        ("base-client-name-is-a-library-class-used-in-the-file", "client", C(base_client_file_path=sb.p("commented_base_client.py"), base_client_name="AsyncClient"),
         (EX.InvalidConfiguration,)),
        ("schema-syntax", "client", C(schema_path=sb.p("bad_syntax.graphql")), (EX.InvalidGraphqlSyntax,)),
        ("schema-dir-with-one-bad-file", "client", C(schema_path=sb.p("schema_dir_bad")), (EX.InvalidGraphqlSyntax,)),
        ("schema-dir-files-invalid-alone-valid-when-joined", "client", C(schema_path=sb.p("schema_dir_split")), (EX.InvalidGraphqlSyntax,)),
        ("queries-dir-files-invalid-alone-valid-when-joined", "client", C(queries_path=sb.p("queries_dir_split")), (EX.InvalidGraphqlSyntax,)),
        ("operation-module-collides:enums", "client", C(queries_path=sb.p("op_named_enums.graphql")), (CODEGEN,)),
        ("operation-module-collides:client", "client", C(queries_path=sb.p("op_named_client.graphql")), (CODEGEN,)),
        ("operation-module-collides:exceptions", "client", C(queries_path=sb.p("op_named_exceptions.graphql")), (CODEGEN,)),
        ("module-name-collides:enums_module_name=base_model", "client", C(enums_module_name="base_model"), (CODEGEN,)),
        ("file-to-include-named-like-an-operation-module", "client", C(files_to_include=[sb.p("get_user.py")]), (CODEGEN,)),
        ("queries-syntax", "client", C(queries_path=sb.p("bad_queries.graphql")), (EX.InvalidGraphqlSyntax,)),
        ("bad-target-file-type", "schema", S(target_file_path=sb.p("schema_out/schema.txt")), (EX.InvalidConfiguration,)),
        ("bad-target-file-type:pyc", "schema", S(target_file_path=sb.p("schema_out/schema.pyc")), (EX.InvalidConfiguration,)),
        ("bad-target-file-type:graphqls", "schema", S(target_file_path=sb.p("schema_out/schema.graphqls")), (EX.InvalidConfiguration,)),
        ("bad-target-file-type:py.bak", "schema", S(target_file_path=sb.p("schema_out/schema.py.bak")), (EX.InvalidConfiguration,)),
        ("bad-target-file-type:no-suffix", "schema", S(target_file_path=sb.p("schema_out/python")), (EX.InvalidConfiguration,)),
        ("schema-strategy-no-source", "schema", S(schema_path=_DROP), (EX.InvalidConfiguration, EX.MissingConfiguration)),
        ("schema-strategy-syntax", "schema", S(schema_path=sb.p("bad_syntax.graphql")), (EX.InvalidGraphqlSyntax,)),
        # a file without any definition is not a GraphQL document (single file or one file of a directory, schema or operations)
        ("empty-schema-file", "client", C(schema_path=sb.p("empty.graphql")), (EX.InvalidGraphqlSyntax,)),
        ("blank-schema-file:graphqlschema", "schema", S(schema_path=sb.p("blank.graphql")), (EX.InvalidGraphqlSyntax,)),
        ("blank-queries-file", "client", C(queries_path=sb.p("blank.graphql")), (EX.InvalidGraphqlSyntax,)),
        ("empty-file-in-schema-directory", "client", C(schema_path=sb.p("schema_dir_with_empty")), (EX.InvalidGraphqlSyntax,)),
        ("empty-file-in-schema-directory:graphqlschema", "schema", S(schema_path=sb.p("schema_dir_with_empty")), (EX.InvalidGraphqlSyntax,)),
        ("blank-file-in-queries-directory", "client", C(queries_path=sb.p("queries_dir_with_empty")), (EX.InvalidGraphqlSyntax,)),
        # the schema that is generated from is the one the plugins hand back: it is checked, too
        ("invalid-schema-from-a-plugin", "client", C(plugins=["pyvc_cfg_plugins.BreakSchema"], queries_path=sb.p("typename_query.graphql")), (CODEGEN,)),
        ("invalid-schema-from-a-plugin:graphqlschema", "schema", S(plugins=["pyvc_cfg_plugins.BreakSchema"]), (CODEGEN,)),
        # the same failures with a target file that does not exist yet in the existing directory (no file may appear)
        ("schema-strategy-syntax:fresh-target", "schema", S(schema_path=sb.p("bad_syntax.graphql"), target_file_path=sb.p("schema_out/fresh_schema.py")), (EX.InvalidGraphqlSyntax,)),
        ("schema-strategy-syntax:fresh-graphql-target", "schema", S(schema_path=sb.p("bad_syntax.graphql"), target_file_path=sb.p("schema_out/fresh_schema.graphql")), (EX.InvalidGraphqlSyntax,)),
        ("client-syntax-in-queries:fresh-target", "client", C(queries_path=sb.p("bad_queries.graphql"), target_package_name="fresh_pkg"), (EX.InvalidGraphqlSyntax,)),
    ]
    for opt in ("target_package_name", "client_name", "client_file_name", "base_client_name", "enums_module_name",
                "input_types_module_name", "fragments_module_name"):
        for bad in ("1abc", "a-b", "a b", "import", ""):
            if opt == "base_client_name":
                continue        # changes which class must exist in the base client file: another constraint
            v.append((f"name-not-usable:{opt}={bad!r}", "client", C(**{opt: bad}), (EX.InvalidConfiguration,)))
    for opt in ("schema_variable_name", "type_map_variable_name"):
        for bad in ("1abc", "a-b", "class", ""):
            v.append((f"name-not-usable:{opt}={bad!r}", "schema", S(**{opt: bad}), (EX.InvalidConfiguration,)))
    for f in sorted(os.listdir(sb.root)):
        if f.startswith("invalid_op_"):
            v.append((f"invalid-operation:{f[len('invalid_op_'):-len('.graphql')]}", "client", C(queries_path=sb.p(f)), (EX.InvalidOperationForSchema,)))
        if f.startswith("invalid_schema_"):
            n = f[len("invalid_schema_"):-len(".graphql")]
            v.append((f"invalid-schema:{n}", "client", C(schema_path=sb.p(f), queries_path=sb.p("typename_query.graphql")), (CODEGEN,)))
            v.append((f"invalid-schema:{n}:graphqlschema", "schema", S(schema_path=sb.p(f)), (CODEGEN,)))
            v.append((f"invalid-schema:{n}:graphqlschema:fresh-target", "schema", S(schema_path=sb.p(f), target_file_path=sb.p("schema_out/fresh_schema.py")), (CODEGEN,)))
            v.append((f"invalid-schema:{n}:custom-operations-without-queries", "client",
                      C(schema_path=sb.p(f), queries_path=_DROP, enable_custom_operations=True), (CODEGEN,)))
    return v


def _run(strategy, cfg):
    from ariadne_codegen.main import client, graphql_schema
    import sys
    for pl in cfg.get("plugins") or ():
        root = os.path.dirname(cfg.get("schema_path") or "")
        if pl.startswith("pyvc_cfg_plugins") and root and root not in sys.path:
            sys.path.insert(0, root)
            sys.modules.pop("pyvc_cfg_plugins", None)
    config = {"tool": {"ariadne-codegen": cfg}}
    before = copy.deepcopy(config)
    exc = None
    with contextlib.redirect_stdout(io.StringIO()), warnings.catch_warnings():
        warnings.simplefilter("ignore")
        try:
            (client if strategy == "client" else graphql_schema)(config)
        except BaseException as e:      # noqa
            exc = e
    return exc, config == before


def bounded_rejections(tier, seed):
    cases, fails = 0, []
    sb = Sandbox()
    try:
        todo = _violations(sb)
        for i in range(len(todo)):
            name, strategy, cfg, expected = todo[i]
            cases += 1
            before = _snapshot(sb.root)
            exc, unmutated = _run(strategy, cfg)
            after = _snapshot(sb.root)
            bad = []
            if exc is None:
                bad.append("invalid-input-is-refused")
            elif not isinstance(exc, expected):
                bad.append("fails-with-the-corresponding-ariadne-codegen-exception")
            if after != before:
                bad.append("no-file-created-or-modified-before-the-failure")
            if not unmutated:
                bad.append("configuration-not-mutated")
            if bad:
                fails.append(dict(inputs=dict(scenario=f"{name} -> {'+'.join(bad)}"), failed=bad,
                                  outcome=f"{type(exc).__name__ if exc else 'accepted'}: {str(exc)[:160] if exc else ''}",
                                  changed=sorted(k for k in set(before) | set(after) if before.get(k) != after.get(k))[:6]))
                if after != before:          # restore the sandbox for the next scenario
                    sb.close()
                    sb = Sandbox()
                    todo = _violations(sb)
        # accepted configurations
        for name, strategy, cfg in (("valid-client", "client", sb.client_cfg()),
                                    ("valid-client-unknown-keys", "client", sb.client_cfg(totally_unknown_key=1, another={"x": [1]})),
                                    ("valid-client-scalars", "client", sb.client_cfg(scalars={"DateTime": {"type": "datetime.datetime"}})),
                                    ("valid-client-boolean-comments", "client", sb.client_cfg(include_comments=False)),
                                    ("valid-schema", "schema", sb.schema_cfg()),
                                    ("valid-schema-unknown-keys", "schema", sb.schema_cfg(whatever=True)),
                                    # one section shared by both commands: each ignores the keys of the other
                                    ("valid-schema-with-the-client-keys-present", "schema",
                                     sb.schema_cfg(queries_path=sb.p("queries.graphql"), target_package_name="graphql_client", client_name="Client",
                                                   include_comments="none", scalars={"DateTime": {"type": "datetime.datetime"}}, async_client=False)),
                                    ("valid-client-with-the-schema-keys-present", "client",
                                     sb.client_cfg(target_file_path=sb.p("schema_out/schema.py"), schema_variable_name="schema", type_map_variable_name="type_map"))):
            cases += 1
            exc, unmutated = _run(strategy, cfg)
            bad = []
            if exc is not None:
                bad.append("valid-configuration-accepted")
            if not unmutated:
                bad.append("configuration-not-mutated")
            if bad:
                fails.append(dict(inputs=dict(scenario=name), failed=bad, outcome=f"{type(exc).__name__ if exc else 'accepted'}: {str(exc)[:160] if exc else ''}"))
    finally:
        sb.close()
    return dict(function="ariadne_codegen.main:client", name="bounded.rejections", kind="bounded stand-in (end-to-end, native)",
                domain="single-constraint violations of a valid configuration (missing source/paths, unusable names for every name option, "
                       "comment mode, scalar without type, header variable, base client, target file type), syntax errors (file, one file of a "
                       "directory, operations), 6 classes of invalid schema x 2 strategies, 9 classes of invalid operation; target tree "
                       "snapshot before/after; 6 valid configurations incl. unknown keys; configuration dict compared before/after",
                cases=cases, failed=len(fails), failures=fails)


def bounded_bad_remote_urls(tier, seed):
    """C19: `introspection failures (bad URL, ...) surface as the introspection error` - through the whole command, for urls the
    http library cannot parse, or has no transport for; nothing of the target is written"""
    cases, fails = 0, []
    sb = Sandbox()
    try:
        urls = {"non-numeric-port": "http://localhost:80a0/graphql", "unbalanced-bracket": "http://[::1/graphql", "control-character": "http://localhost:1/gra\x07phql",
                "no-scheme": "localhost:1/graphql", "unsupported-scheme": "ftp://localhost/graphql", "empty-host": "http:///graphql"}
        # (a well-formed url at which nothing listens is a transport failure - httpx.ConnectError escapes as it is; the statement lists
        #  bad URL, non-2xx, non-JSON, errors and malformed data, so that case is not demanded here)
        for name, url in urls.items():
            for strategy, cfg in (("client", sb.client_cfg(schema_path=_DROP, remote_schema_url=url)), ("schema", sb.schema_cfg(schema_path=_DROP, remote_schema_url=url))):
                cases += 1
                before = _snapshot(sb.root)
                exc, unmutated = _run(strategy, cfg)
                after = _snapshot(sb.root)
                bad = []
                if exc is None:
                    bad.append("bad-url-is-refused")
                elif not isinstance(exc, (EX.IntrospectionError, EX.InvalidConfiguration)):
                    bad.append("surfaces-as-the-introspection-error")
                if after != before:
                    bad.append("no-file-created-or-modified-before-the-failure")
                if bad:
                    fails.append(dict(inputs=dict(scenario=f"{name}:{strategy} -> {'+'.join(bad)}", url=url), failed=bad,
                                      outcome=f"{type(exc).__module__}.{type(exc).__name__ if exc else 'accepted'}: {str(exc)[:160] if exc else ''}"))
                    if after != before:
                        sb.close()
                        sb = Sandbox()
    finally:
        sb.close()
    return dict(function="ariadne_codegen.schema:introspect_remote_schema", name="bounded.bad-remote-urls", kind="bounded stand-in (end-to-end, native)",
                domain="6 classes of unusable remote_schema_url x 2 commands: the command fails with the introspection (or configuration) error, target tree unchanged",
                cases=cases, failed=len(fails), failures=fails)


def witness_rejections():
    out = bounded_rejections("quick", 0)
    cases = sorted(f["inputs"]["scenario"] for f in out["failures"])
    return dict(inputs={"scenario": "rejections"}, cases=cases, failed=["invalid-input-is-refused-up-front"] if cases else [],
                detail={f["inputs"]["scenario"]: [f["failed"], f["outcome"]] for f in out["failures"]})


if __name__ == "__main__":
    import json
    r = bounded_rejections("quick", 0)
    print(r["cases"], r["failed"])
    for f in r["failures"]:
        print(json.dumps(f)[:400])
