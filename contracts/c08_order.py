"""C08 - `fragment classes are defined before their dependants whatever the definition order in the queries file`:
the topological sort of FragmentsGenerator._get_sorted_fragments_names, i.e. its recursive closure visit(name).

The dependency relation of fragment classes is acyclic (a fragment cannot spread itself, directly or through others -
graphql-core's NoFragmentCycles); the proof carries that as a ghost rank:  d in dependencies[n]  =>  rank(d) < rank(n).

Contract of ONE call visit(name) on an arbitrary state (V = visited, S = sorted_names), for arbitrary names X, W:

  requires   every name that is visited but not yet sorted (an unfinished ancestor) has a higher rank than `name`;
             S is a subset of V;  in S every dependency precedes its dependant (for X, W);  dependencies of listed names have entries
  ensures    S' = S ++ (some names that were not visited before);  V grows;  S' is a subset of V';  name is in S';
             no new unfinished name:  visited-but-unsorted after  =>  visited-but-unsorted before;
             in S' every dependency precedes its dependant:   X in S'  and  W in dependencies[X]   =>   W occurs in S' before X

`before(S, w, x)` (w occurs in S before the first x) is a recursive predicate; its two laws about concatenation are recorded
lemma instances (theorems by induction on the first list).  The contract is its own induction hypothesis at the recursive calls
(partial correctness; termination = visited grows inside the finite set of names).  sorted(set) is py_sorted: its elements are
exactly the set's (assumed, instances).  The exhaustive bounded stand-in (all DAGs on 4 / 5 names) stays next to the proof."""
import z3
from pyvc import val as V
from pyvc import models
from pyvc.val import SV, Obj, MList, MSet
from pyvc.contract import Contract, self_obj
from pyvc.spec import *   # noqa
from . import lib_graphql as GQ
from ariadne_codegen.client_generators import fragments as FR

MOD = "ariadne_codegen.client_generators.fragments:FragmentsGenerator."
X = z3.Const("any_fragment_x", V.Val)
W = z3.Const("any_fragment_w", V.Val)
RANK = z3.Function("fragment_rank", V.Val, z3.IntSort())                    # ghost: witnesses that the dependencies are acyclic
BEFORE = z3.RecFunction("occurs_before_the_first", V.VL, V.Val, V.Val, z3.BoolSort())     # before(S, w, x)
_s, _w, _x = z3.Const("bf_s", V.VL), z3.Const("bf_w", V.Val), z3.Const("bf_x", V.Val)
z3.RecAddDefinition(BEFORE, [_s, _w, _x], z3.If(V.is_VNil(_s), z3.BoolVal(False),
                                                 z3.If(V.hd(_s) == _x, z3.BoolVal(False), z3.Or(V.hd(_s) == _w, BEFORE(V.tl(_s), _w, _x)))))
SET_OF_NAMES = Cls(V.PySet, elems=ListOf(GQ.NAME, name="dependency_names"))
DEPS = DictOf(GQ.NAME, SET_OF_NAMES, name="dependencies_of_fragments")


def mem(l, w):
    return V.vcontains(l, w)


def deps_of(D, n):
    return V.set_elems(get(D, n))


def unfinished(Vt, St, c):
    return z3.And(mem(Vt, c), z3.Not(mem(St, c)))


_q = z3.Const("any_unfinished_name", V.Val)


def no_new_unfinished(Va, Sa, Vb, Sb):
    """for ALL names (a genuine quantifier: the recursive call is made for an arbitrary dependency, which is none of the fixed names)"""
    return z3.ForAll([_q], z3.Implies(unfinished(Va, Sa, _q), unfinished(Vb, Sb, _q)))


def unfinished_rank_higher(Vb, Sb, name):
    return z3.ForAll([_q], z3.Implies(unfinished(Vb, Sb, _q), RANK(_q) > RANK(name)))


def sorted_are_visited(Vt, St):
    return z3.ForAll([_q], z3.Implies(mem(St, _q), mem(Vt, _q)))


def before_laws(A, B, w, x):
    """the two laws of `before` on a concatenation (by induction on A)"""
    AB = V.vl_concat(A, B)
    return [z3.Implies(mem(A, x), BEFORE(AB, w, x) == BEFORE(A, w, x)),
            z3.Implies(z3.Not(mem(A, x)), BEFORE(AB, w, x) == z3.Or(mem(A, w), BEFORE(B, w, x)))]


def requires(D, name, Vb, Sb, consts):
    return z3.And(unfinished_rank_higher(Vb, Sb, name),
                  sorted_are_visited(Vb, Sb),
                  z3.Implies(z3.And(mem(Sb, X), mem(deps_of(D, X), W)), BEFORE(Sb, W, X)),
                  has(D, name))


def clauses(D, name, Vb, Va, Sb, Sa, consts):
    """the contract of visit(name) taking (Vb, Sb) to (Va, Sa): the same clauses are proved for the function and assumed for
    its recursive calls"""
    return {
        "visited-grows": z3.And(*[z3.Implies(mem(Vb, c), mem(Va, c)) for c in consts]),
        "sorted-names-grow-by-names-not-visited-before": z3.And(*[z3.And(z3.Implies(mem(Sb, c), mem(Sa, c)),
                                                                             z3.Implies(z3.And(mem(Sa, c), z3.Not(mem(Sb, c))), z3.Not(mem(Vb, c)))) for c in consts]),
        "sorted-names-are-visited": sorted_are_visited(Va, Sa),
        "the-name-is-sorted": mem(Sa, name),
        "no-new-unfinished-name": no_new_unfinished(Va, Sa, Vb, Sb),
        "every-dependency-precedes-its-dependant": z3.Implies(z3.And(mem(Sa, X), mem(deps_of(D, X), W)), BEFORE(Sa, W, X)),
        "order-of-the-names-sorted-before-is-kept": z3.Implies(BEFORE(Sb, W, X), BEFORE(Sa, W, X)),
    }


def _state(env):
    return env.lookup("visited").elems, V.vl(V.lower(env.lookup("sorted_names")))


def _facts(D, n, also=()):
    """instances of the assumptions about the dependency relation for the names at hand"""
    out = []
    for a, b in [(n, W), (X, W)] + [(n, c) for c in also]:
        out.append(z3.Implies(mem(deps_of(D, a), b), z3.And(RANK(b) < RANK(a), has(D, b))))       # acyclic (ghost rank); every dependency has an entry
    return out


def _inv(rest, xs, st, I, env):
    name = V.lower(env.lookup("name"))
    D = V.lower(env.lookup("dependencies_dict"))
    Vc, Sc = _state(env)
    V0, S0 = I.ctx.__dict__["vis_V0"], I.ctx.__dict__["vis_S0"]
    V1 = V.vl_concat(V0, V.VCons(name, V.VNil))
    consts = (X, W, name)
    dn = deps_of(D, name)
    rs = z3.simplify(rest)
    if z3.is_app(rs) and rs.decl().name() == "VCons":
        x = rs.arg(0)
        V.LEMMAS.extend(_facts(D, name, also=(x,)))
        V.LEMMAS.append(mem(xs, x) == mem(dn, x))                    # sorted(set) has exactly the set's elements
    V.LEMMAS.append(mem(xs, W) == mem(dn, W))
    if z3.is_app(rs) and rs.decl().name() == "VNil":
        I_last_loop_state["S"] = Sc            # the list the loop leaves (the name is appended to it next)
    return z3.And(*[z3.Implies(mem(V1, c), mem(Vc, c)) for c in consts],                       # visited grows
                  *[z3.Implies(mem(S0, c), mem(Sc, c)) for c in consts],                       # sorted grows ...
                  *[z3.Implies(z3.And(mem(Sc, c), z3.Not(mem(S0, c))), z3.Not(mem(V1, c))) for c in consts],      # ... by names not visited at the loop head
                  sorted_are_visited(Vc, Sc),
                  no_new_unfinished(Vc, Sc, V1, S0),
                  z3.Implies(mem(xs, W), z3.Or(mem(Sc, W), mem(rest, W))),                    # the dependencies passed so far are sorted
                  z3.Implies(z3.And(mem(Sc, X), mem(deps_of(D, X), W)), BEFORE(Sc, W, X)),
                  z3.Implies(BEFORE(S0, W, X), BEFORE(Sc, W, X)))


_inv.extra_mutated = [("visited",), ("sorted_names",)]


class VisitOrder(Contract):
    props = ("C08", "C04")
    target = MOD + "_get_sorted_fragments_names.<locals>.visit"
    partial_correctness = True
    frame_args = False
    assume_proved = True
    trusted = ["termination of the walk (visited grows inside the finite set of fragment names) is not proved",
               "the dependencies of fragment classes are acyclic (NoFragmentCycles): carried as a ghost rank, instantiated for the names at hand; every dependency has an entry in the dictionary",
               "sorted(set) = py_sorted: exactly the set's elements (instances); `before` on a concatenation: two lemma instances per use (by induction on the first list)"]
    loops = {"FragmentsGenerator._get_sorted_fragments_names.<locals>.visit": _inv}

    def closure_env(self, E):
        D = E.sym("dependencies_dict", DEPS)
        vis = E.mset("visited0", GQ.NAME)
        srt = E.mlist("sorted_names0", GQ.NAME)
        E.ctx.vis_V0, E.ctx.vis_S0 = vis.elems, V.vl(srt.t)
        E.ctx.inputs["any_fragment_x"], E.ctx.inputs["any_fragment_w"] = X, W
        self._D, self._V0, self._S0 = D, vis.elems, V.vl(srt.t)
        return dict(dependencies_dict=D, visited=vis, sorted_names=srt)

    def setup(self, E):
        name = E.sym("name", GQ.NAME)
        E.assume(requires(self._D.t, name.t, self._V0, self._S0, (X, W, name.t)))
        V.LEMMAS.extend(_facts(self._D.t, name.t))
        return [name], {}

    def apply_at_call(self, I, fn, args, kwargs):
        if getattr(I.p, "in_comprehension", False):
            from pyvc.interp import Unsupported
            raise Unsupported("a call that changes the bookkeeping state inside a comprehension (the comprehension rule covers pure element expressions)")
        names = self.call_names(fn, args, kwargs, I)
        n = V.lower(names["name"])
        env = fn.env
        vis, srt = env.lookup("visited"), env.lookup("sorted_names")
        if not isinstance(vis, MSet) or not isinstance(srt, MList):
            from pyvc.interp import Unsupported
            raise Unsupported("visited / sorted_names are not a set and a list any more")
        D = V.lower(env.lookup("dependencies_dict"))
        outer = I.ctx.entry_args.get("name") if I.ctx.current_key == tuple(self.target.split(":")) else None
        consts = (X, W, n) + ((outer,) if outer is not None else ())
        Vb, Sb = vis.elems, V.vl(srt.t)
        I.p.oblige("pre@visit.unfinished-ancestors-rank-higher/sorted-subset-of-visited/order-holds-so-far", requires(D, n, Vb, Sb, consts), "pre@call")
        Va, Sa = I.p.fresh("visited_after_visit", V.VL), I.p.fresh("sorted_after_visit", V.VL)
        for f in clauses(D, n, Vb, Va, Sb, Sa, consts).values():
            I.p.assume(f)
        vis.elems, srt.t = Va, V.VList(Sa)
        models._used(f"contract:{self.target}")
        return None

    def ensures(self, A, res):
        env = A["__path__"].closure_env
        Va, Sa = _state(env)
        D, name = self._D.t, A.name
        V0, S0 = self._V0, self._S0
        I_last = None
        out = clauses(D, name, V0, Va, S0, Sa, (X, W, name))
        out["returns-nothing"] = res == V.VNone
        # the last statement appends the name to the list the loop left: the laws of `before` for that concatenation, and
        # before(S, w, x) => w in S  (instances; each by induction on the list)
        Sl = I_last_loop_state.get("S")
        if Sl is not None:
            for law in before_laws(Sl, V.VCons(name, V.VNil), W, X):
                V.LEMMAS.append(law)
            V.LEMMAS.append(z3.Implies(BEFORE(Sl, W, X), mem(Sl, W)))
        V.LEMMAS.append(z3.Implies(BEFORE(S0, W, X), mem(S0, W)))
        return out


I_last_loop_state = {}


def replay_order():
    """native cross-check through the enclosing method on a few dependency graphs (chains, diamonds, names in reverse alphabetical
    order of the dependencies): a permutation of the names in which every dependency precedes its dependant"""
    g = FR.FragmentsGenerator.__new__(FR.FragmentsGenerator)
    rep = dict(inputs={"graphs": 5}, failed=[], undetermined=[], pre_ok=True, outcome={}, error=None)
    graphs = [{"A": set()}, {"A": {"B"}, "B": {"C"}, "C": set()}, {"Z": set(), "A": {"Z"}, "M": {"A", "Z"}},
              {"D": {"B", "C"}, "B": {"A"}, "C": {"A"}, "A": set(), "E": set()}, {"A": {"B", "C", "D"}, "B": {"D"}, "C": {"D"}, "D": set()}]
    for deps in graphs:
        try:
            out = g._get_sorted_fragments_names(fragments_names=set(deps), dependencies_dict=deps)
        except Exception as e:   # noqa
            rep["failed"].append("no exception may escape")
            rep["outcome"][str(sorted(deps))] = repr(e)
            continue
        rep["outcome"][str(sorted(deps))] = out
        if sorted(out) != sorted(deps):
            rep["failed"].append("post.the-name-is-sorted")
        elif not all(out.index(d) < out.index(k) for k, ds in deps.items() for d in ds):
            rep["failed"].append("post.every-dependency-precedes-its-dependant")
    rep["failed"] = sorted(set(rep["failed"]))
    return rep


VisitOrder.replay_custom = lambda self, inputs: replay_order()
VisitOrder.samples = lambda self, tier: [dict(case="graphs")]
CONTRACTS = [VisitOrder()]
