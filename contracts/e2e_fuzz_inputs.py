"""Bounded stand-in for C03 / C06 with *generated* schemas: a seeded generator builds input object types (every wrapper
combination, defaults of every literal kind, enums, nesting, recursion through nullable fields, names in camelCase /
with a leading underscore / spelled like Python keywords and pydantic attributes), one operation over them and values that
are valid for the schema (fields omitted, explicit nulls, nested objects, lists with null items).  The generated client is
called with models built from those values; the variables it sends are coerced with graphql-core and must equal the
coercion of the original values (so: right names on the wire, omitted stays omitted so that server defaults apply, null
stays null, nothing lost or invented).  The name shapes of the recorded findings (F07, F18, F29) are left out."""
import asyncio
import json
import random
import graphql as G
import httpx
from graphql.execution.values import get_variable_values
from .e2e import generate_client

FIELD_NAMES = ["count", "label", "camelCase", "anotherCamelName", "_under", "class", "from", "schema", "copy", "json", "snake_case", "x1", "URLValue", "in", "is", "modelFields"]
SCALARS = ["Int", "String", "Float", "Boolean", "ID"]


class SchemaGen:
    def __init__(self, seed):
        self.r = random.Random(seed)
        self.r2 = random.Random(seed * 7919 + 13)
        self.enums = {f"E{i}": [f"V{i}A", f"V{i}B", "from" if i == 0 else f"V{i}C"] for i in range(2)}
        self.inputs = {}

    def wrap(self, base):
        w = self.r.choice(["{}", "{}!", "[{}]", "[{}!]", "[{}]!", "[{}!]!", "[[{}]]", "{}", "{}"])
        return w.format(base)

    def literal(self, type_str, depth=0):
        """a GraphQL literal valid for the type (None: no default)"""
        t = type_str
        if t.endswith("!"):
            t = t[:-1]
        elif self.r.random() < 0.2:
            return "null"
        if t.startswith("["):
            inner = t[1:-1]
            items = [self.literal(inner, depth + 1) for _ in range(self.r.randint(0, 2))]
            return None if any(i is None for i in items) else "[" + ", ".join(items) + "]"
        if t in self.enums:
            return self.r.choice(self.enums[t])
        if t in self.inputs:
            if depth > 2:
                return None
            parts = []
            for fn, (fts, fdef) in self.inputs[t].items():
                required = fts.endswith("!") and fdef is None
                if required or self.r.random() < 0.3:
                    lit = self.literal(fts, depth + 1)
                    if lit is None:
                        if required:
                            return None
                        continue
                    parts.append(f"{fn}: {lit}")
            return "{" + ", ".join(parts) + "}"
        return {"Int": str(self.r.randint(-3, 40)), "String": json.dumps(self.r.choice(["", "x y", "q\"uote", "é"])), "Float": self.r.choice(["1.5", "0.0", "2e3"]),
                "Boolean": self.r.choice(["true", "false"]), "ID": self.r.choice(['"id1"', "7"])}[t]

    def build(self):
        n_inputs = self.r.randint(2, 4)
        names = [f"I{i}" for i in range(n_inputs)]
        for i, name in enumerate(names):
            fields = {}
            for fname in self.r.sample(FIELD_NAMES, self.r.randint(2, 5)):
                kind = self.r.random()
                if kind < 0.5:
                    base = self.r.choice(SCALARS)
                elif kind < 0.7:
                    base = self.r.choice(list(self.enums))
                else:
                    base = self.r.choice(names[i:] if self.r.random() < 0.8 else names)
                ts = self.wrap(base)
                if base in names and base in names[:i + 1] and ts.endswith("!") and not ts.startswith("["):
                    ts = ts[:-1]          # a required reference to itself / an earlier input could make the type uninhabited
                fields[fname] = (ts, None)
            self.inputs[name] = fields
        for name in reversed(names):          # defaults in a second pass (object literals need the fields of the other inputs)
            for fname, (ts, _) in list(self.inputs[name].items()):
                if self.r.random() < 0.45:
                    base = ts.strip("[]!")
                    d = self.literal(ts) if base not in self.inputs or names.index(base) > names.index(name) else None
                    if d is not None and "None" not in d:
                        self.inputs[name][fname] = (ts, d)
        sdl = ""
        for e, vals in self.enums.items():
            sdl += f"enum {e} {{ {' '.join(vals)} }}\n"
        for name, fields in self.inputs.items():
            # (optional fields may be marked @deprecated - legal on input fields, kept by graphql-core: they stay fields of the input;
            #  decided by a second random stream so that the other choices of a seed are what they were)
            body = " ".join((f'"documented" ' if self.r.random() < 0.2 else "") + f"{fn}: {ts}" + (f" = {d}" if d is not None else "")
                            + (' @deprecated(reason: "old")' if not (ts.endswith("!") and d is None) and self.r2.random() < 0.2 else "") for fn, (ts, d) in fields.items())
            sdl += f"input {name} {{ {body} }}\n"
        args = []
        for i in range(self.r.randint(2, 4)):
            base = self.r.choice(names + list(self.enums) + SCALARS)
            args.append((f"v{i}", self.wrap(base)))
        sdl += "type Query { q(" + ", ".join(f"{n}: {t}" for n, t in args) + "): Int }\n"
        op = "query Q(" + ", ".join(f"${n}: {t}" for n, t in args) + ") { q(" + ", ".join(f"{n}: ${n}" for n, _ in args) + ") }"
        return sdl, op, args


class ValueGen:
    def __init__(self, schema, seed):
        self.s, self.r = schema, random.Random(seed)

    def value(self, t, depth=0):
        if isinstance(t, G.GraphQLNonNull):
            return self.value(t.of_type, depth, required=True)
        return None if self.r.random() < 0.2 else self.value(t, depth, required=True) if False else self._nullable(t, depth)

    def _nullable(self, t, depth):
        if self.r.random() < 0.2:
            return None
        return self._nonnull(t, depth)

    def value(self, t, depth=0, required=False):      # noqa: F811
        if isinstance(t, G.GraphQLNonNull):
            return self._nonnull(t.of_type, depth)
        return self._nullable(t, depth)

    def _nonnull(self, t, depth):
        if isinstance(t, G.GraphQLNonNull):
            t = t.of_type
        if isinstance(t, G.GraphQLList):
            # (deep in a recursive type lists are empty: a required list of the type itself would otherwise never end)
            return [self.value(t.of_type, depth + 1) for _ in range(self.r.randint(0, 2) if depth < 6 else 0)]
        if isinstance(t, G.GraphQLEnumType):
            return self.r.choice(list(t.values))
        if isinstance(t, G.GraphQLInputObjectType):
            out = {}
            for n, f in t.fields.items():
                required = isinstance(f.type, G.GraphQLNonNull) and f.default_value is G.Undefined
                if required or (depth < 3 and self.r.random() < 0.6):
                    if depth >= 3 and not required:
                        continue
                    out[n] = self.value(f.type, depth + 1)
            return out
        return {"Int": self.r.randint(-5, 5), "String": self.r.choice(["", " padded ", "x"]), "Float": self.r.choice([0.5, 2.0]), "Boolean": self.r.random() < 0.5,
                "ID": self.r.choice(["a1", "7"])}[t.name]


def _to_python(client_pkg, t, v):
    """the argument a user passes: generated input models for input objects (built from the GraphQL names), enum members, plain values"""
    if v is None:
        return None
    if isinstance(t, G.GraphQLNonNull):
        return _to_python(client_pkg, t.of_type, v)
    if isinstance(t, G.GraphQLList):
        return [_to_python(client_pkg, t.of_type, x) for x in v]
    if isinstance(t, G.GraphQLInputObjectType):
        cls = getattr(client_pkg["inputs"], t.name)
        return cls.model_validate({k: _to_python(client_pkg, t.fields[k].type, x) for k, x in v.items()})
    if isinstance(t, G.GraphQLEnumType):
        return next(m for m in getattr(client_pkg["enums"], t.name) if m.value == v)
    return v


def check_schema(seed, n_values=4):
    rep = dict(inputs={"scenario": f"generated-inputs-{seed}"}, failed=[], undetermined=[], pre_ok=True, outcome={}, error=None)
    sdl, op, args = SchemaGen(seed).build()
    try:
        schema = G.build_schema(sdl)
        if G.validate(schema, G.parse(op)):
            rep["pre_ok"] = False
            return rep
    except Exception:      # noqa - the generator produced an invalid default (e.g. {} for an input with required fields): not a schema
        rep["pre_ok"] = False
        return rep
    rep["inputs"]["schema"], rep["inputs"]["operation"] = sdl, op
    g = None
    try:
        g = generate_client(sdl, op, convert_to_snake_case=bool(seed % 3))
        pkg = {"inputs": g.module("input_types"), "enums": g.module("enums")}
        mod = g.module("client")
        op_node = G.parse(op).definitions[0]
        for k in range(n_values):
            vg = ValueGen(schema, seed * 1009 + k)
            raw = {}
            for name, _ in args:
                t = schema.query_type.fields["q"].args[name].type
                if isinstance(t, G.GraphQLNonNull) or vg.r.random() < 0.7:
                    raw[name] = vg.value(t)
            want = get_variable_values(schema, op_node.variable_definitions, raw)
            if isinstance(want, list):
                continue          # the generated value is not valid for the schema (e.g. a recursive required field cut by the depth limit)
            sent = []

            def handler(request):
                sent.append(json.loads(request.content))
                return httpx.Response(200, json={"data": {"q": 1}})
            client = mod.Client(url="http://x/graphql", http_client=httpx.AsyncClient(transport=httpx.MockTransport(handler)))
            import inspect
            params = {p.replace("_", ""): p for p in inspect.signature(client.q).parameters}
            kw = {params[name]: _to_python(pkg, schema.query_type.fields["q"].args[name].type, v) for name, v in raw.items()}
            asyncio.run(client.q(**kw))
            got = get_variable_values(schema, op_node.variable_definitions, sent[-1].get("variables") or {})
            if isinstance(got, list) or got != want:
                rep["failed"].append("variables-coerce-to-the-callers-values")
                rep["outcome"] = {"values": raw, "sent": sent[-1].get("variables"), "coerced": str(got)[:400], "expected": str(want)[:400]}
                break
    except Exception as e:      # noqa
        rep["failed"].append("generated-client-accepts-schema-valid-values")
        rep["outcome"] = {"error": f"{type(e).__name__}: {str(e)[:400]}"}
    finally:
        if g is not None:
            g.cleanup()
    return rep


def bounded_generated_inputs(tier, seed):
    n = 60 if tier == "quick" else 400
    fails, cases, k = [], 0, 0
    while cases < n and k < 10 * n:
        k += 1
        r = check_schema(1000 + k)
        if not r["pre_ok"]:
            continue
        cases += 1
        if r["failed"]:
            fails.append(r)
    return dict(function="ariadne_codegen.client_generators.input_types:InputTypesGenerator", name="bounded.generated-inputs",
                kind="bounded stand-in (seeded schema and value generator, graphql-core coercion, end to end)",
                domain=f"{n} generated schemas (fixed seeds) x 4 schema-valid value sets", cases=cases, failed=len(fails), failures=fails)


if __name__ == "__main__":
    import sys
    n, ok = int(sys.argv[1]) if len(sys.argv) > 1 else 10, 0
    k = 0
    while ok < n:
        k += 1
        r = check_schema(1000 + k)
        if not r["pre_ok"]:
            continue
        ok += 1
        if r["failed"]:
            print(r["inputs"]["scenario"], r["failed"], r["inputs"].get("schema"), r["inputs"].get("operation"), str(r["outcome"])[:1200])
    print("done", ok, "schemas of", k, "seeds")
