"""End-to-end replay vehicle: run the REAL generator (ariadne_codegen.main.client) on a materialised schema +
operations in a temporary directory and import the generated package.  Used only to replay counter-models and for
bounded samples; nothing here is counted as proof."""
import contextlib
import importlib
import io
import os
import shutil
import sys
import tempfile
import uuid

SCRATCH = os.environ.get("PYVC_SCRATCH") or os.path.join(tempfile.gettempdir(), "pyvc_e2e")


def write_helper(name, source):
    """put a helper module into SCRATCH (importable by generated code).  Several checks may run at the same time and share
    SCRATCH: the file is replaced atomically, and left alone when it already has this content"""
    os.makedirs(SCRATCH, exist_ok=True)
    path = os.path.join(SCRATCH, name + ".py")
    try:
        if open(path).read() == source:
            return path
    except OSError:
        pass
    fd, tmp = tempfile.mkstemp(prefix=name + "_", suffix=".tmp", dir=SCRATCH)
    with os.fdopen(fd, "w") as f:
        f.write(source)
    os.replace(tmp, path)
    return path


class Generated:
    def __init__(self, root, pkg_name, files):
        self.root, self.pkg_name, self.files = root, pkg_name, files
        self._mods = {}

    def module(self, name=None):
        full = self.pkg_name if not name else f"{self.pkg_name}.{name}"
        if full not in self._mods:
            if self.root not in sys.path:
                sys.path.insert(0, self.root)
            self._mods[full] = importlib.import_module(full)
        return self._mods[full]

    def read(self, fname):
        return open(os.path.join(self.root, self.pkg_name, fname)).read()

    def cleanup(self):
        for m in [k for k in sys.modules if k == self.pkg_name or k.startswith(self.pkg_name + ".")]:
            del sys.modules[m]
        if self.root in sys.path:
            sys.path.remove(self.root)
        shutil.rmtree(self.root, ignore_errors=True)


def generate_client(schema_sdl, queries=None, **options):
    """-> Generated. options are [tool.ariadne-codegen] keys (include_comments defaults to 'none')."""
    from ariadne_codegen.main import client
    os.makedirs(SCRATCH, exist_ok=True)
    root = tempfile.mkdtemp(prefix="gen_", dir=SCRATCH)
    pkg = "gen_" + uuid.uuid4().hex[:10]
    with open(os.path.join(root, "schema.graphql"), "w") as f:
        f.write(schema_sdl)
    cfg = dict(schema_path=os.path.join(root, "schema.graphql"), target_package_name=pkg, target_package_path=root,
               include_comments="none", plugins=[])
    if queries is None and not options.get("enable_custom_operations"):
        queries = "query PyvcNoop { __typename }"
    if queries is not None:
        with open(os.path.join(root, "queries.graphql"), "w") as f:
            f.write(queries)
        cfg["queries_path"] = os.path.join(root, "queries.graphql")
    cfg.update(options)
    out = io.StringIO()
    try:
        with contextlib.redirect_stdout(out):
            client({"tool": {"ariadne-codegen": cfg}})
    except BaseException:
        shutil.rmtree(root, ignore_errors=True)
        raise
    files = sorted(os.listdir(os.path.join(root, pkg)))
    return Generated(root, pkg, files)
