"""Value domain of client variables (PyVal) and the assumed pydantic contract for generated input models.

Assumed (dependency pydantic 2.x): for a model instance m, `m.model_dump(by_alias=True, exclude_unset=True)` is the
JSON object of its *set* fields under their GraphQL (alias) names, nested models dumped the same way; any other
combination of keyword arguments yields a different (unspecified) value."""
import z3
import pydantic
from pyvc import val as V
from pyvc import models
from pyvc.val import SV, Obj
from pyvc.interp import Unsupported
from pyvc.spec import *   # noqa
from ariadne_codegen.client_generators.dependencies import base_model as BM

TRUSTED = ["pydantic: model_dump(by_alias=True, exclude_unset=True) is the JSON object of the set fields under their aliases"]

UNSET_T = V.VAtom(z3.IntVal(V.REG.atom(BM.UNSET, "UNSET")))


class _ReplayModel(BM.BaseModel):
    model_config = pydantic.ConfigDict(extra="allow")


def _build_model(dump=None):
    from .lib_http import json_sanitize
    d = json_sanitize(dump) if isinstance(dump, dict) else {}
    return _ReplayModel(**{k: v for k, v in d.items() if k.isidentifier() and not k.startswith("model_")})


MODEL = V.REG.register(pydantic.BaseModel, ["dump"], build=_build_model,
                       getter=lambda o, f: o.model_dump(by_alias=True, exclude_unset=True))
OTHER_DUMP = z3.Function("model_dump_other", V.Val, V.Val, V.Val)      # (model, kwargs) -> unspecified value


def _model_dump(I, t, args, kwargs):
    kw = dict(kwargs)
    if not args and kw.get("by_alias") is True and kw.get("exclude_unset") is True and set(kw) == {"by_alias", "exclude_unset"}:
        return SV(V.attr_of(t, pydantic.BaseModel, "dump"))
    models._used("pydantic.model_dump with other arguments: unspecified value")
    return SV(OTHER_DUMP(t, V.lower({k: v for k, v in kw.items()})))


MODEL.methods["model_dump"] = _model_dump


def _build_upload(filename="f.txt", content=None, content_type="text/plain"):
    import io
    return BM.Upload(filename=filename if isinstance(filename, str) else "f.txt", content=io.BytesIO(b"data"),
                     content_type=content_type if isinstance(content_type, str) else "text/plain")


UPLOAD = V.REG.register(BM.Upload, ["filename", "content", "content_type"], identity=True, build=_build_upload,
                        getter=lambda o, f: getattr(o, f) if f != "content" else None)

MODEL_SHAPE = Cls(pydantic.BaseModel, dump=JOBJ)
UPLOAD_SHAPE = Pred(lambda t: z3.And(V.is_VObj(t), V.cls_of(t) == UPLOAD.cid, V.oid_of(t) > 0,
                                     V.vl_len(V.fs_of(t)) == 3), "Upload")
UNSET_SHAPE = Pred(lambda t: t == UNSET_T, "UNSET")

# variables values: JSON leaves, UNSET, Upload, generated input models, lists and dicts of these
PYVAL = Rec("PyVal", lambda self: OneOf(NoneT, Bool, Int, Float, Str, UNSET_SHAPE, UPLOAD_SHAPE, MODEL_SHAPE,
                                        ListOf(self, name="all_pyval"), DictOf(Str, self, name="all_pyval_members")))
VARIABLES = DictOf(Str, PYVAL, name="variables")


def is_model(t):
    return z3.And(V.is_VObj(t), V.cls_of(t) == MODEL.cid)


def is_upload(t):
    return z3.And(V.is_VObj(t), V.cls_of(t) == UPLOAD.cid)


# ---- spec: conversion of values to JSON-serialisable form (statement of C03/C11: models dumped by alias without unset
# fields, lists pointwise, everything else unchanged; UNSET top-level entries dropped)
conv = z3.RecFunction("spec_convert_value", V.Val, V.Val)
conv_list = SpecMap("spec_convert_list", lambda v: conv(v))
_v = z3.Const("cv", V.Val)
z3.RecAddDefinition(conv, [_v], z3.If(is_model(_v), V.attr_of(_v, pydantic.BaseModel, "dump"),
                                      z3.If(V.is_VList(_v), V.VList(conv_list(V.vl(_v))), _v)))
conv_dict = SpecMap("spec_convert_dict", lambda p: V._pair(V.pkey(p), conv(V.pval(p))), keep_fn=lambda p: V.pval(p) != UNSET_T)
