"""Replay vehicle for C06 default literals: materialise a schema around a literal, generate the client with the real
generator, instantiate the input model without the field and compare what is read back / sent with graphql-core's
coerced schema default (the property statement itself)."""
import graphql as G
from .e2e import generate_client


class _Mat:
    def __init__(self):
        self.defs, self.n = [], 0

    def fresh(self, p):
        self.n += 1
        return f"{p}{self.n}"

    def type_of(self, lit):
        """SDL type expression for a position holding this literal (None if the literal is not homogeneous)"""
        if isinstance(lit, G.IntValueNode):
            return "Int"
        if isinstance(lit, G.FloatValueNode):
            return "Float"
        if isinstance(lit, G.StringValueNode):
            return "String"
        if isinstance(lit, G.BooleanValueNode):
            return "Boolean"
        if isinstance(lit, G.NullValueNode):
            return "Int"
        if isinstance(lit, G.EnumValueNode):
            name = self.fresh("En")
            other = "ZZ" if lit.value != "ZZ" else "YY"
            self.defs.append(f"enum {name} {{ {lit.value} {other} }}")
            return name
        if isinstance(lit, G.ListValueNode):
            if not lit.values:
                return "[Int]"
            kinds = {type(v) for v in lit.values if not isinstance(v, G.NullValueNode)}
            if len(kinds) > 1:
                return None
            first = next((v for v in lit.values if not isinstance(v, G.NullValueNode)), lit.values[0])
            if isinstance(first, G.EnumValueNode):
                name = self.fresh("En")
                vals = sorted({v.value for v in lit.values if isinstance(v, G.EnumValueNode)} | {"ZZ"})
                self.defs.append(f"enum {name} {{ {' '.join(vals)} }}")
                return f"[{name}]"
            if isinstance(first, (G.ObjectValueNode, G.ListValueNode)) and len(lit.values) > 1:
                shapes = {G.print_ast(v) if False else _shape(v) for v in lit.values if not isinstance(v, G.NullValueNode)}
                if len(shapes) > 1:
                    return None
            t = self.type_of(first)
            return None if t is None else f"[{t}]"
        if isinstance(lit, G.ObjectValueNode):
            name = self.fresh("In")
            fields = []
            seen = set()
            for f in lit.fields:
                if f.name.value in seen:
                    return None
                seen.add(f.name.value)
                t = self.type_of(f.value)
                if t is None:
                    return None
                fields.append(f"{f.name.value}: {t}")
            if not fields:
                fields.append("unusedField: Int")
            self.defs.append(f"input {name} {{ {' '.join(fields)} }}")
            return name
        return None


def _plain(v):
    import enum
    import pydantic
    if isinstance(v, pydantic.BaseModel):
        return v.model_dump(by_alias=True, exclude_unset=True, mode="json")
    if isinstance(v, list):
        return [_plain(x) for x in v]
    if isinstance(v, dict):
        return {k: _plain(x) for k, x in v.items()}
    if isinstance(v, enum.Enum):
        return v.value
    return v


def _shape(v):
    if isinstance(v, G.ListValueNode):
        return ("L", tuple(sorted({_shape(x) for x in v.values})))
    if isinstance(v, G.ObjectValueNode):
        return ("O", tuple(sorted((f.name.value, _shape(f.value)) for f in v.fields)))
    return type(v).__name__


def check_default_literal(lit, **options):
    rep = dict(inputs={"node": G.print_ast(lit)}, failed=[], undetermined=[], pre_ok=True, outcome=None, error=None)
    m = _Mat()
    t = m.type_of(lit)
    if t is None:
        rep["pre_ok"] = False
        return rep
    sdl = "\n".join(m.defs) + f"\ninput Root {{ f: {t} = {G.print_ast(lit)} other: Int }}\ntype Query {{ q(a: Root): Int }}\n"
    rep["inputs"]["schema"] = sdl
    try:
        schema = G.build_schema(sdl)
        errs = G.validate_schema(schema)
        expected = schema.type_map["Root"].fields["f"].default_value
        if errs or expected is G.Undefined:
            rep["pre_ok"] = False
            return rep
    except Exception:
        rep["pre_ok"] = False
        return rep
    g = None
    try:
        g = generate_client(sdl, **options)
        mod = g.module("input_types")
        inst = mod.Root()
        got = _plain(inst.f)
        sent = mod.Root(other=1).model_dump(by_alias=True, exclude_unset=True, mode="json")
        rep["outcome"] = {"read_back": got, "schema_default": expected, "field_source": [l for l in g.read("input_types.py").splitlines() if l.strip().startswith("f:")]}
        if got != expected:
            rep["failed"].append("post.emitted-default-expression-denotes-the-literal")
        if "f" in sent and sent["f"] != expected:
            rep["failed"].append("post.emitted-default-expression-denotes-the-literal")
    except Exception as e:   # generation / import / instantiation failed: the default cannot be read back
        rep["outcome"] = {"raise": type(e).__name__, "message": str(e)[:300]}
        rep["failed"].append("post.emitted-default-expression-denotes-the-literal")
    finally:
        if g is not None:
            g.cleanup()
    return rep
