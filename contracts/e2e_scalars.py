"""Replay vehicle for C07 (variables): generate a client with a custom scalar that has a serializer, call the generated
method through httpx.MockTransport with None / omitted / list arguments and record every serialize() call."""
import asyncio
import json
import os
import sys
import textwrap
import httpx
from .e2e import generate_client, SCRATCH

SCHEMA = """
scalar MONEY
type Query { qa(a: MONEY): Int qb(b: [MONEY!]): Int qc(c: MONEY!): Int }
"""
QUERY = "query GetA($a: MONEY) { qa(a: $a) } query GetB($b: [MONEY!]) { qb(b: $b) } query GetC($c: MONEY!) { qc(c: $c) }"


def check_variable_serialize():
    rep = dict(inputs={"schema": SCHEMA, "query": QUERY}, failed=[], undetermined=[], pre_ok=True, outcome=None, error=None)
    os.makedirs(SCRATCH, exist_ok=True)
    helper = "pyvc_scalar_helper"
    with open(os.path.join(SCRATCH, helper + ".py"), "w") as f:
        f.write(textwrap.dedent("""
            CALLS = []
            class Money:
                def __init__(self, v): self.v = v
                def __bool__(self): return bool(self.v)
            def ser(x):
                CALLS.append(x)
                return "EUR %s" % getattr(x, "v", x)
        """))
    if SCRATCH not in sys.path:
        sys.path.insert(0, SCRATCH)
    g = None
    try:
        g = generate_client(SCHEMA, QUERY, scalars={"MONEY": {"type": f"{helper}.Money", "serialize": f"{helper}.ser"}})
        import importlib
        hm = importlib.reload(__import__(helper))
        hm.CALLS.clear()
        sent = []

        def handler(request):
            sent.append(json.loads(request.content))
            return httpx.Response(200, json={"data": {"qa": 1, "qb": 1, "qc": 1}})
        mod = g.module()
        client = mod.Client(url="http://x/graphql", http_client=httpx.AsyncClient(transport=httpx.MockTransport(handler)))
        cases = {}

        def run(label, method, expect_calls, **kw):
            hm.CALLS.clear()
            try:
                asyncio.run(getattr(client, method)(**kw))
            except Exception as e:   # noqa
                cases[label] = dict(raised=f"{type(e).__name__}: {str(e)[:200]}")
                rep["cases"].append(label)
                return
            got = [("list" if isinstance(x, list) else type(x).__name__ if not hasattr(x, "v") else f"Money({x.v})") for x in hm.CALLS]
            cases[label] = dict(serialize_calls=got, variables=sent[-1]["variables"])
            if got != expect_calls:
                rep["cases"].append(label)
        rep["cases"] = []
        run("required-present", "get_c", ["Money(5)"], c=hm.Money(5))
        run("nullable-none", "get_a", [], a=None)
        run("nullable-omitted", "get_a", [])
        run("nullable-present", "get_a", ["Money(7)"], a=hm.Money(7))
        run("nullable-present-falsy", "get_a", ["Money(0)"], a=hm.Money(0))
        run("list-items", "get_b", ["Money(1)", "Money(2)"], b=[hm.Money(1), hm.Money(2)])
        run("list-empty", "get_b", [], b=[])
        run("list-omitted", "get_b", [])
        rep["outcome"] = cases
        if rep["cases"]:
            rep["failed"].append("post.serialize-applied-only-to-present-values")
    except Exception as e:   # noqa
        rep["outcome"] = {"raise": type(e).__name__, "message": str(e)[:300]}
        rep["failed"].append("post.serialize-applied-only-to-present-values")
    finally:
        if g is not None:
            g.cleanup()
    return rep
