"""Replay vehicle for C07 (variables): generate a client with a custom scalar that has a serializer, call the generated
method through httpx.MockTransport with None / omitted / list arguments and record every serialize() call."""
import asyncio
import json
import os
import sys
import textwrap
import httpx
from .e2e import generate_client, SCRATCH, write_helper

SCHEMA = """
scalar MONEY
type Query { qa(a: MONEY): Int qb(b: [MONEY!]): Int qc(c: MONEY!): Int }
"""
QUERY = "query GetA($a: MONEY) { qa(a: $a) } query GetB($b: [MONEY!]) { qb(b: $b) } query GetC($c: MONEY!) { qc(c: $c) }"


def check_variable_serialize():
    rep = dict(inputs={"schema": SCHEMA, "query": QUERY}, failed=[], undetermined=[], pre_ok=True, outcome=None, error=None)
    helper = "pyvc_scalar_helper"
    write_helper(helper, textwrap.dedent("""
        CALLS = []
        class Money:
            def __init__(self, v): self.v = v
            def __bool__(self): return bool(self.v)
        def ser(x):
            CALLS.append(x)
            return "EUR %s" % getattr(x, "v", x)
    """))
    if SCRATCH not in sys.path:
        sys.path.insert(0, SCRATCH)
    g = None
    try:
        g = generate_client(SCHEMA, QUERY, scalars={"MONEY": {"type": f"{helper}.Money", "serialize": f"{helper}.ser"}})
        import importlib
        hm = importlib.reload(__import__(helper))
        hm.CALLS.clear()
        sent = []

        def handler(request):
            sent.append(json.loads(request.content))
            return httpx.Response(200, json={"data": {"qa": 1, "qb": 1, "qc": 1}})
        mod = g.module()
        client = mod.Client(url="http://x/graphql", http_client=httpx.AsyncClient(transport=httpx.MockTransport(handler)))
        cases = {}

        def run(label, method, expect_calls, **kw):
            hm.CALLS.clear()
            try:
                asyncio.run(getattr(client, method)(**kw))
            except Exception as e:   # noqa
                cases[label] = dict(raised=f"{type(e).__name__}: {str(e)[:200]}")
                rep["cases"].append(label)
                return
            got = [("list" if isinstance(x, list) else type(x).__name__ if not hasattr(x, "v") else f"Money({x.v})") for x in hm.CALLS]
            cases[label] = dict(serialize_calls=got, variables=sent[-1]["variables"])
            if got != expect_calls:
                rep["cases"].append(label)
        rep["cases"] = []
        run("required-present", "get_c", ["Money(5)"], c=hm.Money(5))
        run("nullable-none", "get_a", [], a=None)
        run("nullable-omitted", "get_a", [])
        run("nullable-present", "get_a", ["Money(7)"], a=hm.Money(7))
        run("nullable-present-falsy", "get_a", ["Money(0)"], a=hm.Money(0))
        run("list-items", "get_b", ["Money(1)", "Money(2)"], b=[hm.Money(1), hm.Money(2)])
        run("list-empty", "get_b", [], b=[])
        run("list-omitted", "get_b", [])
        rep["outcome"] = cases
        if rep["cases"]:
            rep["failed"].append("post.serialize-applied-only-to-present-values")
    except Exception as e:   # noqa
        rep["outcome"] = {"raise": type(e).__name__, "message": str(e)[:300]}
        rep["failed"].append("post.serialize-applied-only-to-present-values")
    finally:
        if g is not None:
            g.cleanup()
    return rep


# ------------------------------------------------------------------------------------------ the statement, end to end
SCHEMA_FULL = """
scalar Stamp
scalar Tag
scalar Plain
scalar Loose
scalar Code
scalar Span
scalar Day
interface Node { id: ID! at: Stamp }
type Event implements Node { id: ID! at: Stamp when: Stamp! maybe: Stamp times: [Stamp!] grid: [[Stamp]] tag: Tag plain: Plain loose: Loose code: Code inner: Event }
type Other implements Node { id: ID! at: Stamp }
input Window { start: Stamp! end: Stamp stamps: [Stamp!] nested: Window tag: Tag span: Span days: [Day!] }
union Result = Event | Other
type Query { event(at: Stamp, after: Stamp, w: Window, ws: [Window!], many: [Stamp], tag: Tag, span: Span, day: Day): Event node: Node search: [[Result]] }
"""
QUERIES_FULL = """
fragment Times on Event { when times at }
fragment InnerTimes on Event { maybe }
query GetEvent($after: Stamp!, $w: Window, $ws: [Window!], $tag: Tag!) {
  event(after: $after, w: $w, ws: $ws, tag: $tag) { id when maybe times grid tag plain loose code inner { when ...InnerTimes } ...Times }
}
query GetNode { node { id at ... on Event { when } } }
query Second($after: Stamp!) { event(after: $after) { id } }
query Third($span: Span!, $day: Day!, $w: Window) { event(span: $span, day: $day, w: $w) { id } }
query Search { search { __typename ... on Event { at when } ... on Other { at } } }
"""
HELPER_SRC = '''
CALLS = []
def parse_stamp(v):
    CALLS.append(("parse_stamp", v))
    return Stamp("P:" + str(v))
def ser_stamp(v):
    CALLS.append(("ser_stamp", v))
    return "S:" + str(getattr(v, "v", v))
class Code:
    """a type that is its own parse function (type == parse in the configuration)"""
    def __init__(self, v):
        CALLS.append(("parse_code", v))
        self.v = v
    def __eq__(self, o): return isinstance(o, Code) and o.v == self.v
class Stamp:
    def __init__(self, v): self.v = v
    def __eq__(self, o): return isinstance(o, Stamp) and o.v == self.v
    def __repr__(self): return "Stamp(%r)" % (self.v,)
def parse_tag(v):
    CALLS.append(("parse_tag", v))
    return "tag:" + str(v)
def ser_tag(v):
    CALLS.append(("ser_tag", v))
    return "out:" + str(v)
'''


def _scalar_positions(flavour, extra_opts, client_kw):
    """statement of C07 on a generated client: instrumented parse / serialize functions record every call.
    configurations: Stamp = dotted type + parse + serialize; Tag = builtin `str` type with dotted parse + serialize;
    Plain = pydantic-native type only; Loose = unconfigured"""
    import importlib
    import pydantic
    cases, fails = 0, []
    helper = "pyvc_scalar_positions"
    write_helper(helper, HELPER_SRC)
    if SCRATCH not in sys.path:
        sys.path.insert(0, SCRATCH)
    g = None
    try:
        try:
            g = generate_client(SCHEMA_FULL, QUERIES_FULL, **extra_opts, scalars={
                "Stamp": {"type": f"{helper}.Stamp", "parse": f"{helper}.parse_stamp", "serialize": f"{helper}.ser_stamp"},
                "Tag": {"type": "str", "parse": f"{helper}.parse_tag", "serialize": f"{helper}.ser_tag"},
                "Plain": {"type": "int"}, "Code": {"type": f"{helper}.Code", "parse": f"{helper}.Code"},
                "Span": {"type": "datetime.timedelta"}, "Day": {"type": "datetime.date"}})
            hm = importlib.reload(__import__(helper))
            mod = g.module()
            it = g.module("input_types")
        except Exception as e:      # noqa
            return dict(function="ariadne_codegen.main:client", name="bounded.scalar-positions", kind="bounded stand-in (end-to-end, native)",
                        domain="generation", cases=1, failed=1,
                        failures=[dict(inputs=dict(scenario=f"{flavour}:package-generates-and-imports (every needed import is emitted)"),
                                       failed=["every-needed-import-is-emitted"], outcome=f"{type(e).__name__}: {str(e)[:300]}")])
        S = hm.Stamp
        sent = []
        state = {}

        def handler(request):
            body = json.loads(request.content)
            sent.append(body)
            return httpx.Response(200, json={"data": state["data"]})
        client = mod.Client(url="http://x/graphql", http_client=httpx.AsyncClient(transport=httpx.MockTransport(handler)), **client_kw)

        def scenario(name, method, kw, data, expect_vars, expect_ser, expect_parse, read):
            name = f"{flavour}:{name}"
            nonlocal cases
            cases += 1
            hm.CALLS.clear()
            state["data"] = data
            bad = []
            try:
                res = asyncio.run(getattr(client, method)(**kw))
                ser = sorted((n, repr(v)) for n, v in hm.CALLS if n.startswith("ser"))
                par = sorted((n, repr(v)) for n, v in hm.CALLS if n.startswith("parse"))
                if sent[-1].get("variables") != expect_vars:
                    bad.append(f"arguments-transmitted-as-serialize(value): sent {sent[-1].get('variables')!r}")
                if ser != sorted((n, repr(v)) for n, v in expect_ser):
                    bad.append(f"serialize-called-once-per-non-null-occurrence-never-for-None-or-omitted: {ser}")
                if par != sorted((n, repr(v)) for n, v in expect_parse):
                    bad.append(f"parse-called-once-per-non-null-occurrence-never-for-null: {par}")
                problems = read(res)
                if problems:
                    bad.append(f"occurrences-reach-user-code-as-parse(raw): {problems}")
            except Exception as e:      # noqa
                bad.append(f"raises-{type(e).__name__}: {str(e)[:200]}")
            if bad:
                fails.append(dict(inputs=dict(scenario=name), failed=bad, outcome=None))

        full = {"event": {"id": "1", "at": "fa", "when": "w", "maybe": None, "times": ["t1", "t2"], "grid": [["g1", None], []], "tag": " x\t", "plain": 5, "code": "c1",
                          "loose": {"any": [1, 0.1]}, "inner": {"when": "iw", "maybe": 0.1}}}

        def read_full(res):
            e = res.event
            want = dict(at=S("P:fa"), when=S("P:w"), maybe=None, times=[S("P:t1"), S("P:t2")], grid=[[S("P:g1"), None], []], tag="tag: x\t", plain=5,
                        loose={"any": [1, 0.1]})
            bad = [k for k, v in want.items() if getattr(e, k) != v]
            if not isinstance(e.code, hm.Code) or e.code.v != "c1":
                bad.append("code")
            if e.inner.when != S("P:iw") or e.inner.maybe != S("P:0.1") or type(e.loose["any"][1]) is not float:
                bad.append("inner")
            return bad
        # (a fractional JSON number reaches parse / the user as the float the JSON decoder yields)
        parses_full = [("parse_stamp", x) for x in ("fa", "w", "t1", "t2", "g1", "iw", 0.1)] + [("parse_tag", " x\t"), ("parse_code", "c1")]
        # (nullable top-level variables of a scalar with serializer are the recorded finding F05 and have their own witness)
        scenario("results-all-positions/required-variables-only", "get_event", dict(after=S("a"), tag="tg"), full,
                 {"after": "S:a", "tag": "out:tg"}, [("ser_stamp", S("a")), ("ser_tag", "tg")], parses_full, read_full)
        w = it.Window(start=S("s1"), stamps=[S("x1"), S("x2")], nested=it.Window(start=S("n1"), end=None), tag=" t ")
        scenario("input-model-fields/lists/nested", "get_event", dict(after=S("a"), w=w, ws=[it.Window(start=S("l1"))], tag="tg"), full,
                 {"after": "S:a", "w": {"start": "S:s1", "stamps": ["S:x1", "S:x2"], "nested": {"start": "S:n1", "end": None}, "tag": "out: t "},
                  "ws": [{"start": "S:l1"}], "tag": "out:tg"},
                 [("ser_stamp", S(x)) for x in ("a", "s1", "x1", "x2", "n1", "l1")] + [("ser_tag", " t "), ("ser_tag", "tg")],
                 parses_full, read_full)
        scenario("second-operation-with-the-same-scalar", "second", dict(after=S("b")), {"event": {"id": "2"}},
                 {"after": "S:b"}, [("ser_stamp", S("b"))], [], lambda res: [] if res.event.id == "2" else ["id"])
        # type-only scalars whose Python type is not a JSON type travel in pydantic's wire form, from every client
        import datetime as _dt
        scenario("type-only-scalars-of-non-json-python-types", "third",
                 dict(span=_dt.timedelta(hours=1, minutes=30), day=_dt.date(2020, 1, 2),
                      w=it.Window(start=S("s9"), span=_dt.timedelta(seconds=5), days=[_dt.date(2021, 3, 4)])),
                 {"event": {"id": "3"}},
                 {"span": "PT1H30M", "day": "2020-01-02", "w": {"start": "S:s9", "span": "PT5S", "days": ["2021-03-04"]}},
                 [("ser_stamp", S("s9"))], [], lambda res: [] if res.event.id == "3" else ["id"])
        scenario("interface-position-and-null", "get_node", {}, {"node": {"__typename": "Event", "id": "1", "at": None, "when": "nw"}},
                 {}, [], [("parse_stamp", "nw")], lambda res: [] if res.node.at is None and res.node.when == S("P:nw") else ["node"])
        scenario("nested-list-of-union-members", "search", {},
                 {"search": [[{"__typename": "Event", "at": "u0", "when": "u1"}, None, {"__typename": "Other", "at": "u2"}], [], [{"__typename": "Other", "at": None}]]},
                 {}, [], [("parse_stamp", "u0"), ("parse_stamp", "u1"), ("parse_stamp", "u2")],
                 lambda res: [] if res.search[0][0].when == S("P:u1") and res.search[0][1] is None and res.search[0][2].at == S("P:u2")
                 and res.search[2][0].at is None else ["search"])
        if extra_opts.get("enable_custom_operations"):
            # the query builder: every argument of a configured scalar goes through its own serialize, every other argument through none
            cases += 1
            hm.CALLS.clear()
            state["data"] = {"event": {"id": "9"}}
            bad = []
            try:
                cq, cf = g.module("custom_queries"), g.module("custom_fields")
                field = cq.Query.event(after=S("a"), tag="tg", day=_dt.date(2020, 1, 2)).fields(cf.EventFields.id)
                asyncio.run(client.query(field, operation_name="B"))
                got = {k.rsplit("_", 1)[0]: v for k, v in (sent[-1].get("variables") or {}).items()}
                want = {"after": "S:a", "tag": "out:tg", "day": "2020-01-02"}
                if {k: got.get(k) for k in want} != want:
                    bad.append(f"builder-arguments-transmitted-as-serialize(value)-of-their-own-scalar: sent {sent[-1].get('variables')!r}")
                ser = [(n, repr(v)) for n, v in hm.CALLS if n.startswith("ser")]
                if sorted(x for x in ser if x[1] != "None") != sorted([("ser_stamp", repr(S("a"))), ("ser_tag", repr("tg"))]):
                    bad.append(f"serialize-called-once-per-given-argument-of-its-scalar: {ser}")
                # a value that is falsy in Python (an empty string here) is a value: serialised and sent like any other
                n_before = len(hm.CALLS)
                field2 = cq.Query.event(after=S("b"), tag="").fields(cf.EventFields.id)
                asyncio.run(client.query(field2, operation_name="B2"))
                got2 = {k.rsplit("_", 1)[0]: v for k, v in (sent[-1].get("variables") or {}).items()}
                if got2.get("tag") != "out:" or got2.get("after") != "S:b":
                    bad.append(f"falsy-builder-argument-of-a-serialised-scalar-is-sent-as-serialize(value): sent {sent[-1].get('variables')!r}")
                if ("ser_tag", repr("")) not in [(n, repr(v)) for n, v in hm.CALLS[n_before:]]:
                    bad.append("serialize-called-for-a-falsy-argument")
                del hm.CALLS[n_before:]
                # (known finding F43) an argument of a serialised scalar that is left as None is omitted, serialize is never called for it
                extra = sorted(set(got) - set(want))
                if extra or any(x[1] == "None" for x in ser):
                    fails.append(dict(inputs=dict(scenario=f"{flavour}:query-builder-none-argument-of-a-serialised-scalar-is-omitted:{'+'.join(extra)}:{len([x for x in ser if x[1] == 'None'])}-calls-with-None"),
                                      failed=[f"arguments-left-as-None-are-omitted: sent {extra}, serialize calls {ser}"], outcome=None))
            except Exception as e:      # noqa
                bad.append(f"raises-{type(e).__name__}: {str(e)[:200]}")
            if bad:
                fails.append(dict(inputs=dict(scenario=f"{flavour}:query-builder-arguments"), failed=bad, outcome=None))
        scenario("interface-position-other-type", "get_node", {}, {"node": {"__typename": "Other", "id": "1", "at": "oa"}},
                 {}, [], [("parse_stamp", "oa")], lambda res: [] if res.node.at == S("P:oa") else ["node.at"])
    finally:
        if g is not None:
            g.cleanup()
    return dict(cases=cases, failed=len(fails), failures=fails)


def bounded_scalar_positions(tier, seed):
    cases, fails = 0, []
    for flavour, extra_opts, client_kw in (("plain", {}, {}), ("opentelemetry+tracer", {"opentelemetry_client": True}, {"tracer": "pyvc"}),
                                          ("custom-operations", {"enable_custom_operations": True}, {})):
        r = _scalar_positions(flavour, extra_opts, client_kw)
        cases += r["cases"]
        fails += r["failures"]
    return dict(function="ariadne_codegen.main:client", name="bounded.scalar-positions", kind="bounded stand-in (end-to-end, native)",
                domain="4 scalar configurations (dotted type+parse+serialize, builtin type with dotted parse/serialize, native type only, "
                       "unconfigured) x result positions (non-null, nullable null/present, list, nested list with null, nested object, fragment "
                       "class, interface members) x argument positions (required variable, input model field, list field, nested model, list of "
                       "models, second operation); every parse/serialize call recorded",
                cases=cases, failed=len(fails), failures=fails)


def witness_builder_none():
    r = _scalar_positions("custom-operations", {"enable_custom_operations": True}, {})
    cases = [f["inputs"]["scenario"] for f in r["failures"] if "none-argument-of-a-serialised-scalar" in f["inputs"]["scenario"]]
    return dict(inputs={"scenario": "custom-operations"}, failed=cases, cases=cases, outcome={}, error=None)
