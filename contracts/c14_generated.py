"""C14 - document assembly of the *generated* client (code the repository emits, not code it contains).

client_generators/client.py builds the methods execute_custom_operation / _build_selection_set /
_build_variable_definitions / _build_operation_ast as ASTs; they exist as Python text only in a generated package.
On every run the real generator of the tree under check (ariadne_codegen.main.client) emits an async and a sync client
with enable_custom_operations into a scratch directory (pyvc.source.register_generated) and the emitted functions are
put under contract exactly like repository functions - the verified text is the text the generator wrote, re-read on
every run, nothing is copied by hand.  The emitted methods do not depend on the schema, so one schema suffices.

Contracts (for every number of top-level fields, every variable dictionary, every operation name):
  _build_selection_set        every top-level field rendered once, in order, with its own index and NO shared name set
  _build_variable_definitions every entry of the types dictionary declared exactly once: $key : type text
  _build_operation_ast        one operation of the given kind and name, with those definitions and selections
  execute_custom_operation    the printed document of exactly those parts is sent once, with the combined values as
                              variables and the operation name; the caller gets get_data(response)
GraphQLField.to_ast / _combine_variables / execute / get_data are used through stand-ins (assumed here; to_ast's parts
are under contract in c14_builder, execute/get_data in c11/c12)."""
import contextlib
import io
import os
import tempfile
import z3
import graphql as G
from pyvc import val as V
from pyvc.val import SV, Obj
from pyvc.contract import Contract, self_obj
from pyvc.spec import *   # noqa
from pyvc.source import register_generated, ensure_generated
from . import lib_graphql as GQ

SCHEMA = """
type User { id: ID! name: String friends(first: Int, ids: [ID!]): [User!] }
type Query { user(id: ID!): User users(ids: [ID!]!): [User!] }
type Mutation { rename(id: ID!, newName: String!): User }
"""


def _provider(pkg, is_async):
    def provide():
        from ariadne_codegen.main import client
        root = tempfile.mkdtemp(prefix="pyvc_gen_")
        with open(os.path.join(root, "schema.graphql"), "w") as f:
            f.write(SCHEMA)
        cfg = dict(schema_path=os.path.join(root, "schema.graphql"), target_package_name=pkg, target_package_path=root,
                   include_comments="none", plugins=[], enable_custom_operations=True, async_client=is_async)
        with contextlib.redirect_stdout(io.StringIO()):
            client({"tool": {"ariadne-codegen": cfg}})
        return root
    return provide


FLAVOURS = {"pyvc_gen_custom_async": True, "pyvc_gen_custom_sync": False}
for _pkg, _a in FLAVOURS.items():
    register_generated(_pkg, _provider(_pkg, _a))

for _cls in (G.VariableDefinitionNode, G.VariableNode, G.NamedTypeNode, G.NameNode, G.DocumentNode, G.OperationDefinitionNode, G.SelectionSetNode,
             G.FieldNode, G.ArgumentNode, G.InlineFragmentNode):
    if _cls not in V.REG.by_cls:          # another contract module may have registered the keys it speaks about
        V.REG.register(_cls, [k for k in _cls.keys if k != "loc"])
_OP_NAMES = [m.name for m in G.OperationType]
V.REG.register(G.OperationType, ["name"], build=lambda name=None: G.OperationType[name if name in _OP_NAMES else "QUERY"])
OPERATION_TYPE = Cls(G.OperationType, name=StrIn(z3.Union(*[z3.Re(n) for n in _OP_NAMES])))

FIELD_AST = z3.Function("builder_field_ast", V.Val, V.Val, V.Val, V.Val)        # (field object, index, name set or None) -> FieldNode
COMBINED_TYPES = z3.Function("builder_combined_types", V.Val, V.Val)
COMBINED_VALUES = z3.Function("builder_combined_values", V.Val, V.Val)
RESPONSE, DATA = z3.Const("builder_response", V.Val), z3.Const("builder_data", V.Val)


def node(cls, **kw):
    fields = {k: V.VNone for k in V.REG.info(cls).fields}
    fields.update(kw)
    return mk(cls, **fields)


def as_stored(v):
    """graphql-core stores list values of node attributes as tuples"""
    return z3.If(V.is_VList(v), V.VTuple(V.vl(v)), v)


def vardef(p):
    return node(G.VariableDefinitionNode, variable=node(G.VariableNode, name=node(G.NameNode, value=V.pkey(p))),
                type=node(G.NamedTypeNode, name=node(G.NameNode, value=V.pval(p))))


vardefs = SpecMap("builder_vardefs", vardef)

# rendered top-level fields: field i with index start+i and no name set
sel_from = z3.RecFunction("builder_selections_from", V.VL, z3.IntSort(), V.VL)
_l, _i = z3.Const("bs_l", V.VL), z3.Int("bs_i")
z3.RecAddDefinition(sel_from, [_l, _i], z3.If(V.is_VNil(_l), V.VNil, V.VCons(FIELD_AST(V.hd(_l), V.VInt(_i), V.VNone), sel_from(V.tl(_l), _i + 1))))


def document(selections, op_type, op_name, definitions):
    return node(G.DocumentNode, definitions=tup(node(G.OperationDefinitionNode, operation=op_type, name=node(G.NameNode, value=op_name),
                                                     variable_definitions=as_stored(definitions),
                                                     selection_set=node(G.SelectionSetNode, selections=as_stored(selections)))))


def make(pkg, is_async):
    MOD = pkg + ".client:"
    BOP = pkg + ".base_operation:"

    def client_cls():
        ensure_generated(pkg)
        import importlib
        return importlib.import_module(pkg + ".client").Client

    def field_cls():
        ensure_generated(pkg)
        import importlib
        return importlib.import_module(pkg + ".base_operation").GraphQLField

    class ToAstStub(Contract):
        """call-site stand-in for GraphQLField.to_ast: a function of (field, index, name set); its own parts are in c14_builder"""
        target = BOP + "GraphQLField.to_ast"
        assumed = True

        def result_term(self, A):
            return FIELD_AST(A.self, A.idx, A.used_names)

    class CombineStub(Contract):
        target = MOD + "Client._combine_variables"
        assumed = True

        def result_term(self, A):
            return dct(types=COMBINED_TYPES(A.fields), values=COMBINED_VALUES(A.fields))

    class _Base(Contract):
        props = ("C14",)
        label_suffix = " [generated %s client]" % ("async" if is_async else "sync")

        def self_(self, **attrs):
            return self_obj(client_cls(), attrs)

        def field_shape(self):
            fc = field_cls()
            V.REG.register(fc, ["_field_name", "_variables", "formatted_variables", "_subfields", "_alias", "_inline_fragments"])
            return Cls(fc)

        def native_self(self):
            c = client_cls()
            return c.__new__(c)

    def native_pkg(name=None):
        ensure_generated(pkg)
        import importlib
        return importlib.import_module(pkg + ("." + name if name else ""))

    def native_fields(n):
        """n real top-level builder fields, each with an argument of its own and the same argument name below it"""
        Q, U = native_pkg("custom_queries").Query, native_pkg("custom_fields").UserFields
        return [Q.user(id=str(i)).alias(f"u{i}").fields(U.id, U.friends(first=i, ids=[str(i)]).fields(U.name)) for i in range(n)]

    def variable_names(n):
        out = []
        for a in getattr(n, "arguments", None) or ():
            out.append(a.value.name.value)
        ss = getattr(n, "selection_set", None)
        for sub in (ss.selections if ss is not None else ()):
            out += variable_names(sub)
        return out

    def count_of(inputs):
        f = inputs.get("fields")
        return max(2, min(len(f), 4)) if isinstance(f, (list, tuple)) else 3

    def run_operation(fields, name="Op"):
        import asyncio
        import json
        import httpx
        sent = []

        def handler(request):
            sent.append(json.loads(request.content))
            return httpx.Response(200, json={"data": {"user": None}})
        P = native_pkg()
        if is_async:
            c = P.Client(url="http://x/graphql", http_client=httpx.AsyncClient(transport=httpx.MockTransport(handler)))
            data = asyncio.run(c.query(*fields, operation_name=name))
        else:
            c = P.Client(url="http://x/graphql", http_client=httpx.Client(transport=httpx.MockTransport(handler)))
            data = c.query(*fields, operation_name=name)
        return sent, data

    class BuildVariableDefinitions(_Base):
        target = MOD + "Client._build_variable_definitions"

        def setup(self, E):
            return [self.self_(), E.sym("variables_types_combined", DictOf(Str, Str, name="builder_types"))], {}

        def ensures(self, A, res):
            xs = V.vd(A.variables_types_combined)
            p = A.get("__path__")
            spec = vardefs.apply(p, xs) if p is not None else vardefs(xs)
            return {"every-variable-declared-exactly-once-with-its-recorded-type-in-order": res == V.VList(spec)}

        def native_args(self, inputs):
            return [inputs["variables_types_combined"]], {}

        def same_meaning(self, inputs, out):
            d = inputs["variables_types_combined"]
            return [G.print_ast(x) for x in out] == [f"${k}: {v}" for k, v in d.items()]

        def samples(self, tier):
            return [dict(variables_types_combined=d) for d in ({}, {"id_0": "ID!"}, {"ids_0": "[ID!]!", "first_0_1": "Int"})]

    class BuildOperationAst(_Base):
        target = MOD + "Client._build_operation_ast"

        def setup(self, E):
            return [self.self_(), E.sym("selections", Pred(V.is_VList, "list")), E.sym("operation_type", OPERATION_TYPE), E.sym("operation_name", Str),
                    E.sym("variable_definitions", Pred(V.is_VList, "list"))], {}

        def result_term(self, A):
            return document(A.selections, A.operation_type, A.operation_name, A.variable_definitions)

        def ensures(self, A, res):
            return {"one-operation-of-the-given-kind-and-name-with-exactly-those-definitions-and-selections": res == self.result_term(A)}

        def native_args(self, inputs):
            return [inputs[n] for n in ("selections", "operation_type", "operation_name", "variable_definitions")], {}

        def same_meaning(self, inputs, out):
            want = G.DocumentNode(definitions=[G.OperationDefinitionNode(
                operation=inputs["operation_type"], name=G.NameNode(value=inputs["operation_name"]), variable_definitions=inputs["variable_definitions"],
                selection_set=G.SelectionSetNode(selections=inputs["selections"]))])
            return G.print_ast(out) == G.print_ast(want)

        def samples(self, tier):
            return [dict(selections=[], operation_type=G.OperationType.QUERY, operation_name="Op", variable_definitions=[]),
                    dict(selections=[G.FieldNode(name=G.NameNode(value="me"))], operation_type=G.OperationType.MUTATION, operation_name="M",
                         variable_definitions=[G.VariableDefinitionNode(variable=G.VariableNode(name=G.NameNode(value="a")), type=G.NamedTypeNode(name=G.NameNode(value="Int")))])]

    class BuildSelectionSet(_Base):
        target = MOD + "Client._build_selection_set"
        frame_args = False

        def setup(self, E):
            return [self.self_(), E.sym("fields", TupleOf(self.field_shape(), name="builder_fields_" + pkg))], {}

        @property
        def comprehension_loops(self):
            def inv(rest, xs, st, I, env):
                cur = V.vl(st["__comp_out"]) if "__comp_out" in st else V.VNil
                k = V.vl_len(xs) - V.vl_len(rest)
                rs = z3.simplify(rest)
                if z3.is_app(rs) and rs.decl().name() == "VCons":
                    # explicit unfolding of the spec function at x::rest' and associativity of the append (instances of definitions)
                    x, r1 = rs.arg(0), rs.arg(1)
                    e = FIELD_AST(x, V.VInt(k), V.VNone)
                    V.LEMMAS.append(sel_from(rs, k) == V.VCons(e, sel_from(r1, k + 1)))
                    V.LEMMAS.append(V.vl_concat(V.vl_concat(cur, V.VCons(e, V.VNil)), sel_from(r1, k + 1)) == V.vl_concat(cur, V.VCons(e, sel_from(r1, k + 1))))
                    V.LEMMAS.append(V.vl_len(rs) == 1 + V.vl_len(r1))
                if z3.is_app(rs) and rs.decl().name() == "VNil":
                    return cur == sel_from(xs, z3.IntVal(0))
                return V.vl_concat(cur, sel_from(rest, k)) == sel_from(xs, z3.IntVal(0))
            return {"Client._build_selection_set": inv}

        def result_term(self, A):
            return V.VList(sel_from(V.vt(A.fields), z3.IntVal(0)))

        def ensures(self, A, res):
            return {"every-top-level-field-rendered-once-in-order-with-its-own-index-and-a-fresh-name-set": res == self.result_term(A)}

        def replay_custom(self, inputs):
            """what the property needs of this function, on real builder objects: every top-level field rendered once, in
            order, and no variable name shared between (or within) the rendered fields"""
            n = count_of(inputs)
            rep = dict(inputs={"top_level_fields": n}, failed=[], undetermined=[], pre_ok=True, outcome={}, error=None)
            try:
                fields = native_fields(n)
                c = native_pkg().Client.__new__(native_pkg().Client)
                out = c._build_selection_set(tuple(fields))
                names = [v for node_ in out for v in variable_names(node_)]
                rep["outcome"] = {"fields": [G.print_ast(x).replace("\n", " ") for x in out]}
                # history-free: the same expression, built again on another client, renders to the same nodes
                c2 = native_pkg().Client.__new__(native_pkg().Client)
                again = [G.print_ast(x) for x in c2._build_selection_set(tuple(native_fields(n)))]
                if again != [G.print_ast(x) for x in out]:
                    rep["outcome"]["again"] = [a.replace("\n", " ") for a in again]
                    rep["failed"].append("post.every-top-level-field-rendered-once-in-order-with-its-own-index-and-a-fresh-name-set")
                elif len(out) != n or [x.name.value for x in out] != [f"u{i}: user" for i in range(n)] or len(set(names)) != len(names) or len(names) != 3 * n:
                    rep["failed"].append("post.every-top-level-field-rendered-once-in-order-with-its-own-index-and-a-fresh-name-set")
                else:
                    rep["semantic_ok"] = True
            except Exception as e:   # noqa
                rep["error"] = f"{type(e).__name__}: {e}"
            return rep

        def samples(self, tier):
            return [dict(fields=[None] * n) for n in (2, 4)]

    class ExecuteCustomOperation(_Base):
        target = MOD + "Client.execute_custom_operation"
        frame_args = False

        def setup(self, E):
            from contracts.c11_clients import _stub
            s = self.self_()
            _stub(s, "execute", SV(RESPONSE))
            _stub(s, "get_data", SV(DATA))
            return [s], dict(__star__=E.sym("fields", TupleOf(self.field_shape(), name="builder_fields_x_" + pkg)),
                             operation_type=E.sym("operation_type", OPERATION_TYPE), operation_name=E.sym("operation_name", Str))

        def ensures(self, A, res):
            from contracts.c11_clients import _calls
            fields = A.fields
            calls = _calls(A)
            ok = z3.BoolVal(len(calls) == 2 and calls[0][0] == "execute" and calls[1][0] == "get_data")
            out = {"the-document-is-sent-exactly-once-then-the-data-is-extracted": ok}
            if len(calls) == 2 and calls[0][0] == "execute" and calls[1][0] == "get_data":
                _, pos, kw = calls[0]
                types = COMBINED_TYPES(fields)
                doc = document(V.VList(sel_from(V.vt(fields), z3.IntVal(0))), A.operation_type, A.operation_name, V.VList(vardefs(V.vd(types))))
                out["sent-text-is-the-printed-document-of-selections-and-one-definition-per-combined-variable"] = \
                    z3.And(z3.BoolVal(len(pos) == 1), pos[0] == V.VStr(GQ.PRINT_AST(doc))) if len(pos) == 1 else z3.BoolVal(False)
                out["variables-are-the-combined-values"] = get(kw, "variables") == COMBINED_VALUES(fields)
                out["operation-name-is-passed-on"] = get(kw, "operation_name") == A.operation_name
                out["get_data-receives-the-response"] = z3.And(z3.BoolVal(len(calls[1][1]) == 1), calls[1][1][0] == RESPONSE) if len(calls[1][1]) == 1 else z3.BoolVal(False)
                out["returns-the-extracted-data"] = res == DATA
            return out

        def replay_custom(self, inputs):
            """the sent document, on real builder objects: valid against the schema, every variable used is declared once and sent"""
            n = count_of(inputs)
            rep = dict(inputs={"top_level_fields": n}, failed=[], undetermined=[], pre_ok=True, outcome={}, error=None)
            try:
                sent, data = run_operation(native_fields(n), name="Replay")
                schema = G.build_schema(SCHEMA)
                problems = []
                if len(sent) != 1:
                    problems.append(f"{len(sent)} requests")
                else:
                    payload = sent[0]
                    doc = G.parse(payload["query"])
                    problems += [e.message for e in G.validate(schema, doc)]
                    op = doc.definitions[0]
                    declared = [v.variable.name.value for v in op.variable_definitions]
                    if sorted(declared) != sorted(payload.get("variables") or {}) or len(set(declared)) != len(declared) or len(declared) != 3 * n:
                        problems.append(f"declared {declared} sent {sorted(payload.get('variables') or {})}")
                    if payload.get("operationName") != "Replay" or op.name.value != "Replay":
                        problems.append("operation name")
                    if sorted(map(repr, (payload.get("variables") or {}).values())) != sorted(map(repr, [x for i in range(n) for x in (str(i), i, [str(i)])])):
                        problems.append(f"values {payload.get('variables')}")
                    if data != {"user": None}:   # the mock server's data member, passed through get_data
                        problems.append(f"returned {data!r}")
                rep["outcome"] = {"problems": problems}
                if problems:
                    rep["failed"].append("post.sent-text-is-the-printed-document-of-selections-and-one-definition-per-combined-variable")
                else:
                    rep["semantic_ok"] = True
            except Exception as e:   # noqa
                rep["error"] = f"{type(e).__name__}: {e}"
            return rep

        def samples(self, tier):
            return [dict(fields=[None] * n) for n in (2, 3)]

    cs = [BuildVariableDefinitions(), BuildOperationAst(), BuildSelectionSet(), ExecuteCustomOperation(), ToAstStub(), CombineStub()]
    for c in cs:
        c.label = c.target + getattr(c, "label_suffix", "")
    return cs


CONTRACTS = []
for _pkg, _a in FLAVOURS.items():
    CONTRACTS += make(_pkg, _a)
