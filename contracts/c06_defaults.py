"""C06 / C19 - which default an input field gets: parse_input_field_default_value.

statement (C06): `for every field with a schema default, an instance created without that field reads back a value equal
to the coerced schema default`; (C19): `input models that agree on which fields are required and on every default value`
whatever the schema source - SDL nodes (field.ast_node) or, for a schema built from an introspection result, the coerced
default of the field turned back into a literal by graphql-core's ast_from_value (assumed).

  default literal D := node.default_value           when the SDL node exists
                       ast_from_value(field.default_value, field.type)   when there is no node and the field has a default
  result = lit_expr(D)           if D exists        (the expression of c06_input_types)
         = Constant(None)        else if the field is nullable (node type not NonNull / annotation Optional[...])
         = None (no default: the field is required)   otherwise
"""
import ast
import z3
import graphql as G
from pyvc import val as V
from pyvc import models
from pyvc.val import SV
from pyvc.contract import Contract
from pyvc.spec import *   # noqa
from . import lib_graphql as GQ
from .c06_input_types import ParseInputConstValueNode, lit_expr, LEAF_AT, const, name_, sub, K
from .c03_arguments import TYPE_NODE
from ariadne_codegen.client_generators import input_fields as IF

V.REG.register(G.InputValueDefinitionNode, ["type", "default_value"],
               build=lambda type=None, default_value=None: G.InputValueDefinitionNode(
                   name=G.NameNode(value="f"), type=type or G.NamedTypeNode(name=G.NameNode(value="Int")), default_value=default_value))
NODE = Cls(G.InputValueDefinitionNode, type=TYPE_NODE, default_value=Opt(GQ.LIT))
FIELD = Cls(G.GraphQLInputField, type=GQ.IN_TYPE, default_value=Any)
AST_FROM_VALUE = z3.Function("graphql_ast_from_value", V.Val, V.Val, V.Val)


def _ast_from_value(I, args, kwargs):
    models._used("graphql.ast_from_value(value, type): the literal that value_from_ast maps back to value, or None (assumed)")
    return SV(AST_FROM_VALUE(V.lower(args[0]), V.lower(args[1])))


models.NATIVE[G.ast_from_value] = _ast_from_value
if getattr(IF, "ast_from_value", None) is not None:
    models.NATIVE[IF.ast_from_value] = _ast_from_value


class _Callee(ParseInputConstValueNode):
    props = ()


def default_literal(A):
    node, field = A.node, A.field
    from_field = z3.If(z3.And(z3.Not(V.is_VNone(field)), V.attr_of(field, G.GraphQLInputField, "default_value") != GQ.UNDEFINED),
                       AST_FROM_VALUE(V.attr_of(field, G.GraphQLInputField, "default_value"), V.attr_of(field, G.GraphQLInputField, "type")),
                       V.VNone)
    return z3.If(V.is_VNone(node), from_field, V.attr_of(node, G.InputValueDefinitionNode, "default_value"))


def is_optional_annotation(a):
    return z3.And(GQ.is_cls(a, V.REG.info(ast.Subscript)),
                  V.cls_of(V.attr_of(a, ast.Subscript, "value")) == V.REG.info(ast.Name).cid,
                  V.is_VObj(V.attr_of(a, ast.Subscript, "value")),
                  V.attr_of(V.attr_of(a, ast.Subscript, "value"), ast.Name, "id") == S(K.OPTIONAL))


ANNOTATION = OneOf(Cls(ast.Name, id=Str), Cls(ast.Subscript, value=OneOf(Cls(ast.Name, id=Str), Cls(ast.Attribute)), slice=Any))


class ParseInputFieldDefaultValue(Contract):
    props = ("C06", "C19", "C03")
    target = "ariadne_codegen.client_generators.input_fields:parse_input_field_default_value"
    use_at_calls = False
    trusted = ["graphql-core: ast_from_value(v, type) is the literal denoting the coerced default v (or None when v cannot be represented)"]

    def setup(self, E):
        node = E.sym("node", Opt(NODE))
        field = E.sym("field", Opt(FIELD))
        ann = E.sym("annotation", ANNOTATION)
        ft = E.sym("field_type", Str)
        d = AST_FROM_VALUE(V.attr_of(field.t, G.GraphQLInputField, "default_value"), V.attr_of(field.t, G.GraphQLInputField, "type"))
        E.assume(Opt(GQ.LIT).pred(d))
        return [], dict(node=node, annotation=ann, field_type=ft, field=field)

    def requires(self, A):
        # call site (_parse_input_definition): field_type is the leaf type name of the field, i.e. of its default's position
        d = default_literal(A)
        return z3.Implies(z3.Not(V.is_VNone(d)), A.field_type == LEAF_AT(d))

    def ensures(self, A, res):
        d = default_literal(A)
        node = A.node
        nullable = z3.Or(z3.And(z3.Not(V.is_VNone(node)),
                                V.cls_of(V.attr_of(node, G.InputValueDefinitionNode, "type")) != V.REG.info(G.NonNullTypeNode).cid),
                         is_optional_annotation(A.annotation))
        return {"field-with-a-default-gets-the-expression-of-its-literal/whatever-the-schema-source":
                    z3.Implies(z3.Not(V.is_VNone(d)), res == lit_expr(d, A.field_type, z3.BoolVal(False), z3.BoolVal(False))),
                "nullable-field-without-default-defaults-to-None": z3.Implies(z3.And(V.is_VNone(d), nullable), res == const(V.VNone)),
                "required-field-has-no-default": z3.Implies(z3.And(V.is_VNone(d), z3.Not(nullable)), res == V.VNone)}

    def replay_custom(self, inputs):
        return dict(inputs={k: str(v)[:200] for k, v in inputs.items()}, failed=[], pre_ok=True, outcome=None, error=None,
                    undetermined=["replayed end to end by contracts.e2e_sources / e2e_defaults, not per counter-model"])


CONTRACTS = [ParseInputFieldDefaultValue(), _Callee()]


# ------------------------------------------------------------------------------------------ alias + default merge
from pyvc.val import Obj                                                   # noqa: E402
from pyvc.contract import self_obj                                         # noqa: E402
from ariadne_codegen.client_generators import input_types as IT            # noqa: E402

KEYWORD = Cls(ast.keyword, arg=Opt(Str), value=Any)
EXPR = OneOf(Cls(ast.Call, func=OneOf(Cls(ast.Name, id=Str), Cls(ast.Attribute)), args=ListOf(Any, name="call_args"),
                 keywords=ListOf(KEYWORD, name="call_keywords")),
             Cls(ast.Constant, value=Any), Cls(ast.Name, id=Str), Cls(ast.List), Cls(ast.Attribute))


def kw(arg, value):
    return mk(ast.keyword, arg=arg, value=value)


class ProcessFieldValue(Contract):
    """statement (C06): `the generated model can be built by Python field name or by GraphQL name` and keeps its default:
    a renamed field becomes Field(alias=<GraphQL name>, ...) carrying exactly the default it had (a plain default as
    default=..., an existing Field(...) call with all its keywords, no default -> none)"""
    props = ("C06", "C03", "C18")
    target = "ariadne_codegen.client_generators.input_types:InputTypesGenerator._process_field_value"
    use_at_calls = False
    frame_args = False

    def setup(self, E):
        value = E.sym("value", Opt(EXPR))
        fi = Obj(ast.AnnAssign, {"target": Obj(ast.Name, {"id": "f"}), "annotation": Obj(ast.Name, {"id": "Any"}), "value": value,
                                 "simple": 1})
        return [self_obj(IT.InputTypesGenerator, {})], dict(field_implementation=fi, alias=E.sym("alias", Str))

    def ensures(self, A, res):
        value = A["value"] if "value" in A else z3.Const("value", V.Val)
        alias_kw = kw("alias", const(A.alias))
        is_field_call = z3.And(GQ.is_cls(value, V.REG.info(ast.Call)),
                               GQ.is_cls(V.attr_of(value, ast.Call, "func"), V.REG.info(ast.Name)),
                               V.attr_of(V.attr_of(value, ast.Call, "func"), ast.Name, "id") == S(K.FIELD_CLASS))
        kws = V.vl(V.attr_of(res, ast.Call, "keywords"))
        expected = z3.If(V.is_VNone(value), V.VCons(alias_kw, V.VNil),
                         z3.If(is_field_call, V.VCons(alias_kw, V.vl(V.attr_of(value, ast.Call, "keywords"))),
                               V.VCons(alias_kw, V.VCons(kw("default", value), V.VNil))))
        return {"is-a-Field-call": z3.And(GQ.is_cls(res, V.REG.info(ast.Call)), V.attr_of(res, ast.Call, "func") == name_(K.FIELD_CLASS),
                                          V.attr_of(res, ast.Call, "args") == lst()),
                "alias-is-the-GraphQL-name/default-kept-exactly": kws == expected}

    def replay_custom(self, inputs):
        return dict(inputs={k: str(v)[:200] for k, v in inputs.items()}, failed=[], pre_ok=True, outcome=None, error=None,
                    undetermined=["no native replay (AST fragment)"])


CONTRACTS = [ParseInputFieldDefaultValue(), ProcessFieldValue(), _Callee()]


# ------------------------------------------------------------------------------------------ the input model class
# InputTypesGenerator._parse_input_definition for every input object type (loop invariant over the fields):
#   class <Name>(BaseModel) with one annotated assignment per schema field, in schema order:
#     target     = the Python name of the field
#     annotation = the image of its GraphQL type (c06_input_types.img_in)
#     value      = its default expression; when the Python name differs from the GraphQL name: Field(alias=<GraphQL name>, + that default)
from .c06_input_types import img_in, leaf_in, SCALARS                     # noqa: E402
from .c09_pruning import FakeSchema                                          # noqa: E402

PYNAME_IN = z3.Function("python_name_of_input_field", V.Val, V.Val, V.Val)   # (graphql name, snake flag) -> python name


class _ProcessNameStubIn(Contract):
    """assumed here (proved under C18): process_name is a function of the name and the flags"""
    props = ("C06",)
    assumed = True
    target = "ariadne_codegen.utils:process_name"

    def setup(self, E):
        return [], dict(name=E.sym("name", GQ.NAME), convert_to_snake_case=E.sym_bool("convert_to_snake_case"), plugin_manager=None, node=None,
                        trim_leading_underscore=True, handle_pydantic_resrved_field_names=True)

    def result_term(self, A):
        return PYNAME_IN(A.name, A.convert_to_snake_case)

    def ensures(self, A, res):
        return {"function-of-name-and-flags": z3.And(res == self.result_term(A), V.is_VStr(res))}


def default_expr(node, annotation, field_type, field):
    """spec function of parse_input_field_default_value (its own contract proves the three clauses)"""
    A = Args(node=node, annotation=annotation, field_type=field_type, field=field)
    d = default_literal(A)
    nullable = z3.Or(z3.And(z3.Not(V.is_VNone(node)), V.cls_of(V.attr_of(node, G.InputValueDefinitionNode, "type")) != V.REG.info(G.NonNullTypeNode).cid),
                     is_optional_annotation(annotation))
    return z3.If(z3.Not(V.is_VNone(d)), lit_expr(d, field_type, z3.BoolVal(False), z3.BoolVal(False)),
                 z3.If(nullable, const(V.VNone), V.VNone))


def merged_field_call(value, alias):
    alias_kw = kw("alias", const(alias))
    is_field_call = z3.And(GQ.is_cls(value, V.REG.info(ast.Call)), GQ.is_cls(V.attr_of(value, ast.Call, "func"), V.REG.info(ast.Name)),
                           V.attr_of(V.attr_of(value, ast.Call, "func"), ast.Name, "id") == S(K.FIELD_CLASS))
    kws = z3.If(V.is_VNone(value), V.VCons(alias_kw, V.VNil),
                z3.If(is_field_call, V.VCons(alias_kw, V.vl(V.attr_of(value, ast.Call, "keywords"))),
                      V.VCons(alias_kw, V.VCons(kw("default", value), V.VNil))))
    return mk(ast.Call, func=name_(K.FIELD_CLASS), args=lst(), keywords=V.VList(kws))


from pyvc.contract import Args                                              # noqa: E402


class _DefaultValueStub(ParseInputFieldDefaultValue):
    """the contract proved above, in functional form for the call site"""
    props = ()
    use_at_calls = True

    def result_term(self, A):
        return default_expr(A.node, A.annotation, A.field_type, A.field)


class _ProcessFieldValueStub(ProcessFieldValue):
    props = ()
    use_at_calls = True

    def result_term(self, A):
        fi = A.field_implementation
        return merged_field_call(V.attr_of(fi, ast.AnnAssign, "value"), A.alias)


def field_assign(pair, snake, scalars):
    org, field = V.pkey(pair), V.pval(pair)
    t = V.attr_of(field, G.GraphQLInputField, "type")
    ann = img_in(t, z3.BoolVal(True), scalars)
    ft = leaf_in(t, scalars)
    name = PYNAME_IN(org, snake)
    dv = default_expr(V.attr_of(field, G.GraphQLInputField, "ast_node"), ann, ft, field)
    value = z3.If(name != org, merged_field_call(dv, org), dv)
    return mk(ast.AnnAssign, target=name_(name), annotation=ann, value=value, simple=1)


FIELD_ASSIGNS = SpecMap("input_field_assignments", field_assign, param_sorts=(V.Val, V.Val))
_SCAL = z3.Const("custom_scalars", V.Val)


def _field_facts(f):
    """ghost facts about a schema field (validity of the schema / assumed dependency contract), stated per field so that no
    quantifier is needed: what ast_from_value delivers is a literal or None; the default literal of a field sits at a position
    whose leaf type is the field's leaf type"""
    t = V.attr_of(f, G.GraphQLInputField, "type")
    afv = AST_FROM_VALUE(V.attr_of(f, G.GraphQLInputField, "default_value"), t)
    d = default_literal(Args(node=V.attr_of(f, G.GraphQLInputField, "ast_node"), field=f))
    return z3.And(Opt(GQ.LIT).pred(afv), z3.Implies(z3.Not(V.is_VNone(d)), LEAF_AT(d) == leaf_in(t, _SCAL)))


_IN_FIELD_CLS = Cls(G.GraphQLInputField, type=GQ.IN_TYPE, default_value=Any, ast_node=Opt(NODE))
IN_FIELD = Pred(lambda f: z3.And(_IN_FIELD_CLS.pred(f), _field_facts(f)), "input-field-with-ghost-facts")
IN_FIELDS = DictOf(GQ.NAME, IN_FIELD, name="input_fields")


class ParseInputDefinition(Contract):
    props = ("C06", "C18", "C03")
    target = "ariadne_codegen.client_generators.input_types:InputTypesGenerator._parse_input_definition"
    use_at_calls = False
    frame_args = False
    trusted = ["process_name: a function of the name and the flags (its own contract: C18)",
               "graphql-core: ast_from_value (see parse_input_field_default_value)"]

    def setup(self, E):
        snake = E.sym_bool("convert_to_snake_case")
        scalars = E.sym("custom_scalars", SCALARS)
        d = E.sym("definition", Cls(G.GraphQLInputObjectType, name=GQ.NAME, fields=IN_FIELDS))
        from pyvc.val import MDefaultDict, MList
        self_ = self_obj(IT.InputTypesGenerator, dict(convert_to_snake_case=snake, plugin_manager=None, custom_scalars=scalars,
                                                      schema=Obj(FakeSchema, {"type_map": E.sym("type_map", Any)})))
        _stub_save_dependencies(self_)
        return [self_, d], {}

    @property
    def loops(self):
        snake, scalars = V.VBool(z3.Bool("convert_to_snake_case")), z3.Const("custom_scalars", V.Val)

        def inv(rest, xs, st, I, env):
            cur = V.vl(st["class_def.body"]) if "class_def.body" in st else V.VNil
            return append_map_inv(cur, rest, xs, FIELD_ASSIGNS, params=(snake, scalars))
        return {"InputTypesGenerator._parse_input_definition": inv}

    def requires(self, A):
        return z3.BoolVal(True)

    def ensures(self, A, res):
        snake = A["convert_to_snake_case"] if "convert_to_snake_case" in A else V.VBool(z3.Bool("convert_to_snake_case"))
        scalars = A["custom_scalars"] if "custom_scalars" in A else z3.Const("custom_scalars", V.Val)
        fields = V.vd(V.attr_of(A.definition, G.GraphQLInputObjectType, "fields"))
        return {"class-named-like-the-input-type-deriving-BaseModel": z3.And(
                    V.attr_of(res, ast.ClassDef, "name") == GQ.name_of(A.definition), V.attr_of(res, ast.ClassDef, "bases") == lst(name_(K.BASE_MODEL_CLASS_NAME))),
                "one-field-per-schema-field/annotation-is-the-image/default-kept/alias-iff-renamed": V.vl(V.attr_of(res, ast.ClassDef, "body")) == FIELD_ASSIGNS(fields, snake, scalars)}

    def replay_custom(self, inputs):
        return dict(inputs={k: str(v)[:200] for k, v in inputs.items()}, failed=[], pre_ok=True, outcome=None, error=None,
                    undetermined=["replayed end to end by contracts.e2e_defaults / e2e_variables / c18 wire-names"])


def _stub_save_dependencies(self_):
    from pyvc.interp import ModelMethod

    def call(I, o, a, k):
        I.p.effect("save_dependencies", (a, dict(k)))
        return None
    self_.attrs["_save_dependencies"] = ModelMethod(self_, call, "_save_dependencies")


from .c06_input_types import ParseInputFieldType                             # noqa: E402


class _FieldTypeCallee(ParseInputFieldType):
    props = ()


CONTRACTS = [ParseInputFieldDefaultValue(), ProcessFieldValue(), ParseInputDefinition(), _Callee(), _ProcessNameStubIn(), _DefaultValueStub(),
             _ProcessFieldValueStub(), _FieldTypeCallee()]
