"""Bounded end-to-end stand-in for C15: generate the same client without plugins and with subsets / orders of the
bundled plugins, import every package, drive every method through httpx.MockTransport with the same canned responses
and compare requests and results with the unplugged client (ShorterResults: the single top-level field of it)."""
import asyncio
import itertools
import json
import httpx
import pydantic
from .e2e import generate_client

SCHEMA = """
scalar DateTime
interface Node { id: ID! }
type User implements Node { id: ID! name: String created: DateTime }
type Bot implements Node { id: ID! model: String }
union Actor = User | Bot
input Filter { name: String limit: Int }
type Query { me: User users(f: Filter): [User!] actor: Actor stamp: DateTime pair: User find(query: String, variables: Int): User }
type Subscription { tick(f: Filter): User }
"""
QUERIES = """
fragment UserBits on User { id name }
query GetMe { me { ...UserBits created } }
query GetUsers($f: Filter) { users(f: $f) { id } }
query GetActor { actor { __typename ... on User { name } ... on Bot { model } } }
query GetStamp { stamp }
query GetTwo { me { id } pair { name } }
fragment Inner on Query { stamp }
fragment Outer on Query { me { id } ...Inner }
query Nested { ...Outer }
query Find($query: String, $variables: Int) { find(query: $query, variables: $variables) { id } }
subscription OnTick($f: Filter) { tick(f: $f) { id name } }
fragment OnlyMe on Query { me { id } }
query ViaFragment { ...OnlyMe }
"""
RESPONSES = {
    "GetMe": {"me": {"id": "1", "name": "n", "created": "2020-01-01T00:00:00"}},
    "GetUsers": {"users": [{"id": "1"}, {"id": "2"}]},
    "GetActor": {"actor": {"__typename": "Bot", "model": "m"}},
    "GetStamp": {"stamp": "2020-01-01T00:00:00"},
    "GetTwo": {"me": {"id": "1"}, "pair": {"name": "p"}},
    "Nested": {"me": {"id": "1"}, "stamp": "2020-01-01T00:00:00"},
    "ViaFragment": {"me": {"id": "7"}},
    "Find": {"find": {"id": "9"}},
    "OnTick": {"tick": {"id": "t1", "name": "tn"}},
}
PLUGINS = {
    "ShorterResults": "ariadne_codegen.contrib.shorter_results.ShorterResultsPlugin",
    "ExtractOperations": "ariadne_codegen.contrib.extract_operations.ExtractOperationsPlugin",
    "ClientForwardRefs": "ariadne_codegen.contrib.client_forward_refs.ClientForwardRefsPlugin",
    "NoReimports": "ariadne_codegen.contrib.no_reimports.NoReimportsPlugin",
}
SINGLE_FIELD = {"GetMe": "me", "GetUsers": "users", "GetActor": "actor", "GetStamp": "stamp", "ViaFragment": "me", "Find": "find", "OnTick": "tick"}


def _plain(v):
    import datetime
    if isinstance(v, pydantic.BaseModel):
        return v.model_dump(by_alias=True, mode="json")
    if isinstance(v, list):
        return [_plain(x) for x in v]
    if isinstance(v, (datetime.datetime, datetime.date)):
        return v.isoformat()
    return str(v) if not isinstance(v, (str, int, float, bool, type(None), dict)) else v


def _norm_request(req):
    import graphql as G
    r = dict(req)
    try:
        r["query"] = G.print_ast(G.parse(req["query"]))
    except Exception:   # noqa
        pass
    return r


def drive(g, sync=False):
    """-> {operation: (request payload, plain result)}"""
    sent = []

    def handler(request):
        body = json.loads(request.content)
        sent.append(body)
        return httpx.Response(200, json={"data": RESPONSES[body["operationName"]]})
    mod = g.module("client")
    http = httpx.Client(transport=httpx.MockTransport(handler)) if sync else httpx.AsyncClient(transport=httpx.MockTransport(handler))
    client = mod.Client(url="http://x/graphql", http_client=http)
    inputs = g.module("input_types")
    out = {}
    calls = {"GetMe": ("get_me", {}), "GetUsers": ("get_users", {"f": inputs.Filter(name="a")}), "GetActor": ("get_actor", {}),
             "GetStamp": ("get_stamp", {}), "GetTwo": ("get_two", {}), "Nested": ("nested", {}), "ViaFragment": ("via_fragment", {}),
             "Find": ("find", {"query": "needle", "variables": 3})}
    for op, (meth, kw) in calls.items():
        res = getattr(client, meth)(**kw) if sync else asyncio.run(getattr(client, meth)(**kw))
        out[op] = (_norm_request(sent[-1]), _plain(res))
    if sync:
        return out          # (a synchronous client has no subscriptions)
    # the subscription, against a scripted connection: the subscribe frame is its request, the yielded items its result
    from unittest import mock
    from . import lib_fakes as F
    base = g.module("async_base_client")
    ws = F.NativeWS([json.dumps({"type": "connection_ack"}), json.dumps({"type": "next", "payload": {"data": RESPONSES["OnTick"]}}),
                     json.dumps({"type": "next", "payload": {"data": RESPONSES["OnTick"]}}), json.dumps({"type": "complete"})])

    async def sub():
        items = []
        c = mod.Client(url="http://x/graphql", ws_url="ws://x/graphql")
        with mock.patch.object(base, "ws_connect", lambda *a, **k: ws), mock.patch.object(base, "uuid4", lambda: "op-id"):
            async for item in c.on_tick(f=inputs.Filter(limit=1)):
                items.append(_plain(item))
        return items
    items = asyncio.run(sub())
    frames = [json.loads(v) for k, v in ws.log if k == "ws_send"]
    subscribe = next((f["payload"] for f in frames if f.get("type") == "subscribe"), {})
    out["OnTick"] = (_norm_request(dict(subscribe)), items)
    return out


CUSTOM_OPERATIONS = "+custom-operations"     # pseudo entry of a combination: the same plugins next to enable_custom_operations


SYNC_CLIENT = "+sync-client"                # pseudo entry: the same plugins with async_client = false (operations without the subscription)
PSEUDO = (CUSTOM_OPERATIONS, SYNC_CLIENT)


def _generate(plugins):
    opts = dict(enable_custom_operations=True) if CUSTOM_OPERATIONS in plugins else {}
    queries = QUERIES
    if SYNC_CLIENT in plugins:
        opts["async_client"] = False
        queries = "\n".join(l for l in QUERIES.splitlines() if not l.startswith("subscription "))
    return generate_client(SCHEMA, queries, plugins=[PLUGINS[p] for p in plugins if p not in PSEUDO],
                           scalars={"DateTime": {"type": "datetime.datetime"}}, **opts)


def run_isolated(plugins):
    """drive one plugin combination in a fresh interpreter (the plugins must not be able to influence each other)"""
    import subprocess
    import sys
    import os
    prog = ("import json, sys\nsys.path.insert(0, %r)\nfrom contracts.e2e_plugins import check_combo_inproc\n"
            "print('RESULT' + json.dumps(check_combo_inproc(json.loads(sys.argv[1])), default=str))\n" % os.path.dirname(os.path.dirname(os.path.abspath(__file__))))
    r = subprocess.run([sys.executable, "-c", prog, json.dumps(list(plugins))], capture_output=True, text=True, timeout=600)
    for line in r.stdout.splitlines():
        if line.startswith("RESULT"):
            return json.loads(line[6:])
    return dict(inputs={"plugins": list(plugins)}, failed=["harness"], outcome={"stderr": r.stderr[-500:]}, pre_ok=True)


def unresolved_annotations(src):
    """names used in the annotations of the client's methods (also inside quoted annotations) that nothing in the module
    binds: no import at any depth (top level, `if TYPE_CHECKING:`, inside the method), no definition, no builtin"""
    import ast
    import builtins
    tree = ast.parse(src)
    bound = set(dir(builtins))
    for n in ast.walk(tree):
        if isinstance(n, (ast.Import, ast.ImportFrom)):
            bound |= {(a.asname or a.name).split(".")[0] for a in n.names}
        elif isinstance(n, (ast.ClassDef, ast.FunctionDef, ast.AsyncFunctionDef)):
            bound.add(n.name)
        elif isinstance(n, ast.Assign):
            bound |= {t.id for t in n.targets if isinstance(t, ast.Name)}
    missing = set()

    def names_of(ann):
        if ann is None:
            return
        if isinstance(ann, ast.Constant) and isinstance(ann.value, str):
            try:
                ann = ast.parse(ann.value, mode="eval").body
            except SyntaxError:
                missing.add(f"<unparsable annotation {ann.value!r}>")
                return
            names_of(ann)
            return
        for x in ast.walk(ann):
            if isinstance(x, ast.Name) and x.id not in bound:
                missing.add(x.id)
            elif isinstance(x, ast.Constant) and isinstance(x.value, str) and x is not ann:
                names_of(x)
    for cls in [n for n in tree.body if isinstance(n, ast.ClassDef)]:
        for fn in [n for n in cls.body if isinstance(n, (ast.FunctionDef, ast.AsyncFunctionDef))]:
            names_of(fn.returns)
            for a in fn.args.args + fn.args.kwonlyargs:
                names_of(a.annotation)
    return sorted(missing)


def check_combo_inproc(plugins):
    return check_combo(tuple(plugins))


def check_combo(plugins, baseline=None):
    rep = dict(inputs={"plugins": list(plugins)}, failed=[], undetermined=[], pre_ok=True, outcome={}, error=None)
    g0 = g = None
    try:
        sync = SYNC_CLIENT in plugins
        if baseline is None:
            g0 = _generate((SYNC_CLIENT,) if sync else ())
            baseline = drive(g0, sync)
        g = _generate(plugins)
        if "NoReimports" not in plugins:
            g.module()
        got = drive(g, sync)
        for op, (req0, res0) in baseline.items():
            req, res = got[op]
            if req != req0:
                rep["failed"].append(f"request[{op}]")
                rep["outcome"][op] = {"request": req, "unplugged": req0}
            expected = res0
            if "ShorterResults" in plugins and op in SINGLE_FIELD:
                expected = [x[SINGLE_FIELD[op]] for x in res0] if op == "OnTick" else res0[SINGLE_FIELD[op]]
            if res != expected:
                rep["failed"].append(f"result[{op}]")
                rep["outcome"][op] = {"result": res, "expected": expected}
        unresolved = unresolved_annotations(g.read("client.py"))
        if unresolved:
            rep["failed"].append("client-annotations-resolve")
            rep["outcome"]["unresolved"] = unresolved
        if CUSTOM_OPERATIONS in plugins:
            for m in ("custom_fields", "custom_queries"):
                g.module(m)
        if "ExtractOperations" in plugins and "operations.py" not in g.files:
            rep["failed"].append("operations-module-written")
        if "NoReimports" in plugins and g.read("__init__.py").strip():
            rep["failed"].append("init-emptied")
        if "NoReimports" in plugins:
            # the plugin is added to a project that was generated without it before: the old re-exports must not survive
            gx = _generate(())
            import contextlib, io, os, tempfile, shutil     # noqa: E401
            from ariadne_codegen.main import client as _client
            tmp = tempfile.mkdtemp(prefix="pyvc_regen_")
            try:
                open(os.path.join(tmp, "schema.graphql"), "w").write(SCHEMA)
                open(os.path.join(tmp, "queries.graphql"), "w").write(QUERIES)
                cfg = dict(schema_path=os.path.join(tmp, "schema.graphql"), queries_path=os.path.join(tmp, "queries.graphql"), include_comments="none",
                           target_package_path=gx.root, target_package_name=gx.pkg_name, scalars={"DateTime": {"type": "datetime.datetime"}},
                           plugins=[PLUGINS[p] for p in plugins if p not in PSEUDO])
                with contextlib.redirect_stdout(io.StringIO()):
                    _client({"tool": {"ariadne-codegen": cfg}})
                if gx.read("__init__.py").strip():
                    rep["failed"].append("init-emptied-when-regenerating-over-an-unplugged-package")
            finally:
                shutil.rmtree(tmp, ignore_errors=True)
                gx.cleanup()
    except Exception as e:   # noqa
        rep["outcome"]["error"] = f"{type(e).__name__}: {str(e)[:300]}"
        rep["failed"].append("package-loads-and-runs")
    finally:
        for x in (g, g0):
            if x is not None:
                x.cleanup()
    return rep


def combos(tier):
    names = list(PLUGINS)
    out = [(n,) for n in names]
    out += [("NoReimports", "ExtractOperations"), ("ExtractOperations", "NoReimports"), ("ShorterResults", "ExtractOperations"),
            ("ExtractOperations", "ShorterResults"), ("ShorterResults", "ClientForwardRefs"), ("ClientForwardRefs", "ShorterResults"),
            ("ClientForwardRefs", CUSTOM_OPERATIONS), ("ShorterResults", "ExtractOperations", CUSTOM_OPERATIONS),
            # the same plugins on a synchronous client (its methods are plain functions)
            ("ShorterResults", SYNC_CLIENT), ("ClientForwardRefs", SYNC_CLIENT), ("ExtractOperations", "ShorterResults", SYNC_CLIENT)]
    if tier == "thorough":
        out = [c for n in range(1, 5) for c in itertools.permutations(names, n)] + [(n, CUSTOM_OPERATIONS) for n in names] + [(n, SYNC_CLIENT) for n in names]
    return out


def bounded_plugins(tier, seed):
    fails = []
    cs = combos(tier)
    from concurrent.futures import ThreadPoolExecutor
    with ThreadPoolExecutor(max_workers=8) as ex:
        results = list(ex.map(run_isolated, cs))
    for c, r in zip(cs, results):
        if r["failed"]:
            r["inputs"]["scenario"] = "+".join(c)
            fails.append(r)
    return dict(function="ariadne_codegen.plugins.manager:PluginManager", name="bounded.plugged-packages",
                kind="bounded stand-in (plugin subsets/orders, end to end)", domain=f"{len(cs)} ordered plugin combinations x {len(RESPONSES)} operations",
                cases=len(cs), failed=len(fails), failures=fails)


def is_known_unshortened(rep):
    """known finding F34: with ClientForwardRefs configured BEFORE ShorterResults nothing is shortened (the annotations are
    already quoted when ShorterResults looks at them); only the single-field operations' results differ, requests are equal"""
    plugins = (rep.get("inputs") or {}).get("plugins") or []
    if "ClientForwardRefs" not in plugins or "ShorterResults" not in plugins:
        return False
    if plugins.index("ClientForwardRefs") > plugins.index("ShorterResults"):
        return False
    allowed = {f"result[{op}]" for op in SINGLE_FIELD}
    if not rep.get("failed") or not set(rep["failed"]) <= allowed:
        return False
    def unshortened(op, v):
        if op == "OnTick":
            return v.get("result") == [{SINGLE_FIELD[op]: x} for x in (v.get("expected") or [])]
        return v.get("result") == {SINGLE_FIELD[op]: v.get("expected")}
    return all(unshortened(op, v) for op, v in (rep.get("outcome") or {}).items() if op in SINGLE_FIELD)


def witness_unshortened():
    r = run_isolated(("ClientForwardRefs", "ShorterResults"))
    return dict(r, cases=["ClientForwardRefs+ShorterResults"] if r.get("failed") else [])
