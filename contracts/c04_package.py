"""Package orchestration (serves C04, C09, C10, C17): PackageGenerator against stand-ins for the sub-generators.

Each sub-generator is replaced by a stand-in whose methods are logged in the ghost effect log and return fixed symbolic
values; the file system is a stand-in directory whose writes are logged.  Contracts on the real methods say which
effects happen, in which order, and how the accumulators (_generated_files, _used_enums) change."""
import z3
from pyvc import val as V
from pyvc import models
from pyvc.val import SV, Obj, MList
from pyvc.contract import Contract, Args
from pyvc.interp import Unsupported
from pyvc.spec import *   # noqa
from . import lib_graphql as GQ
from .lib_opaque import Opaque
from ariadne_codegen.client_generators import package as PK

PKG = "ariadne_codegen.client_generators.package:PackageGenerator."


def const(name):
    return z3.Const(name, V.Val)


# ---------------------------------------------------------------- stand-ins
class FakeFile:
    def _write_text(I, o, a, k):
        I.p.effect("write", dict(name=o.attrs["name"], code=a[0]))

    def _read_text(I, o, a, k):
        return SV(z3.Function("file_content", V.Val, V.Val)(V.lower(o.attrs["name"])))

    __pyvc_methods__ = {"write_text": _write_text, "read_text": _read_text}


class FakeDir:
    def _exists(I, o, a, k):
        return SV(V.VBool(z3.Bool("package_dir_exists")))

    def _mkdir(I, o, a, k):
        I.p.effect("mkdir", None)

    __pyvc_methods__ = {"exists": _exists, "mkdir": _mkdir}

    @staticmethod
    def __pyvc_binop__(I, op, a, b):
        import ast as _ast
        if isinstance(op, _ast.Div) and isinstance(a, Obj) and a.cls is FakeDir:
            return Obj(FakeFile, {"name": b})
        raise Unsupported("operator on directory stand-in")


V.REG.register(FakeFile, ["name"])
V.REG.register(FakeDir, [])


def _logged(kind, result=None):
    def m(I, o, a, k):
        I.p.effect(kind, dict(args=list(a), **k))
        return None if result is None else SV(const(result))
    return m


class FakeInputTypes:
    __pyvc_methods__ = {"generate": _logged("input_types.generate", "input_types_module"),
                        "get_used_enums": lambda I, o, a, k: SV(const("input_types_used_enums")),
                        "get_generated_public_names": lambda I, o, a, k: SV(const("input_types_public_names"))}


class FakeEnums:
    __pyvc_methods__ = {"generate": _logged("enums.generate", "enums_module"),
                        "get_generated_public_names": lambda I, o, a, k: SV(const("enums_public_names"))}


class FakeArguments:
    __pyvc_methods__ = {"get_used_inputs": lambda I, o, a, k: SV(const("used_inputs"))}


class FakeClient:
    __pyvc_methods__ = {"generate": _logged("client.generate", "client_module")}


class FakeInit:
    __pyvc_methods__ = {"add_import": _logged("init.add_import"), "generate": _logged("init.generate", "init_module")}


for _c in (FakeInputTypes, FakeEnums, FakeArguments, FakeInit):
    V.REG.register(_c, [])
V.REG.register(FakeClient, ["arguments_generator"])
for _n in ("input_types_used_enums", "input_types_public_names", "enums_public_names", "used_inputs"):
    pass

CODE = z3.Function("rendered_code", V.Val, V.Val)      # ast_to_str + comments: opaque text of a module


class AstToStr(Opaque):
    def __init__(self):
        super().__init__("ariadne_codegen.utils:ast_to_str", note="formatting (autoflake/isort/black) is a dependency contract")


class AddComments(Opaque):
    def __init__(self):
        super().__init__(PKG + "_add_comments_to_code")


def package_self(E, **over):
    names = dict(input_types_module_name=E.sym("input_types_module_name", GQ.NAME), enums_module_name=E.sym("enums_module_name", GQ.NAME))
    client = Obj(FakeClient, {"arguments_generator": Obj(FakeArguments, {})})
    attrs = dict(package_path=Obj(FakeDir, {}), include_all_inputs=E.sym_bool("include_all_inputs"),
                 include_all_enums=E.sym_bool("include_all_enums"), input_types_generator=Obj(FakeInputTypes, {}),
                 enums_generator=Obj(FakeEnums, {}), client_generator=client, init_generator=Obj(FakeInit, {}),
                 plugin_manager=None, schema_source="schema.graphql", queries_source="queries.graphql",
                 _generated_files=E.mlist("generated_files0", Str), _used_enums=E.mlist("used_enums0", Str), **names)
    attrs.update(over)
    for n in ("input_types_used_enums", "input_types_public_names", "enums_public_names", "used_inputs"):
        E.assume(V.is_VList(const(n)))
    return Obj(PK.PackageGenerator, attrs)


V.REG.register(PK.PackageGenerator, ["package_path", "include_all_inputs", "include_all_enums", "input_types_generator",
                                     "enums_generator", "client_generator", "init_generator", "plugin_manager", "schema_source",
                                     "queries_source", "_generated_files", "_used_enums", "input_types_module_name",
                                     "enums_module_name", "enable_custom_operations", "async_client", "custom_query_generator",
                                     "custom_mutation_generator"])


def pattr(t, f):
    return V.attr_of(t, PK.PackageGenerator, f)


def effects_of(A, kind):
    return [p for k, p in A["__effects__"] if k == kind]


class GenerateInputTypes(Contract):
    props = ("C09", "C04")
    target = PKG + "_generate_input_types"
    mutates = ("self",)
    use_at_calls = False
    frame_args = False

    def setup(self, E):
        return [package_self(E)], {}

    def ensures(self, A, res):
        gen = effects_of(A, "input_types.generate")
        wr = effects_of(A, "write")
        imp = effects_of(A, "init.add_import")
        fname = V.VStr(z3.Concat(V.vs(pattr(A.self, "input_types_module_name")), V.S(".py")))
        out = {"exactly-one-generation-and-one-write": z3.BoolVal(len(gen) == 1 and len(wr) == 1 and len(imp) == 1)}
        if len(gen) == 1 and len(wr) == 1 and len(imp) == 1:
            tti = V.lower(gen[0].get("types_to_include"))
            out["pruned-iff-include_all_inputs-is-off/pruning-roots-are-the-inputs-used-by-operations"] = \
                tti == z3.If(V.vb(pattr(A.self, "include_all_inputs")), V.VNone, const("used_inputs"))
            out["module-written-under-its-configured-name"] = V.lower(wr[0]["name"]) == fname
            out["file-reported"] = V.vl(pattr(A.final_self, "_generated_files")) == V.vsnoc(V.vl(pattr(A.self, "_generated_files")), fname)
            # C09: the enums used by the retained input types are ALWAYS handed on to the enum pruner
            out["enums-of-retained-inputs-recorded-for-enum-pruning"] = \
                V.vl(pattr(A.final_self, "_used_enums")) == V.vconcat(V.vl(pattr(A.self, "_used_enums")), V.vl(const("input_types_used_enums")))
            out["public-names-re-exported"] = V.lower(imp[0]["args"]) == lst(const("input_types_public_names"), pattr(A.self, "input_types_module_name"), 1)
        return out


def _replay_pruning(self, inputs):
    from .e2e_pruning import check_pruning
    return check_pruning(bool(inputs.get("include_all_inputs", True)), bool(inputs.get("include_all_enums", False)))


def _pruning_samples(self, tier):
    return [dict(include_all_inputs=a, include_all_enums=b) for a in (True, False) for b in (True, False)]


GenerateInputTypes.replay_custom = _replay_pruning
GenerateInputTypes.samples = _pruning_samples


class GenerateEnums(Contract):
    props = ("C09", "C04")
    target = PKG + "_generate_enums"
    mutates = ("self",)
    use_at_calls = False
    frame_args = False

    def setup(self, E):
        return [package_self(E)], {}

    def ensures(self, A, res):
        gen = effects_of(A, "enums.generate")
        wr = effects_of(A, "write")
        fname = V.VStr(z3.Concat(V.vs(pattr(A.self, "enums_module_name")), V.S(".py")))
        out = {"exactly-one-generation-and-one-write": z3.BoolVal(len(gen) == 1 and len(wr) == 1)}
        if len(gen) == 1 and len(wr) == 1:
            tti = V.lower(gen[0].get("types_to_include"))
            out["pruned-iff-include_all_enums-is-off/kept-enums-are-all-recorded-uses"] = \
                tti == z3.If(V.vb(pattr(A.self, "include_all_enums")), V.VNone, pattr(A.self, "_used_enums"))
            out["module-written-under-its-configured-name"] = V.lower(wr[0]["name"]) == fname
            out["file-reported"] = V.vl(pattr(A.final_self, "_generated_files")) == V.vsnoc(V.vl(pattr(A.self, "_generated_files")), fname)
        return out


GenerateEnums.replay_custom = _replay_pruning
CONTRACTS = [GenerateInputTypes(), GenerateEnums(), AstToStr(), AddComments()]


# ------------------------------------------------------------------------------------------ generate(): order of effects
class Step(Contract):
    """effect-only stand-in for one private step of PackageGenerator.generate (assumed here; the steps that matter have
    their own contracts above): logs its name; steps that write files extend _generated_files by an opaque list"""
    assumed = True
    WRITES = {"_generate_input_types", "_generate_result_types", "_generate_fragments", "_copy_files", "_generate_client",
              "_generate_enums", "_generate_init", "_generate_custom_queries", "_generate_custom_mutations",
              "_generate_custom_fields_typing", "_generate_custom_fields"}

    def __init__(self, name):
        self.name = name
        self.target = PKG + name

    def apply_at_call(self, I, fn, args, kwargs):
        I.p.effect("step", self.name)
        self_ = args[0]
        if self.name in self.WRITES:
            files = self_.attrs["_generated_files"]
            written = z3.Const("files_written_by" + self.name, V.Val)
            I.p.assume(V.is_VList(written))
            files.t = V.VList(V.vconcat(V.vl(files.t), V.vl(written)))
        return None


STEPS = ["_include_exceptions", "_validate_unique_file_names", "_generate_input_types", "_generate_result_types", "_generate_fragments",
         "_copy_files", "_generate_custom_fields_typing", "_generate_custom_fields", "_generate_custom_queries",
         "_generate_custom_mutations", "_generate_client", "_generate_enums", "_generate_init"]


class FakeCustomOps:
    __pyvc_methods__ = {"add_execute_custom_operation_method": _logged("client.add_execute_custom_operation_method"),
                        "create_custom_operation_method": _logged("client.create_custom_operation_method"),
                        "generate": _logged("client.generate", "client_module")}


V.REG.register(FakeCustomOps, ["arguments_generator"])


class Generate(Contract):
    props = ("C04", "C09", "C17")
    target = PKG + "generate"
    use_at_calls = False
    frame_args = False

    def setup(self, E):
        custom = E.fork("enable_custom_operations")
        s = package_self(E, enable_custom_operations=custom, async_client=True,
                         custom_query_generator=Obj(FakeInit, {}) if E.fork("has_custom_queries") else None,
                         custom_mutation_generator=Obj(FakeInit, {}) if E.fork("has_custom_mutations") else None)
        s.attrs["client_generator"] = Obj(FakeCustomOps, {"arguments_generator": Obj(FakeArguments, {})})
        E.p.flags = (custom, s.attrs["custom_query_generator"] is not None, s.attrs["custom_mutation_generator"] is not None)
        return [s], {}

    def configure(self, ctx):
        for n in STEPS:
            ctx.contracts[(PKG.split(":")[0], "PackageGenerator." + n)] = Step(n)

    def ensures(self, A, res):
        custom, hq, hm = A["__path__"].flags
        steps = [p for k, p in A["__effects__"] if k in ("step", "mkdir")]
        steps = ["mkdir" if s is None else s for s in steps]
        expected = ["_include_exceptions", "_validate_unique_file_names"]
        mk_dir = "mkdir" in steps
        if mk_dir:
            expected.append("mkdir")
        expected += ["_generate_input_types", "_generate_result_types", "_generate_fragments", "_copy_files"]
        if custom:
            expected += ["_generate_custom_fields_typing", "_generate_custom_fields"]
            if hq:
                expected.append("_generate_custom_queries")
            if hm:
                expected.append("_generate_custom_mutations")
        expected += ["_generate_client", "_generate_enums", "_generate_init"]
        return {
            # the bundled exceptions module is part of the validated file set; nothing is written before validation;
            # enums come after every producer of enum uses (inputs, results, fragments, client)
            "steps-in-the-documented-order(validation-first,enums-after-all-uses)": z3.BoolVal(steps == expected),
            "directory-created-iff-missing": z3.Bool("package_dir_exists") != z3.BoolVal(mk_dir),
            "reported-files-are-the-sorted-files-written": res == V.VList(models.PY_SORTED(V.vl(pattr(A.final_self, "_generated_files")))),
        }

    mutates = ("self",)


CONTRACTS.append(Generate())
