"""C12 - every HTTP response is classified into exactly one documented outcome.

Contracts on `get_data` of the four bundled base clients (one shared contract, so that a drift in one copy
fails that copy's obligations) and on the error constructors it uses."""
import z3
from pyvc import val as V
from pyvc.val import Obj
from pyvc.contract import Contract
from pyvc.spec import *   # noqa
from . import lib_http as H
from ariadne_codegen.client_generators.dependencies import exceptions as X

DEP = "ariadne_codegen.client_generators.dependencies."
for _c, _f in [(X.GraphQLClientHttpError, ["status_code", "response"]),
               (X.GraphQLClientInvalidResponseError, ["response"]),
               (X.GraphQLClientGraphQLError, ["message", "locations", "path", "extensions", "original"]),
               (X.GraphQLClientGraphQLMultiError, ["errors", "data"]),
               (X.GraphQLClientInvalidMessageFormat, ["message"])]:
    V.REG.register(_c, _f)

# "errors member, when present, is spec-shaped: a list of objects each carrying a message"
ERROR_OBJ = Pred(lambda e: z3.And(JOBJ.pred(e), has(e, "message")), "error object with message")
ERRORS = ListOf(ERROR_OBJ, name="all_error_objs")


def spec_error(e):
    """the GraphQL error object the multi-error must carry for the JSON error e"""
    return mk(X.GraphQLClientGraphQLError, message=get(e, "message"), locations=get(e, "locations"),
              path=get(e, "path"), extensions=get(e, "extensions"), original=e)


class GetData(Contract):
    props = ("C12",)
    module = None
    klass = None
    trusted = H.TRUSTED

    def __init__(self, module, klass):
        self.target = f"{DEP}{module}:{klass}.get_data"
        self.module, self.klass = module, klass

    def setup(self, E):
        import importlib
        cls = getattr(importlib.import_module(DEP + self.module), self.klass)
        self_ = Obj(cls, {})
        resp = E.sym("response", H.RESPONSE)
        body = H.resp_json(resp.t)
        # the property's quantifier: an `errors` member, when present, is spec-shaped
        E.assume_shape_if(z3.And(H.resp_kind(resp.t) == 0, V.is_VDict(body), has(body, "errors")),
                          ERRORS, get(body, "errors"))
        return [self_, resp], {}

    def native_self(self):
        import importlib
        cls = getattr(importlib.import_module(DEP + self.module), self.klass)
        return cls(url="http://localhost/graphql")

    def native_args(self, inputs):
        return [inputs["response"]], {}

    def samples(self, tier):
        e = lambda m, **k: dict(message=m, **k)      # noqa: E731
        bodies = [{"data": {"a": 1}}, {"data": None}, {"data": {}}, {"errors": []}, {"data": {"a": 1}, "errors": []}, {"data": {"a": 1}, "errors": None},
                  {"errors": [e("boom")]}, {"data": {"partial": 1}, "errors": [e("boom", path=["a", 0], locations=[{"line": 1, "column": 2}])]},
                  {"errors": [e("same", path=["a"]), e("same", path=["b"]), e("same", path=["a"])]},
                  {"data": None, "errors": [e("x", extensions={"code": "C"}), e("y")]},
                  {"errors": [e("nulls", locations=None, path=None, extensions=None), e("vendor", errorType="T", code=7)]}, {}, {"other": 1}, [], [1], "text", 1, None, True]
        out = []
        for status in (200, 201, 204, 299, 199, 300, 301, 400, 404, 500, 503):
            for b in bodies if status in (200, 201, 404) else bodies[:2] + bodies[7:9]:
                out.append(dict(response=H._build_response(status, 0, b)))
            out.append(dict(response=H._build_response(status, 1, None)))
            out.append(dict(response=H._build_response(status, 2, None)))
        return out

    # decision table of the statement ------------------------------------------------------
    def _classes(self, A):
        r = A.response
        body = H.resp_json(r)
        ok = H.is_2xx(r)
        is_obj = z3.And(H.resp_kind(r) == 0, V.is_VDict(body))
        has_key = z3.Or(has(body, "data"), has(body, "errors"))
        errs = get(body, "errors")
        nonempty_errors = z3.And(has(body, "errors"), V.is_VList(errs), V.is_VCons(V.vl(errs)))
        return dict(http=z3.Not(ok),
                    invalid=z3.And(ok, z3.Or(z3.Not(is_obj), z3.Not(has_key))),
                    multi=z3.And(ok, is_obj, has_key, nonempty_errors),
                    data=z3.And(ok, is_obj, has_key, z3.Not(nonempty_errors)))

    def ensures(self, A, res):
        c = self._classes(A)
        body = H.resp_json(A.response)
        return {"returns-only-in-data-class": c["data"],
                "data-unchanged": res == get(body, "data")}

    def on_raise(self, A, exc_cls, exc):
        c = self._classes(A)
        r = A.response
        body = H.resp_json(r)
        if exc_cls is X.GraphQLClientHttpError:
            return {"http-error-iff-non-2xx": c["http"],
                    "carries-status-and-response": exc == mk(X.GraphQLClientHttpError, status_code=H.resp_status(r), response=r)}
        if exc_cls is X.GraphQLClientInvalidResponseError:
            return {"invalid-response-class": c["invalid"],
                    "carries-response": exc == mk(X.GraphQLClientInvalidResponseError, response=r)}
        if exc_cls is X.GraphQLClientGraphQLMultiError:
            errs = get(body, "errors")
            expected = mk(X.GraphQLClientGraphQLMultiError,
                          errors=spec_map(A["__path__"], V.vl(errs), spec_error, "spec_errors"),
                          data=get(body, "data"))
            return {"multi-error-class": c["multi"],
                    "carries-every-error-and-data": exc == expected}
        return {"no-other-exception-type": z3.BoolVal(False)}


CONTRACTS = [GetData("base_client", "BaseClient"), GetData("async_base_client", "AsyncBaseClient"),
             GetData("base_client_open_telemetry", "BaseClientOpenTelemetry"),
             GetData("async_base_client_open_telemetry", "AsyncBaseClientOpenTelemetry")]
