"""C16 (continued) - named types, directives and the schema object of the graphqlschema strategy.

Every generator returns the constructor-call AST that rebuilds the object under the assumed meaning of graphql-core's
constructors (see c16_schema): name, description, specified_by_url, interfaces, member types, fields with all their
arguments, enum values, input fields, directive locations / arguments / repeatability, root operation types, schema
description.  Callees are used through their contracts (c16_schema), never through their bodies."""
import ast
import z3
import graphql as G
from pyvc import val as V
from pyvc.contract import Contract
from pyvc.spec import *   # noqa
from . import lib_graphql as GQ
from .c06_input_types import name_, sub, const, call, EMPTY_ARGS
from .c16_meaning import SameMeaning
from .c16_schema import (kw, attr, arg_ast, args_ast, type_ast, class_name_of, named_ref, TMN, FIELD, INPUT_FIELD, ENUM_VALUE, ARG_MAP,
                         NAMED_ANY, NAMED_AST, tm_keys, tm_vals, GenerateTypeMap)
TYPE_MAP = GenerateTypeMap.TYPE_MAP

MODF = "ariadne_codegen.graphql_schema_generators.fields:"
MODN = "ariadne_codegen.graphql_schema_generators.named_types:"
MODU = "ariadne_codegen.graphql_schema_generators.utils:"
MODD = "ariadne_codegen.graphql_schema_generators.directives:"
MODS = "ariadne_codegen.graphql_schema_generators.schema:"

FIELD_MAP = DictOf(GQ.NAME, FIELD, name="schema_field_map")
INPUT_FIELD_MAP = DictOf(GQ.NAME, INPUT_FIELD, name="schema_input_field_map")
ENUM_VALUE_MAP = DictOf(GQ.NAME, ENUM_VALUE, name="schema_enum_value_map")
IFACE_REF = Cls(G.GraphQLInterfaceType, name=GQ.NAME)
OBJECT_REF = Cls(G.GraphQLObjectType, name=GQ.NAME)
SCALAR_T = Cls(G.GraphQLScalarType, name=GQ.NAME, description=Opt(Str), specified_by_url=Opt(Str))
ENUM_T = Cls(G.GraphQLEnumType, name=GQ.NAME, description=Opt(Str), values=ENUM_VALUE_MAP)
INPUT_T = Cls(G.GraphQLInputObjectType, name=GQ.NAME, description=Opt(Str), fields=INPUT_FIELD_MAP)
OBJECT_T = Cls(G.GraphQLObjectType, name=GQ.NAME, description=Opt(Str), interfaces=TupleOf(IFACE_REF, name="obj_ifaces"), fields=FIELD_MAP)
IFACE_T = Cls(G.GraphQLInterfaceType, name=GQ.NAME, description=Opt(Str), interfaces=TupleOf(IFACE_REF, name="iface_ifaces"), fields=FIELD_MAP)
UNION_T = Cls(G.GraphQLUnionType, name=GQ.NAME, description=Opt(Str), types=TupleOf(OBJECT_REF, name="union_members"))


def lam(body):
    return mk(ast.Lambda, args=EMPTY_ARGS, body=body)


def field_ast(f, m):
    return call(name_("GraphQLField"), args=[type_ast(attr(f, G.GraphQLField, "type"), m)],
                keywords=[kw("args", args_ast(attr(f, G.GraphQLField, "args"), m)), kw("description", const(attr(f, G.GraphQLField, "description"))),
                          kw("deprecation_reason", const(attr(f, G.GraphQLField, "deprecation_reason")))])


def enum_value_ast(v):
    return call(name_("GraphQLEnumValue"), keywords=[kw("value", const(attr(v, G.GraphQLEnumValue, "value"))),
                                                     kw("description", const(attr(v, G.GraphQLEnumValue, "description"))),
                                                     kw("deprecation_reason", const(attr(v, G.GraphQLEnumValue, "deprecation_reason")))])


pair_keys = SpecMap("schema_pair_keys", lambda p: const(V.pkey(p)))
field_vals = SpecMap("schema_field_vals", lambda p, m: field_ast(V.pval(p), m), param_sorts=(V.Val,))
input_field_vals = SpecMap("schema_input_field_vals", lambda p, m: arg_ast(V.pval(p), m, G.GraphQLInputField, "GraphQLInputField"), param_sorts=(V.Val,))
enum_vals = SpecMap("schema_enum_vals", lambda p: enum_value_ast(V.pval(p)))


def dict_ast(keys, values):
    return mk(ast.Dict, keys=V.VList(keys), values=V.VList(values))


def field_map_ast(fields, m):
    xs = V.vd(fields)
    return z3.If(V.is_VNil(xs), const(V.VDict(V.VNil)), lam(dict_ast(pair_keys(xs), field_vals(xs, m))))


def input_field_map_ast(fields, m):
    xs = V.vd(fields)
    return z3.If(V.is_VNil(xs), const(V.VDict(V.VNil)), lam(dict_ast(pair_keys(xs), input_field_vals(xs, m))))


def enum_values_ast(values):
    xs = V.vd(values)
    return dict_ast(pair_keys(xs), enum_vals(xs))


def _dict_loop(var, vals_map, with_m=True):
    def inv(rest, xs, st, I, env):
        keys = V.vl(st[var + ".keys"]) if var + ".keys" in st else V.VNil
        vals = V.vl(st[var + ".values"]) if var + ".values" in st else V.VNil
        params = (V.lower(env.lookup("type_map_name")),) if with_m else ()
        return z3.And(append_map_inv(keys, rest, xs, pair_keys), append_map_inv(vals, rest, xs, vals_map, params))
    return inv


class _Gen(SameMeaning, Contract):
    props = ("C16",)
    arg_names = ()
    clause = "rebuilt"
    names_over = None      # (class, attribute) whose elements' names the code collects by a comprehension

    def ensures(self, A, res):
        p = A.get("__path__")
        if p is not None and self.names_over:
            names_of.apply(p, V.vt(attr(A.type_, *self.names_over)))
        return {self.clause: res == self.result_term(A)}

    def native_args(self, inputs):
        return [inputs[n] for n in self.arg_names], {}


class GenerateFieldMap(_Gen):
    target = MODF + "generate_field_map"
    arg_names = ("fields", "type_map_name")
    clause = "every-field-rebuilt-under-its-name-in-order-behind-a-thunk"
    loops = {"generate_field_map": _dict_loop("fields_dict", field_vals)}

    def setup(self, E):
        return [E.sym("fields", FIELD_MAP), E.sym("type_map_name", TMN)], {}

    def result_term(self, A):
        return field_map_ast(A.fields, A.type_map_name)

    def samples(self, tier):
        F, A = G.GraphQLField, G.GraphQLArgument
        return [dict(fields=f, type_map_name="tm") for f in ({}, {"a": F(G.GraphQLInt)},
                {"b": F(G.GraphQLString, args={"x": A(G.GraphQLInt, default_value=None)}, description="d"), "a": F(G.GraphQLID, deprecation_reason="old")})]


class GenerateInputFieldMap(_Gen):
    target = MODF + "generate_input_field_map"
    arg_names = ("input_fields", "type_map_name")
    clause = "every-input-field-rebuilt-under-its-name-in-order-behind-a-thunk"
    loops = {"generate_input_field_map": _dict_loop("input_fields_dict", input_field_vals)}

    def setup(self, E):
        return [E.sym("input_fields", INPUT_FIELD_MAP), E.sym("type_map_name", TMN)], {}

    def result_term(self, A):
        return input_field_map_ast(A.input_fields, A.type_map_name)

    def samples(self, tier):
        F = G.GraphQLInputField
        return [dict(input_fields=f, type_map_name="tm") for f in ({}, {"a": F(G.GraphQLInt)}, {"b": F(G.GraphQLString, default_value=None), "a": F(G.GraphQLID, default_value="x")})]


class GenerateEnumValues(_Gen):
    target = MODF + "generate_enum_values"
    arg_names = ("values",)
    clause = "every-enum-value-rebuilt-under-its-name-in-order"
    loops = {"generate_enum_values": _dict_loop("values_dict", enum_vals, with_m=False)}

    def setup(self, E):
        return [E.sym("values", ENUM_VALUE_MAP)], {}

    def result_term(self, A):
        return enum_values_ast(A["values"])

    def samples(self, tier):
        EV = G.GraphQLEnumValue
        return [dict(values=v) for v in ({}, {"A": EV("A")}, {"B": EV("B", description="d"), "A": EV(1, deprecation_reason="old")})]


# --- references to named types
class GetNamedType(_Gen):
    target = MODU + "get_named_type"
    arg_names = ("type_", "type_map_name")
    clause = "reference-is-cast-of-the-type-map-entry-under-the-type-name"
    reference = True

    def setup(self, E):
        return [E.sym("type_", NAMED_ANY), E.sym("type_map_name", TMN)], {}

    def result_term(self, A):
        return named_ref(A.type_, A.type_map_name)

    def samples(self, tier):
        return [dict(type_=t, type_map_name="tm") for t in (GQ.OBJECT.build("Query"), GQ.ENUM.build("Color"), GQ.SCALAR.build("Date"))]


class GetOptionalNamedType(_Gen):
    target = MODU + "get_optional_named_type"
    arg_names = ("type_", "type_map_name")
    clause = "absent-root-type-is-None-present-one-is-referenced"
    reference = True

    def setup(self, E):
        return [E.sym("type_", Opt(OBJECT_REF)), E.sym("type_map_name", TMN)], {}

    def result_term(self, A):
        return z3.If(V.is_VNone(A.type_), const(V.VNone), named_ref(A.type_, A.type_map_name))

    def samples(self, tier):
        return [dict(type_=t, type_map_name="tm") for t in (None, GQ.OBJECT.build("Query"))]


name_refs = SpecMap("schema_name_refs", lambda n, m: sub(name_(m), const(n)), param_sorts=(V.Val,))


def named_list_ast(names, m, ann):
    xs = V.vl(names)
    return z3.If(V.is_VNil(xs), const(V.VList(V.VNil)),
                 lam(call(name_("cast"), args=[sub(name_("List"), name_(ann)), mk(ast.List, elts=V.VList(name_refs(xs, m)))])))


class GetListOfNamedTypes(_Gen):
    target = MODU + "get_list_of_named_types"
    arg_names = ("types_names", "type_map_name", "list_element_annotation")
    clause = "every-name-referenced-through-the-type-map-in-order-behind-a-thunk"

    @staticmethod
    def meaning_of(inputs, tm):
        for n in inputs["types_names"]:
            tm.setdefault(n, G.GraphQLObjectType(n, {}))
        return [tm[n] for n in inputs["types_names"]]

    def setup(self, E):
        return [E.sym("types_names", ListOf(GQ.NAME, name="type_names")), E.sym("type_map_name", TMN), E.sym("list_element_annotation", GQ.NAME)], {}

    def result_term(self, A):
        return named_list_ast(A.types_names, A.type_map_name, A.list_element_annotation)

    def ensures(self, A, res):
        p = A.get("__path__")
        if p is not None:
            name_refs.apply(p, V.vl(A.types_names), A.type_map_name)
        return {self.clause: res == self.result_term(A)}

    def samples(self, tier):
        return [dict(types_names=n, type_map_name="tm", list_element_annotation="GraphQLObjectType") for n in ([], ["A"], ["B", "A"])]


# --- named types
names_of = SpecMap("schema_names_of", lambda t: GQ.name_of(t))


def head(cls_name, t, cls):
    return [kw("name", const(attr(t, cls, "name"))), kw("description", const(attr(t, cls, "description")))]


class GenerateScalarType(_Gen):
    target = MODN + "generate_scalar_type"
    arg_names = ("type_", "type_map_name")
    clause = "scalar-rebuilt-with-name-description-specified-by-url"

    def setup(self, E):
        return [E.sym("type_", SCALAR_T), E.sym("type_map_name", TMN)], {}

    def result_term(self, A):
        t = A.type_
        return call(name_("GraphQLScalarType"), keywords=head("GraphQLScalarType", t, G.GraphQLScalarType) +
                    [kw("specified_by_url", const(attr(t, G.GraphQLScalarType, "specified_by_url")))])

    def samples(self, tier):
        return [dict(type_=t, type_map_name="tm") for t in (G.GraphQLScalarType("Date"), G.GraphQLScalarType("Url", description="d", specified_by_url="https://x"))]


class GenerateEnumType(_Gen):
    target = MODN + "generate_enum_type"
    arg_names = ("type_", "type_map_name")
    clause = "enum-rebuilt-with-name-description-values"

    def setup(self, E):
        return [E.sym("type_", ENUM_T), E.sym("type_map_name", TMN)], {}

    def result_term(self, A):
        t = A.type_
        return call(name_("GraphQLEnumType"), keywords=head("GraphQLEnumType", t, G.GraphQLEnumType) +
                    [kw("values", enum_values_ast(attr(t, G.GraphQLEnumType, "values")))])

    def samples(self, tier):
        return [dict(type_=t, type_map_name="tm") for t in (G.GraphQLEnumType("Color", {"RED": "RED", "BLUE": G.GraphQLEnumValue("BLUE", description="b")}, description="c"),)]


class GenerateInputObjectType(_Gen):
    target = MODN + "generate_input_object_type"
    arg_names = ("type_", "type_map_name")
    clause = "input-object-rebuilt-with-name-description-fields"

    def setup(self, E):
        return [E.sym("type_", INPUT_T), E.sym("type_map_name", TMN)], {}

    def result_term(self, A):
        t, m = A.type_, A.type_map_name
        return call(name_("GraphQLInputObjectType"), keywords=head("GraphQLInputObjectType", t, G.GraphQLInputObjectType) +
                    [kw("fields", input_field_map_ast(attr(t, G.GraphQLInputObjectType, "fields"), m))])

    def samples(self, tier):
        return [dict(type_=t, type_map_name="tm") for t in (G.GraphQLInputObjectType("In", {"a": G.GraphQLInputField(G.GraphQLInt, default_value=None)}),
                                                            G.GraphQLInputObjectType("Empty", {}))]


def _composite(ctor, cls, t, m):
    ifaces = V.vt(attr(t, cls, "interfaces"))
    return call(name_(ctor), keywords=head(ctor, t, cls) +
                [kw("interfaces", named_list_ast(V.VList(names_of(ifaces)), m, S("GraphQLInterfaceType"))),
                 kw("fields", field_map_ast(attr(t, cls, "fields"), m))])


class GenerateObjectType(_Gen):
    target = MODN + "generate_object_type"
    arg_names = ("type_", "type_map_name")
    clause = "object-rebuilt-with-name-description-interfaces-fields"
    names_over = (G.GraphQLObjectType, "interfaces")

    def setup(self, E):
        return [E.sym("type_", OBJECT_T), E.sym("type_map_name", TMN)], {}

    def result_term(self, A):
        return _composite("GraphQLObjectType", G.GraphQLObjectType, A.type_, A.type_map_name)

    def samples(self, tier):
        node = G.GraphQLInterfaceType("Node", {"id": G.GraphQLField(G.GraphQLID)})
        return [dict(type_=t, type_map_name="tm") for t in (G.GraphQLObjectType("User", {"id": G.GraphQLField(G.GraphQLID)}, interfaces=[node], description="u"),
                                                            G.GraphQLObjectType("Q", {"a": G.GraphQLField(G.GraphQLInt, args={"x": G.GraphQLArgument(G.GraphQLInt)})}))]


class GenerateInterfaceType(_Gen):
    target = MODN + "generate_interface_type"
    arg_names = ("type_", "type_map_name")
    clause = "interface-rebuilt-with-name-description-interfaces-fields"
    names_over = (G.GraphQLInterfaceType, "interfaces")

    def setup(self, E):
        return [E.sym("type_", IFACE_T), E.sym("type_map_name", TMN)], {}

    def result_term(self, A):
        return _composite("GraphQLInterfaceType", G.GraphQLInterfaceType, A.type_, A.type_map_name)

    def samples(self, tier):
        node = G.GraphQLInterfaceType("Node", {"id": G.GraphQLField(G.GraphQLID)})
        return [dict(type_=t, type_map_name="tm") for t in (node, G.GraphQLInterfaceType("Res", {"id": G.GraphQLField(G.GraphQLID)}, interfaces=[node]))]


class GenerateUnionType(_Gen):
    target = MODN + "generate_union_type"
    arg_names = ("type_", "type_map_name")
    clause = "union-rebuilt-with-name-description-member-types"
    names_over = (G.GraphQLUnionType, "types")

    def setup(self, E):
        return [E.sym("type_", UNION_T), E.sym("type_map_name", TMN)], {}

    def result_term(self, A):
        t, m = A.type_, A.type_map_name
        members = V.vt(attr(t, G.GraphQLUnionType, "types"))
        return call(name_("GraphQLUnionType"), keywords=head("GraphQLUnionType", t, G.GraphQLUnionType) +
                    [kw("types", named_list_ast(V.VList(names_of(members)), m, S("GraphQLObjectType")))])

    def samples(self, tier):
        a = G.GraphQLObjectType("A", {"id": G.GraphQLField(G.GraphQLID)})
        b = G.GraphQLObjectType("B", {"id": G.GraphQLField(G.GraphQLID)})
        return [dict(type_=t, type_map_name="tm") for t in (G.GraphQLUnionType("U", [a, b], description="u"), G.GraphQLUnionType("V", [b]))]


# --- dispatch over the kind of named type: the (so far uninterpreted) schema_named_type_ast of c16_schema gets its definition
def scalar_ast(t, m):
    return call(name_("GraphQLScalarType"), keywords=head("GraphQLScalarType", t, G.GraphQLScalarType) +
                [kw("specified_by_url", const(attr(t, G.GraphQLScalarType, "specified_by_url")))])


def enum_ast(t, m):
    return call(name_("GraphQLEnumType"), keywords=head("GraphQLEnumType", t, G.GraphQLEnumType) +
                [kw("values", enum_values_ast(attr(t, G.GraphQLEnumType, "values")))])


def input_ast(t, m):
    return call(name_("GraphQLInputObjectType"), keywords=head("GraphQLInputObjectType", t, G.GraphQLInputObjectType) +
                [kw("fields", input_field_map_ast(attr(t, G.GraphQLInputObjectType, "fields"), m))])


def union_ast(t, m):
    members = V.vt(attr(t, G.GraphQLUnionType, "types"))
    return call(name_("GraphQLUnionType"), keywords=head("GraphQLUnionType", t, G.GraphQLUnionType) +
                [kw("types", named_list_ast(V.VList(names_of(members)), m, S("GraphQLObjectType")))])


_t, _m = z3.Const("nt_t", V.Val), z3.Const("nt_m", V.Val)
z3.RecAddDefinition(NAMED_AST, [_t, _m],
    z3.If(GQ.is_cls(_t, GQ.SCALAR), scalar_ast(_t, _m),
    z3.If(GQ.is_cls(_t, GQ.ENUM), enum_ast(_t, _m),
    z3.If(GQ.is_cls(_t, GQ.INPUT), input_ast(_t, _m),
    z3.If(GQ.is_cls(_t, GQ.OBJECT), _composite("GraphQLObjectType", G.GraphQLObjectType, _t, _m),
    z3.If(GQ.is_cls(_t, GQ.INTERFACE), _composite("GraphQLInterfaceType", G.GraphQLInterfaceType, _t, _m),
          union_ast(_t, _m)))))))

NAMED_FULL = OneOf(SCALAR_T, ENUM_T, INPUT_T, OBJECT_T, IFACE_T, UNION_T)


class GenerateNamedType(_Gen):
    """the kind of the type selects the generator; the type map (c16_schema.GenerateTypeMap) is stated over this function"""
    target = MODN + "generate_named_type"
    arg_names = ("type_", "type_map_name")
    clause = "each-kind-of-named-type-rebuilt-by-the-generator-of-its-kind"

    def setup(self, E):
        return [E.sym("type_", NAMED_FULL), E.sym("type_map_name", TMN)], {}

    def result_term(self, A):
        return NAMED_AST(A.type_, A.type_map_name)

    def samples(self, tier):
        out = []
        for c in (GenerateScalarType, GenerateEnumType, GenerateInputObjectType, GenerateObjectType, GenerateInterfaceType, GenerateUnionType):
            out += c().samples(tier)
        return out


# --- directives and the schema object
LOCATION_NAMES = [l.name for l in G.DirectiveLocation]
LOCATION = V.REG.register(G.DirectiveLocation, ["name"], build=lambda name=None: G.DirectiveLocation[name if name in LOCATION_NAMES else "FIELD"])
DIRECTIVE = V.REG.register(G.GraphQLDirective, ["name", "description", "is_repeatable", "locations", "args"],
                           build=lambda name=None, description=None, is_repeatable=False, locations=(), args=None:
                           G.GraphQLDirective(name if isinstance(name, str) and name else "d", [l for l in locations if isinstance(l, G.DirectiveLocation)],
                                              args if isinstance(args, dict) and all(isinstance(a, G.GraphQLArgument) for a in args.values()) else None,
                                              bool(is_repeatable), description if isinstance(description, str) else None))
SCHEMA = V.REG.register(G.GraphQLSchema, ["query_type", "mutation_type", "subscription_type", "directives", "description", "type_map"],
                        build=lambda query_type=None, mutation_type=None, subscription_type=None, directives=(), description=None, type_map=None:
                        G.GraphQLSchema(query=query_type if isinstance(query_type, G.GraphQLObjectType) else None,
                                        mutation=mutation_type if isinstance(mutation_type, G.GraphQLObjectType) else None,
                                        subscription=subscription_type if isinstance(subscription_type, G.GraphQLObjectType) else None,
                                        directives=[d for d in directives if isinstance(d, G.GraphQLDirective)],
                                        description=description if isinstance(description, str) else None),
                        # a native schema's type map is cyclic (fields refer back to types): not lowered; the contracts that
                        # speak about it are replayed through the end-to-end round trip instead
                        getter=lambda o, f: {} if f == "type_map" else getattr(o, f, None))
LOCATION_T = Cls(G.DirectiveLocation, name=StrIn(z3.Union(*[z3.Re(n) for n in LOCATION_NAMES])))
DIRECTIVE_T = Cls(G.GraphQLDirective, name=GQ.NAME, description=Opt(Str), is_repeatable=Bool, locations=TupleOf(LOCATION_T, name="directive_locations"), args=ARG_MAP)
SCHEMA_T = Cls(G.GraphQLSchema, query_type=Opt(OBJECT_REF), mutation_type=Opt(OBJECT_REF), subscription_type=Opt(OBJECT_REF),
               directives=TupleOf(DIRECTIVE_T, name="schema_directives"), description=Opt(Str), type_map=TYPE_MAP)


def location_ast(l):
    return mk(ast.Attribute, value=name_("DirectiveLocation"), attr=attr(l, G.DirectiveLocation, "name"))


location_asts = SpecMap("schema_location_asts", lambda l: location_ast(l))


def locations_ast(ls):
    return mk(ast.Tuple, elts=V.VList(location_asts(V.vt(ls))))


def directive_ast(d, m):
    D = G.GraphQLDirective
    args = attr(d, D, "args")
    return call(name_("GraphQLDirective"), keywords=[
        kw("name", const(attr(d, D, "name"))), kw("description", const(attr(d, D, "description"))),
        kw("is_repeatable", const(attr(d, D, "is_repeatable"))), kw("locations", locations_ast(attr(d, D, "locations"))),
        kw("args", z3.If(V.is_VNil(V.vd(args)), const(V.VNone), args_ast(args, m)))])


directive_asts = SpecMap("schema_directive_asts", lambda d, m: directive_ast(d, m), param_sorts=(V.Val,))


def opt_ref(t, m):
    return z3.If(V.is_VNone(t), const(V.VNone), named_ref(t, m))


class GenerateDirectiveLocation(_Gen):
    target = MODD + "generate_directive_location"
    arg_names = ("location",)
    clause = "location-referenced-by-its-member-name"

    def setup(self, E):
        return [E.sym("location", LOCATION_T)], {}

    def result_term(self, A):
        return location_ast(A.location)

    def samples(self, tier):
        return [dict(location=l) for l in (G.DirectiveLocation.FIELD, G.DirectiveLocation.INPUT_FIELD_DEFINITION)]


class GenerateDirectiveLocations(_Gen):
    target = MODD + "generate_directive_locations"
    arg_names = ("locations",)
    clause = "every-location-in-order"

    def setup(self, E):
        return [E.sym("locations", TupleOf(LOCATION_T, name="locations_arg"))], {}

    def result_term(self, A):
        return locations_ast(A.locations)

    def ensures(self, A, res):
        p = A.get("__path__")
        if p is not None:
            location_asts.apply(p, V.vt(A.locations))
        return {self.clause: res == self.result_term(A)}

    def samples(self, tier):
        L = G.DirectiveLocation
        return [dict(locations=l) for l in ((), (L.FIELD,), (L.QUERY, L.FIELD, L.ENUM_VALUE))]


class GenerateDirective(_Gen):
    target = MODD + "generate_directive"
    arg_names = ("directive", "type_map_name")
    clause = "directive-rebuilt-with-name-description-repeatability-locations-arguments"

    def setup(self, E):
        return [E.sym("directive", DIRECTIVE_T), E.sym("type_map_name", TMN)], {}

    def result_term(self, A):
        return directive_ast(A.directive, A.type_map_name)

    def samples(self, tier):
        L, D, A = G.DirectiveLocation, G.GraphQLDirective, G.GraphQLArgument
        return [dict(directive=d, type_map_name="tm") for d in (
            D("plain", [L.FIELD]), D("rep", [L.FIELD, L.QUERY], {"n": A(G.GraphQLInt, default_value=None)}, is_repeatable=True, description="d"),
            G.GraphQLDeprecatedDirective, G.GraphQLSpecifiedByDirective)]


class GenerateSchema(_Gen):
    target = MODS + "generate_schema"
    arg_names = ("schema", "type_map_name")
    clause = "schema-rebuilt-with-root-types-all-types-every-directive-description"

    def setup(self, E):
        return [E.sym("schema", SCHEMA_T), E.sym("type_map_name", TMN)], {}

    def result_term(self, A):
        s, m, C = A.schema, A.type_map_name, G.GraphQLSchema
        return call(name_("GraphQLSchema"), keywords=[
            kw("query", opt_ref(attr(s, C, "query_type"), m)), kw("mutation", opt_ref(attr(s, C, "mutation_type"), m)),
            kw("subscription", opt_ref(attr(s, C, "subscription_type"), m)),
            kw("types", call(mk(ast.Attribute, value=name_(m), attr="values"))),
            kw("directives", mk(ast.List, elts=V.VList(directive_asts(V.vt(attr(s, C, "directives")), m)))),
            kw("description", const(attr(s, C, "description")))])

    def ensures(self, A, res):
        p = A.get("__path__")
        if p is not None:
            directive_asts.apply(p, V.vt(attr(A.schema, G.GraphQLSchema, "directives")), A.type_map_name)
        return {self.clause: res == self.result_term(A)}

    def samples(self, tier):
        q = G.GraphQLObjectType("Query", {"a": G.GraphQLField(G.GraphQLInt)})
        mu = G.GraphQLObjectType("Mutation", {"a": G.GraphQLField(G.GraphQLInt)})
        d = G.GraphQLDirective("custom", [G.DirectiveLocation.FIELD], {"n": G.GraphQLArgument(G.GraphQLInt)})
        return [dict(schema=s, type_map_name="tm") for s in (G.GraphQLSchema(q), G.GraphQLSchema(q, mu, description="desc", directives=[d]),
                                                             G.GraphQLSchema(q, directives=list(G.specified_directives) + [d]))]


def schema_ast(s, m):
    C = G.GraphQLSchema
    return call(name_("GraphQLSchema"), keywords=[
        kw("query", opt_ref(attr(s, C, "query_type"), m)), kw("mutation", opt_ref(attr(s, C, "mutation_type"), m)),
        kw("subscription", opt_ref(attr(s, C, "subscription_type"), m)),
        kw("types", call(mk(ast.Attribute, value=name_(m), attr="values"))),
        kw("directives", mk(ast.List, elts=V.VList(directive_asts(V.vt(attr(s, C, "directives")), m)))),
        kw("description", const(attr(s, C, "description")))])


# every name the generated expressions refer to (constructors, standard scalars, Undefined, cast/List, TypeMap)
NEEDED_IMPORTS = {"graphql": ["DirectiveLocation", "GraphQLArgument", "GraphQLDirective", "GraphQLEnumType", "GraphQLEnumValue", "GraphQLField", "GraphQLInputField",
                              "GraphQLInputObjectType", "GraphQLInterfaceType", "GraphQLList", "GraphQLNonNull", "GraphQLObjectType", "GraphQLScalarType",
                              "GraphQLSchema", "GraphQLUnionType", "GraphQLID", "GraphQLInt", "GraphQLFloat", "GraphQLString", "GraphQLBoolean", "Undefined"],
                  "graphql.type.schema": ["TypeMap"], "typing": ["cast", "List"]}


class GenerateSchemaModule(Contract):
    """the module: imports of every name the expressions use, then `<type_map_name>: TypeMap = {...}` and
    `<schema_variable_name>: GraphQLSchema = GraphQLSchema(...)` - in this order (the schema expression reads the type map)"""
    props = ("C16",)
    target = MODS + "generate_schema_module"
    arg_names = ("schema", "type_map_name", "schema_variable_name")

    def setup(self, E):
        return [E.sym("schema", SCHEMA_T), E.sym("type_map_name", TMN), E.sym("schema_variable_name", TMN)], {}

    def ensures(self, A, res):
        s, m, var = A.schema, A.type_map_name, A.schema_variable_name
        body = V.vl(V.attr_of(res, ast.Module, "body"))
        n = 0
        imports = {}
        # leading ImportFrom statements (any number, any grouping): collect module -> names
        stmts = []
        cur = z3.simplify(body)
        while z3.is_app(cur) and cur.decl().name() == "VCons":
            stmts.append(cur.arg(0))
            cur = cur.arg(1)
        out = {"module-body-is-a-concrete-statement-list": z3.BoolVal(z3.is_app(cur) and cur.decl().name() == "VNil" and len(stmts) >= 2)}
        if len(stmts) < 2:
            return out
        xs = V.vd(attr(s, G.GraphQLSchema, "type_map"))
        tm_stmt, schema_stmt = stmts[-2], stmts[-1]
        out["type-map-assigned-to-the-chosen-variable-name"] = z3.And(
            V.attr_of(tm_stmt, ast.AnnAssign, "target") == name_(m),
            V.attr_of(tm_stmt, ast.AnnAssign, "value") == mk(ast.Dict, keys=V.VList(tm_keys(xs)), values=V.VList(tm_vals(xs, m))))
        out["schema-assigned-to-the-chosen-variable-name-after-the-type-map"] = z3.And(
            V.attr_of(schema_stmt, ast.AnnAssign, "target") == name_(var),
            V.attr_of(schema_stmt, ast.AnnAssign, "value") == schema_ast(s, m))
        for mod, names in NEEDED_IMPORTS.items():
            for nm in names:
                out[f"imports-{nm}"] = z3.Or(*[z3.And(V.cls_of(st) == V.REG.info(ast.ImportFrom).cid, V.attr_of(st, ast.ImportFrom, "module") == S(mod),
                                                      V.attr_of(st, ast.ImportFrom, "level") == V.VInt(z3.IntVal(0)),
                                                      V.vcontains(V.vl(V.attr_of(st, ast.ImportFrom, "names")), mk(ast.alias, name=S(nm), asname=V.VNone)))
                                               for st in stmts[:-2]] or [z3.BoolVal(False)])
        return out

    def native_args(self, inputs):
        return [inputs[n] for n in self.arg_names], {}

    def replay_custom(self, inputs):
        # a whole schema object is cyclic (introspection types): the replay is the end-to-end round trip of the stand-in
        from .e2e_schema import check_round_trip
        return check_round_trip()

    def samples(self, tier):
        return [dict(schema="everything")]


NEW_CONTRACTS = [GenerateSchemaModule(), GenerateDirectiveLocation(), GenerateDirectiveLocations(), GenerateDirective(), GenerateSchema(), GenerateNamedType(), GenerateFieldMap(), GenerateInputFieldMap(), GenerateEnumValues(), GetNamedType(), GetOptionalNamedType(), GetListOfNamedTypes(),
             GenerateScalarType(), GenerateEnumType(), GenerateInputObjectType(), GenerateObjectType(), GenerateInterfaceType(), GenerateUnionType()]
