"""Engine canaries: deliberately FALSE postconditions on real functions.  Every check runs them; if one of them is not
refuted (with a counter-model) the engine or the obligation pipeline is unsound/vacuous and the check exits 3."""
import ast
import z3
from pyvc import val as V
from pyvc.contract import Contract
from pyvc.spec import *   # noqa
from .c06_input_types import name_, sub

ALL = tuple(f"C{i:02d}" for i in range(1, 20))


class CanaryNullable(Contract):
    """claims generate_nullable_annotation returns its argument unchanged (it wraps it in Optional[...])"""
    props = ALL
    target = "ariadne_codegen.codegen:generate_nullable_annotation"
    use_at_calls = False
    label = "canary:generate_nullable_annotation-is-identity"

    def setup(self, E):
        return [E.sym("slice_", Cls(ast.Name, id=Str))], {}

    def ensures(self, A, res):
        return {"canary": res == A.slice_}


class CanaryProcessName(Contract):
    """claims process_name never changes a name (it escapes keywords)"""
    props = ALL
    target = "ariadne_codegen.utils:process_name"
    use_at_calls = False
    label = "canary:process_name-is-identity"

    def setup(self, E):
        from . import lib_graphql as GQ
        return [], dict(name=E.sym("name", GQ.NAME), convert_to_snake_case=False, plugin_manager=None, node=None,
                        trim_leading_underscore=False, handle_pydantic_resrved_field_names=False)

    def ensures(self, A, res):
        return {"canary": res == A.name}


CONTRACTS = []
CANARIES = [CanaryNullable(), CanaryProcessName()]
