"""C05 - result models are as strict as the schema (second sentence: the declared Python type of every result field is
exactly the image of its GraphQL type).  Also serves C01 and C07.

parse_operation_field_type on non-abstract positions (scalar / enum / object under any List / NonNull nesting), with
its effect on the FieldContext accumulators; parse_directives / is_nullable; generate_typename_annotation."""
import ast
import z3
import graphql as G
from pyvc import val as V
from pyvc.val import SV, Obj, MList
from pyvc.contract import Contract, Args
from pyvc.spec import *   # noqa
from . import lib_graphql as GQ
from .c06_input_types import name_, sub, opt, sd, in_map, SCALAR_DATA, SC, K, const, call, SPEC_SIMPLE_TYPE_MAP
from ariadne_codegen.client_generators import result_fields as RF

V.REG.register(RF.RelatedClassData, ["class_name", "type_name"])
V.REG.register(RF.Definitions, ["schema", "field_node", "custom_scalars", "fragments_definitions"])
V.REG.register(RF.FieldContext, ["definitions", "enums", "custom_scalars", "related_classes", "abstract_type"])

OUT_NULLABLE, OUT_TYPE = GQ._type_shapes([Cls(G.GraphQLScalarType, name=GQ.NAME), Cls(G.GraphQLEnumType, name=GQ.NAME),
                                          Cls(G.GraphQLObjectType, name=GQ.NAME)], "OutConcrete")
RESULT_SCALARS = DictOf(GQ.NAME, SCALAR_DATA, name="result_custom_scalars")


def result_scalar_ann(d):
    base = name_(sd("type_name", d))
    parse = sd("parse_name", d)
    return z3.If(truthy(parse),
                 sub(name_(K.ANNOTATED), mk(ast.Tuple, elts=lst(base, call(name_(K.BEFORE_VALIDATOR), args=[name_(parse)])))),
                 base)


def quoted(s):
    return V.VStr(z3.Concat(V.S('"'), s, V.S('"')))


img_out = z3.RecFunction("img_out", V.Val, z3.BoolSort(), V.Val, z3.BoolSort(), V.Val, V.Val)
enums_of = z3.RecFunction("enums_of", V.Val, V.VL)
scalars_of = z3.RecFunction("scalars_of", V.Val, V.Val, V.VL)
related_of = z3.RecFunction("related_of", V.Val, V.Val, z3.BoolSort(), V.VL)
_t, _n, _cn, _atn, _sc = z3.Const("t", V.Val), z3.Bool("n"), z3.Const("cn", V.Val), z3.Bool("atn"), z3.Const("sc", V.Val)
_nm = GQ.name_of(_t)
_cls_name = z3.If(_atn, z3.Concat(V.vs(_cn), V.vs(_nm)), V.vs(_cn))
_configured = z3.And(z3.Not(in_strs(_nm, list(SPEC_SIMPLE_TYPE_MAP))), has(_sc, _nm))
z3.RecAddDefinition(img_out, [_t, _n, _cn, _atn, _sc],
    z3.If(GQ.is_cls(_t, GQ.SCALAR),
          z3.If(in_strs(_nm, list(SPEC_SIMPLE_TYPE_MAP)), opt(_n, in_map(_nm, SPEC_SIMPLE_TYPE_MAP)),
                z3.If(has(_sc, _nm), opt(_n, result_scalar_ann(get(_sc, _nm))), opt(_n, name_(K.ANY)))),
    z3.If(GQ.is_cls(_t, GQ.OBJECT), opt(_n, name_(quoted(_cls_name))),
    z3.If(GQ.is_cls(_t, GQ.ENUM), opt(_n, name_(_nm)),
    z3.If(GQ.is_cls(_t, GQ.LIST), opt(_n, sub(name_(K.LIST), img_out(GQ.of_type(_t), z3.BoolVal(True), _cn, z3.BoolVal(False), _sc))),
          img_out(GQ.of_type(_t), z3.BoolVal(False), _cn, z3.BoolVal(False), _sc))))))
_wrapper = z3.Or(GQ.is_cls(_t, GQ.LIST), GQ.is_cls(_t, GQ.NONNULL))
z3.RecAddDefinition(enums_of, [_t], z3.If(GQ.is_cls(_t, GQ.ENUM), V.VCons(_nm, V.VNil), z3.If(_wrapper, enums_of(GQ.of_type(_t)), V.VNil)))
z3.RecAddDefinition(scalars_of, [_t, _sc], z3.If(z3.And(GQ.is_cls(_t, GQ.SCALAR), _configured), V.VCons(_nm, V.VNil),
                                                 z3.If(_wrapper, scalars_of(GQ.of_type(_t), _sc), V.VNil)))
z3.RecAddDefinition(related_of, [_t, _cn, _atn],
    z3.If(GQ.is_cls(_t, GQ.OBJECT), V.VCons(mk(RF.RelatedClassData, class_name=V.VStr(_cls_name), type_name=_nm), V.VNil),
          z3.If(_wrapper, related_of(GQ.of_type(_t), _cn, z3.BoolVal(False)), V.VNil)))


def ctx_field(c, f):
    return V.attr_of(c, RF.FieldContext, f)


class ParseOperationFieldType(Contract):
    props = ("C05", "C01", "C07")
    target = "ariadne_codegen.client_generators.result_fields:parse_operation_field_type"
    mutates = ("context",)
    trusted = GQ.TRUSTED + ["pydantic: Optional/List/str/int/float/bool/enum/model annotations validate as their names say; "
                            "Annotated[T, BeforeValidator(f)] applies f once to each non-null value before validating T"]

    def setup(self, E):
        defs = Obj(RF.Definitions, dict(schema=None, field_node=None, custom_scalars=E.sym("scalars", RESULT_SCALARS),
                                        fragments_definitions={}))
        ctx = Obj(RF.FieldContext, dict(definitions=defs, enums=E.mlist("enums0", Str), custom_scalars=E.mlist("scalars0", Str),
                                        related_classes=E.mlist("related0"), abstract_type=False))
        return [], dict(type_=E.sym("type_", OUT_TYPE), nullable=E.sym_bool("nullable"), context=ctx,
                        class_name=E.sym("class_name", Str), add_type_name=E.sym_bool("add_type_name"))

    def decreases(self, A):
        return A.type_

    def _sc(self, A):
        return V.attr_of(ctx_field(A.context, "definitions"), RF.Definitions, "custom_scalars")

    def result_term(self, A):
        return img_out(A.type_, V.vb(A.nullable), A.class_name, V.vb(A.add_type_name), self._sc(A))

    def deltas(self, A):
        return dict(enums=enums_of(A.type_), custom_scalars=scalars_of(A.type_, self._sc(A)),
                    related_classes=related_of(A.type_, A.class_name, V.vb(A.add_type_name)))

    def ensures(self, A, res):
        out = {"annotation-is-image-of-graphql-type": res == self.result_term(A)}
        if "final_context" in A and A.final_context is not None:
            for f, d in self.deltas(A).items():
                out[f"context.{f}-extended-by-exactly-the-types-used"] = \
                    V.vl(ctx_field(A.final_context, f)) == V.vconcat(V.vl(ctx_field(A.context, f)), d)
            out["context.abstract_type-unchanged"] = ctx_field(A.final_context, "abstract_type") == ctx_field(A.context, "abstract_type")
        return out

    def apply_at_call(self, I, fn, args, kwargs):
        names = self.call_names(fn, args, kwargs, I)
        A = Args({k: V.lower(v) for k, v in names.items()})
        # precondition of the recursive call: the argument is a non-abstract type expression
        I.p.oblige("pre@parse_operation_field_type", OUT_TYPE.pred(A.type_), "pre@call")
        self.check_decreases(I, A)
        ctx = names["context"]
        for f, d in self.deltas(A).items():
            cur = ctx.attrs[f]
            if not isinstance(cur, MList):
                cur = ctx.attrs[f] = MList(V.lower(cur))
            cur.t = V.VList(V.vconcat(V.vl(cur.t), d))
        I.ctx.__dict__.setdefault("contracts_used", set()).add(self.target)
        return SV(self.result_term(A))

    # native replay
    def native_args(self, inputs):
        defs = RF.Definitions(schema=None, field_node=None, custom_scalars=inputs.get("scalars") or {}, fragments_definitions={})
        self._ctx = RF.FieldContext(definitions=defs, enums=list(inputs.get("enums0") or []), custom_scalars=list(inputs.get("scalars0") or []),
                                    related_classes=list(inputs.get("related0") or []))
        return [], dict(type_=inputs["type_"], nullable=inputs["nullable"], context=self._ctx, class_name=inputs["class_name"],
                        add_type_name=inputs["add_type_name"])

    def native_names(self, inputs, args, kwargs):
        return dict(kwargs)

    frame_args = False

    def samples(self, tier):
        I_, L, N = G.GraphQLInt, G.GraphQLList, G.GraphQLNonNull
        E_, O = GQ.ENUM.build("Color"), GQ.OBJECT.build("User")
        D = G.GraphQLScalarType("DateTime")
        sc = {"DateTime": SC.ScalarData(type_="datetime", parse="parse_dt")}
        ts = [I_, N(I_), L(N(I_)), N(L(L(N(E_)))), L(N(L(O))), O, N(O), D, N(L(N(D))), G.GraphQLScalarType("Other")]
        return [dict(type_=t, nullable=n, scalars=s, class_name="QF", add_type_name=a, enums0=["X"], scalars0=[], related0=[])
                for t in ts for n in (True, False) for s in ({}, sc) for a in (False, True)]


CONTRACTS = [ParseOperationFieldType()]


# ------------------------------------------------------------------------------------------ directives
for _c, _f in [(G.DirectiveNode, ["name", "arguments"]), ]:
    V.REG.register(_c, _f, build=lambda name=None, arguments=(): G.DirectiveNode(name=name or G.NameNode(value="skip"), arguments=tuple(arguments or ())))
DIRECTIVE = Cls(G.DirectiveNode, name=GQ.NAME_NODE)
DIRECTIVES = TupleOf(DIRECTIVE, name="all_directives")
# annotations the translator can emit at the top of a field: Name or Subscript(Name, anything)
ANN = OneOf(Cls(ast.Name, id=Str), Cls(ast.Subscript, value=Cls(ast.Name, id=Str), slice=Any))


def spec_is_nullable(a):
    return z3.And(GQ.is_cls(a, V.REG.info(ast.Subscript)), GQ.is_cls(V.attr_of(a, ast.Subscript, "value"), V.REG.info(ast.Name)),
                  V.attr_of(V.attr_of(a, ast.Subscript, "value"), ast.Name, "id") == S(K.OPTIONAL))


cond_flags = SpecMap("is_conditional_directive",
                     lambda d: V.VBool(in_strs(V.attr_of(V.attr_of(d, G.DirectiveNode, "name"), G.NameNode, "value"),
                                               [K.INCLUDE_DIRECTIVE_NAME, K.SKIP_DIRECTIVE_NAME])))


class IsNullable(Contract):
    props = ("C05", "C01")
    target = "ariadne_codegen.client_generators.result_fields:is_nullable"

    def setup(self, E):
        return [E.sym("annotation", ANN)], {}

    def result_term(self, A):
        return V.VBool(spec_is_nullable(A.annotation))

    def ensures(self, A, res):
        return {"true-iff-Optional[...]": truthy(res) == spec_is_nullable(A.annotation)}

    def native_args(self, inputs):
        return [inputs["annotation"]], {}


class ParseDirectives(Contract):
    props = ("C05", "C01")
    target = "ariadne_codegen.client_generators.result_fields:parse_directives"

    def setup(self, E):
        return [], dict(annotation=E.sym("annotation", ANN), directives=E.sym("directives", DIRECTIVES))

    def ensures(self, A, res):
        p = A.get("__path__")
        xs = V.vt(A.directives)
        flags = cond_flags.apply(p, xs) if p is not None else cond_flags(xs)
        conditional = V.vl_any(flags)
        a = A.annotation
        expected_ann = z3.If(z3.And(conditional, z3.Not(spec_is_nullable(a))), sub(name_(K.OPTIONAL), a), a)
        return {"optional-iff-conditional(@skip/@include)-or-already-nullable": V.nth(V.vt(res), 0) == expected_ann,
                "default-None-iff-conditional": V.nth(V.vt(res), 1) == z3.If(conditional, const(V.VNone), V.VNone)}

    def samples(self, tier):
        def d(*names):
            return tuple(G.DirectiveNode(name=G.NameNode(value=n), arguments=()) for n in names)
        anns = [ast.Name(id="int"), ast.Subscript(value=ast.Name(id="Optional"), slice=ast.Name(id="int")),
                ast.Subscript(value=ast.Name(id="List"), slice=ast.Name(id="int"))]
        return [dict(annotation=a, directives=ds) for a in anns for ds in (d(), d("skip"), d("include"), d("custom"), d("custom", "skip"))]


CONTRACTS += [IsNullable(), ParseDirectives()]
