"""Bounded end-to-end stand-in for C01 / C05 (the property statements themselves, natively): a reference executor
(graphql-core execute over resolvers that enumerate runtime types at abstract positions, null at nullable positions and
list lengths 0/1/2) produces every conformant response of a small operation corpus; each must be accepted by the
generated result model, expose every response key with an equal value, be an instance of the class whose __typename
literal contains the runtime type, and serialise back to the response.  Single-point corruptions (null at non-null, key
removed, wrong JSON kind, foreign __typename) must be rejected."""
import copy
import itertools
import json
import graphql as G
import pydantic
from .e2e import generate_client

SCHEMA = """
interface Node { id: ID! }
interface Named { name: String }
enum Role { ADMIN USER LEGACY @deprecated(reason: "old") }
type Profile { bio: String tags: [String!] matrix: [[Int!]] }
scalar DateTime
interface Labeled { label: String  stamp: DateTime }
type Doc implements Labeled { label: String! stamp: DateTime! pages: Int! }
type Pic implements Labeled { label: String stamp: DateTime }
type User implements Node & Named { id: ID! name: String role: Role profile: Profile friends: [User!] best: User score: Float created: DateTime! seen: DateTime stamps: [DateTime!] }
directive @live on FIELD
type Bot implements Node { id: ID! model: String! _rev: String _links: [String!] }
type Ghost implements Node { id: ID! }
union Actor = User | Bot
union Solo = Bot
type Query { me: User node: Node nodes: [Node!]! actor: Actor actors: [Actor] solo: Solo opt: User labeled: Labeled labels: [Labeled!] }
"""
OPS = {
    "scalars_enums_nesting": "query Q { me { id name role score profile { bio tags matrix } friends { id } best { name } } }",
    "aliases": "query Q { self: me { ident: id nick: name } other: me { id } }",
    "interface_with_inline": "query Q { node { __typename id ... on User { name role } ... on Bot { model } } }",
    "interface_plain": "query Q { node { id } }",
    "interface_two_positions": "query Q { owner: node { id ... on User { name } } target: node { id } }",
    "list_of_interface": "query Q { nodes { id ... on Bot { model } } }",
    "union_members": "query Q { actor { __typename ... on User { name } ... on Bot { model } } actors { ... on User { id } ... on Bot { id } } }",
    "single_member_union": "query Q { solo { ... on Bot { model } } }",
    "named_fragments": "fragment UB on User { id name } fragment NB on Node { id ... on User { role } } query Q { me { ...UB } node { ...NB } }",
    "conditional_fields": "query Q($c: Boolean!) { me { id name @include(if: $c) best @skip(if: $c) { id } } }",
    "custom_scalar_direct": "query Q { me { id created seen stamps } }",
    "custom_scalar_in_fragment_class": "fragment Times on User { created seen stamps } query Q { me { id ...Times } opt { ...Times } }",
    "covariant_interface_field": "query Q { labeled { label stamp ... on Doc { pages } } labels { label ... on Doc { stamp } } }",
    "covariant_interface_field_via_fragments": "fragment D on Doc { pages } query Q { labeled { label stamp ...D } labels { ...D label } }",
    "repeated_field_under_aliases": "query Q { me { name displayName: name first: friends { id } second: friends { name } } }",
    "typename_only_inside_one_inline_fragment": "query Q { node { id ... on User { __typename name } ... on Bot { model } } actor { ... on Bot { __typename id } } }",
    "aliased_typename_on_object": "query Q { me { kind: __typename id best { what: __typename name } } }",
    "other_directive_on_nullable_field": "query Q { me { id name @live score @live profile @live { bio } } }",
    "inline_fragments_behind_two_fragment_levels": "fragment Inner on Node { ... on Bot { model } ... on User { name } } fragment Mid on Node { id ...Inner ... on Ghost { id } } fragment Outer on Node { ...Mid ... on Ghost { id } } query Q { node { ...Outer } nodes { ...Outer } }",
    "fragment_with_nested_object_used_directly_and_inside_another": "fragment WithProfile on User { id profile { bio tags } } fragment Wrapper on User { name ...WithProfile best { ...WithProfile } } query Q { me { ...WithProfile } opt { ...Wrapper } }",
    "underscore_prefixed_keys": "query Q { node { id ... on Bot { _rev _links _model: model } } me { _id: id _n: name } }",
    "fragment_chain_of_depth_three": "fragment Account on User { id ...Profile } fragment Profile on User { name ...Identity } fragment Identity on User { role score } query Q { me { ...Account } opt { ...Profile } }",
    "typename_on_object_positions": "query Q { me { __typename id best { __typename name } friends { __typename id } } opt { __typename } }",
    # an inline fragment on an interface that the object type of the enclosing class implements (object position, union member, nested)
    "inline_fragment_on_an_implemented_interface_at_object_positions":
        "query Q { me { id ... on Named { name } ... on Node { id } best { ... on Named { name } } } actor { ... on User { ... on Named { name } role } ... on Bot { ... on Node { id } model } } }",
    # fixed f4231fe (was finding F44): a member type reached only through a spread inside a fragment on the abstract type
    "interface_fragment_reaching_a_member_type_only_through_a_spread": "fragment OnBot on Bot { model } fragment OnNode on Node { ...OnBot } query Q { nodes { ...OnNode } }",
    "member_fragment_spread_inside_an_unpacked_fragment_on_the_interface":
        "fragment F0Doc on Doc { al1: pages al2: label } fragment F1Pic on Pic { al3: label stamp } fragment F2Labeled on Labeled { label ... on Doc { ...F0Doc } ...F1Pic } query Q { labels { ...F2Labeled } }",
    # several fields of one interface type in ONE operation, each with its own set of member classes (the typename literal of the
    # interface class lists the possible types that got no class of their own - per field)
    "interface_fields_with_different_member_classes":
        "fragment NF on Node { id } query Q { a: node { id ... on User { name } } b: node { ...NF ... on Bot { model } } c: nodes { id ... on Ghost { id } } d: node { ...NF } }",
    # fragments on an interface that select __typename themselves (directly / through a chain on the same interface)
    "interface_fragment_selecting_typename": "fragment NodeF on Node { __typename id } fragment NodeG on Node { ...NodeF } query Q { node { ...NodeF } nodes { ...NodeG } me { ...NodeF } }",
    # an alias whose Python name (snake-cased, lower-cased) is the name of the very field it aliases: the response key is still the alias
    "alias_that_maps_back_to_the_field_name": "query Q { me { Created: created Name: name BEST: best { Id: id } } node { ID: id ... on User { Role: role } } }",
    "skip_with_literal_conditions": "query Q { me { id name @skip(if: true) score @include(if: false) role @include(if: true) seen @skip(if: false) } }",
}
KNOWN_OPS = {
    "inline_fragment_on_other_interface": "query Q { node { id ... on Named { name } } }",
    "directive_on_fragment_spread": "fragment UB on User { name } query Q($c: Boolean!) { me { id ...UB @include(if: $c) } }",
    "class_name_collision": "query Q { me { best { friends { id } } } meBest: me { friends { name } } }",
    "fields_before_conditional_inline_fragment": "query Q($c: Boolean!) { me { id created ... on User @include(if: $c) { name } } }",
    "aliased_typename_on_abstract_type": "query Q { node { what: __typename id } actor { t: __typename ... on Bot { id } } }",
    "fields_before_conditional_inline_fragment_on_interface": "query Q($c: Boolean!) { node { id ... on User @skip(if: $c) { name } } }",
    "object_field_selected_directly_and_in_a_base_fragment": "fragment F on User { best { name } } query Q { me { best { id } ...F } }",
}


def _variants(schema, op_text):
    """conformant responses: graphql-core execute with resolvers enumerating the choices"""
    doc = G.parse(op_text)
    results = []
    choice_sets = [dict(runtime=r, null=n, length=l, flag=f) for r in ("User", "Bot", "Ghost", "Doc", "Pic") for n in (-1, 0, 1, 2) for l in (0, 1, 2) for f in (True, False)]
    for ch in choice_sets:
        def make(tname, depth=0):
            return {"__t": tname, "depth": depth}

        def resolve(root, info, **kw):
            rt = info.return_type
            depth = (root or {}).get("depth", 0) if isinstance(root, dict) else 0
            return _value(rt, info.field_name, ch, depth, schema)

        def type_resolver(value, info, abstract):
            return value["__t"]
        res = G.execute_sync(schema, doc, root_value={"depth": 0}, field_resolver=resolve, type_resolver=type_resolver,
                             variable_values={"c": ch["flag"]})
        if res.errors:
            continue
        results.append(res.data)
    uniq = []
    for r in results:
        if r not in uniq:
            uniq.append(r)
    return uniq


def _value(rt, fname, ch, depth, schema):
    if isinstance(rt, G.GraphQLNonNull):
        return _value(rt.of_type, fname, dict(ch, null=-1), depth, schema)
    if ch["null"] == depth:
        return None
    if isinstance(rt, G.GraphQLList):
        n = ch["length"] if depth < 2 else min(ch["length"], 1)
        return [_value(rt.of_type, fname, ch, depth, schema) for _ in range(n)]
    if isinstance(rt, G.GraphQLScalarType):
        return {"ID": "7", "String": "s", "Int": 3, "Float": 1.5, "Boolean": True, "DateTime": "2020-01-02T03:04:05"}[rt.name]
    if isinstance(rt, G.GraphQLEnumType):
        names = list(rt.values)
        return names[-1] if ch["flag"] and ch["length"] == 2 else names[0]      # also the last (deprecated) value
    if depth > 3:
        return None
    if isinstance(rt, (G.GraphQLInterfaceType, G.GraphQLUnionType)):
        poss = [t.name for t in schema.get_possible_types(rt)]
        t = ch["runtime"] if ch["runtime"] in poss else poss[0]
        return {"__t": t, "depth": depth + 1}
    return {"__t": rt.name, "depth": depth + 1}


def _plain(v):
    import enum
    if isinstance(v, pydantic.BaseModel):
        return {k: _plain(getattr(v, k)) for k in type(v).model_fields}
    if isinstance(v, list):
        return [_plain(x) for x in v]
    if isinstance(v, enum.Enum):
        return v.value
    return v


def _check_typenames(model, data, problems, path="$"):
    if isinstance(model, pydantic.BaseModel) and isinstance(data, dict):
        tn = data.get("__typename")
        f = type(model).model_fields.get("typename__")
        if tn is not None and f is not None:
            import typing
            lits = typing.get_args(f.annotation)
            if lits and tn not in lits:
                problems.append(f"{path}: instance of {type(model).__name__} whose __typename literal {lits} lacks runtime type {tn}")
        for name, fld in type(model).model_fields.items():
            key = fld.alias or name
            if key in data:
                _check_typenames(getattr(model, name), data[key], problems, f"{path}.{key}")
    elif isinstance(model, list) and isinstance(data, list):
        for i, (m, d) in enumerate(zip(model, data)):
            _check_typenames(m, d, problems, f"{path}[{i}]")


def _enum_classes(ann):
    import enum
    import typing
    out = []
    if isinstance(ann, type) and issubclass(ann, enum.Enum):
        out.append(ann)
    for a in typing.get_args(ann):
        out += _enum_classes(a)
    return out


def _check_enums(model, problems, path="$"):
    """statement: `enum values as the member of the same name`"""
    import enum
    if isinstance(model, list):
        for i, m in enumerate(model):
            _check_enums(m, problems, f"{path}[{i}]")
        return
    if not isinstance(model, pydantic.BaseModel):
        return
    for name, fld in type(model).model_fields.items():
        v = getattr(model, name)
        enums = _enum_classes(fld.annotation)
        leaves = []

        def flat(x):
            if isinstance(x, list):
                for y in x:
                    flat(y)
            elif x is not None:
                leaves.append(x)
        flat(v)
        for leaf in leaves:
            if isinstance(leaf, pydantic.BaseModel):
                _check_enums(leaf, problems, f"{path}.{fld.alias or name}")
            elif enums and not isinstance(leaf, enum.Enum):
                problems.append(f"{path}.{fld.alias or name}: enum value {leaf!r} exposed as {type(leaf).__name__}, not as a member of {enums[0].__name__}")
            elif isinstance(leaf, enum.Enum) and leaf.value != leaf.name.rstrip("_") and leaf.value != leaf.name:
                problems.append(f"{path}.{fld.alias or name}: member {leaf.name} does not carry the value of the same name ({leaf.value!r})")


def _corruptions(data, path=()):
    """single-point corruptions with the kind of position they hit"""
    out = []
    if isinstance(data, dict):
        for k, v in data.items():
            p = path + (k,)
            out.append(("remove", p))
            if v is not None:
                out.append(("null", p))
            if isinstance(v, (dict, list)):
                out.append(("kind", p))
            if k == "__typename" or (isinstance(v, str) and v in ("User", "Bot", "Ghost", "Doc", "Pic")):
                out.append(("typename", p))
            elif isinstance(v, (str, int, float, bool)):
                out.append(("scalar", p))
            out.extend(_corruptions(v, p))
    elif isinstance(data, list):
        for i, v in enumerate(data[:1]):
            out.extend(_corruptions(v, path + (i,)))
            if v is not None:
                out.append(("null", path + (i,)))
    return out


def _apply(data, kind, path):
    d = copy.deepcopy(data)
    cur = d
    for p in path[:-1]:
        cur = cur[p]
    if kind == "remove":
        del cur[path[-1]]
    elif kind == "null":
        cur[path[-1]] = None
    elif kind == "kind":
        cur[path[-1]] = "not-a-structure"
    elif kind == "typename":
        cur[path[-1]] = "NotAPossibleType"
    elif kind == "scalar":
        # a JSON value of another kind than the one the GraphQL scalar serialises to (String/ID/enum: a number;
        # Int/Float: a non-numeric string; Boolean: a string)
        v = cur[path[-1]]
        cur[path[-1]] = 7 if isinstance(v, str) else ("maybe" if isinstance(v, bool) else "not-a-number")
    return d


def _type_at(schema, op_text, path):
    """schema type of a response position and its field node (None for __typename / unknown / ambiguous positions).
    Fragment spreads and inline fragments are followed; a position reached under a fragment that carries a directive gets
    a field node with that directive (conditional); a response key that different type conditions resolve to different
    types (covariant implementations) is only reported when all candidates agree."""
    doc = G.parse(op_text)
    frags = {d.name.value: d for d in doc.definitions if isinstance(d, G.FragmentDefinitionNode)}
    op = next(d for d in doc.definitions if isinstance(d, G.OperationDefinitionNode))
    found = {}

    def named(t):
        while isinstance(t, (G.GraphQLNonNull, G.GraphQLList)):
            t = t.of_type
        return t

    def collect(sel_set, parent, prefix, conditional):
        for sel in sel_set.selections:
            cond = conditional or any(d.name.value in ("skip", "include") for d in sel.directives or ())
            if isinstance(sel, G.FieldNode):
                if sel.name.value == "__typename" or not hasattr(parent, "fields") or sel.name.value not in parent.fields:
                    continue
                key = prefix + (sel.alias.value if sel.alias else sel.name.value,)
                ftype = parent.fields[sel.name.value].type
                node = sel if not (conditional and not sel.directives) else G.FieldNode(
                    name=sel.name, alias=sel.alias, arguments=sel.arguments, selection_set=sel.selection_set,
                    directives=(G.DirectiveNode(name=G.NameNode(value="include"), arguments=()),))
                found.setdefault(key, []).append((ftype, node))
                if sel.selection_set is not None:
                    collect(sel.selection_set, named(ftype), key, cond)
            elif isinstance(sel, G.InlineFragmentNode):
                t = schema.type_map[sel.type_condition.name.value] if sel.type_condition else parent
                collect(sel.selection_set, t, prefix, cond)
            elif isinstance(sel, G.FragmentSpreadNode) and sel.name.value in frags:
                f = frags[sel.name.value]
                collect(f.selection_set, schema.type_map[f.type_condition.name.value], prefix, cond)
    collect(op.selection_set, schema.query_type, (), False)
    keys = tuple(p for p in path if isinstance(p, str))
    cands = found.get(keys)
    if not cands:
        return None, None
    if any(str(t) != str(cands[0][0]) for t, _ in cands[1:]):
        return None, None
    conditional = [n for _, n in cands if any(d.name.value in ("skip", "include") for d in n.directives or ())]
    return cands[0][0], (conditional[0] if conditional else cands[0][1])


def _check_fragment_bases(obj, problems):
    """C08: an object whose class inherits the class generated for a fragment is an instance of it, and that class alone
    validates the same payload"""
    if isinstance(obj, list):
        for x in obj:
            _check_fragment_bases(x, problems)
        return
    if not isinstance(obj, pydantic.BaseModel):
        return
    payload = obj.model_dump(by_alias=True, mode="json", exclude_unset=True)
    for base in type(obj).__mro__[1:]:
        if base.__module__.endswith(".fragments"):
            try:
                base.model_validate(payload)
            except pydantic.ValidationError as e:
                problems.append(dict(fragment_class=base.__name__, object_class=type(obj).__name__, payload=payload, error=str(e)[:300]))
    for name in type(obj).model_fields:
        _check_fragment_bases(getattr(obj, name, None), problems)


def check_operation(name, text, snake=True, with_corruptions=True):
    rep = dict(inputs={"scenario": name, "convert_to_snake_case": snake}, failed=[], undetermined=[], pre_ok=True, outcome={}, error=None)
    g = None
    try:
        schema = G.build_schema(SCHEMA)
        g = generate_client(SCHEMA, text, convert_to_snake_case=snake, scalars={"DateTime": {"type": "str"}})
        sent_text = None
        import re
        src = g.read("client.py")
        mod = g.module("q")
        Model = mod.Q
        # the text the client sends (with automatic __typename) decides what the server returns
        import ast as _ast
        tree = _ast.parse(src)
        gql_args = [n for n in _ast.walk(tree) if isinstance(n, _ast.Call) and getattr(n.func, "id", "") == "gql"]
        sent_text = _ast.literal_eval(gql_args[0].args[0])
        responses = _variants(schema, sent_text)
        rep["outcome"]["responses"] = len(responses)
        n_corr = n_rej = 0
        for data in responses:
            try:
                m = Model.model_validate(data)
            except pydantic.ValidationError as e:
                rep["failed"].append("conformant-response-accepted")
                rep["outcome"]["rejected"] = {"response": data, "error": str(e)[:300]}
                break
            back = m.model_dump(by_alias=True, mode="json", exclude_unset=True)
            if _norm(back) != _norm(data):
                rep["failed"].append("serialises-back-to-the-response")
                rep["outcome"]["round_trip"] = {"response": data, "dumped": back}
                break
            problems = []
            _check_typenames(m, data, problems)
            if problems:
                rep["failed"].append("instance-of-the-class-for-its-runtime-type")
                rep["outcome"]["typename"] = problems[:3]
                break
            problems = []
            _check_fragment_bases(m, problems)
            if problems:
                rep["failed"].append("fragment-class-alone-validates-the-same-payload")
                rep["outcome"]["fragment_bases"] = problems[:3]
                break
            problems = []
            _check_enums(m, problems)
            if problems:
                rep["failed"].append("enum-values-exposed-as-the-member-of-the-same-name")
                rep["outcome"]["enums"] = problems[:3]
                break
            if not with_corruptions:
                continue
            for kind, path in _corruptions(data):
                t, node = _type_at(schema, sent_text, path)
                conditional = node is not None and any(d.name.value in ("skip", "include") for d in node.directives)
                must_reject = False
                if kind == "typename":
                    must_reject = True
                elif t is not None and not conditional:
                    leaf_index = isinstance(path[-1], int)
                    if kind == "null":
                        tt = t
                        for p in path[::-1]:
                            if isinstance(p, int):
                                tt = tt.of_type.of_type if isinstance(tt, G.GraphQLNonNull) else tt.of_type
                            else:
                                break
                        must_reject = isinstance(tt, G.GraphQLNonNull) if not leaf_index else isinstance(tt, G.GraphQLNonNull)
                    elif kind == "remove" and not leaf_index:
                        must_reject = True
                    elif kind == "kind":
                        must_reject = True
                if kind == "scalar" and t is not None and not isinstance(path[-1], int):
                    nt = t
                    while isinstance(nt, (G.GraphQLNonNull, G.GraphQLList)):
                        nt = nt.of_type
                    wrapped_in_list = "[" in str(t)
                    must_reject = not wrapped_in_list and (isinstance(nt, G.GraphQLEnumType) or
                                                           (isinstance(nt, G.GraphQLScalarType) and nt.name in ("String", "ID", "Int", "Float", "Boolean")))
                if not must_reject:
                    continue
                n_corr += 1
                try:
                    Model.model_validate(_apply(data, kind, path))
                    rep["failed"].append("corrupted-payload-rejected")
                    rep["outcome"]["accepted_corruption"] = {"kind": kind, "path": list(path), "response": data}
                    break
                except pydantic.ValidationError:
                    n_rej += 1
            if rep["failed"]:
                break
        rep["outcome"]["corruptions_checked"] = n_corr
    except Exception as e:   # noqa
        rep["outcome"]["error"] = f"{type(e).__name__}: {str(e)[:300]}"
        rep["failed"].append("generation")
    finally:
        if g is not None:
            g.cleanup()
    rep["cases"] = [name] if rep["failed"] else []
    return rep


def _norm(v):
    if isinstance(v, dict):
        return {k: _norm(x) for k, x in v.items()}
    if isinstance(v, list):
        return [_norm(x) for x in v]
    if isinstance(v, float) and v == int(v):
        return v
    return v


def bounded_results(tier, seed):
    fails = []
    runs = [(n, t, True) for n, t in OPS.items()] + [(n, t, True) for n, t in KNOWN_OPS.items()]
    if tier == "thorough":
        runs += [(n, t, False) for n, t in OPS.items()]
    else:
        runs += [("scalars_enums_nesting", OPS["scalars_enums_nesting"], False), ("aliases", OPS["aliases"], False),
                 ("underscore_prefixed_keys", OPS["underscore_prefixed_keys"], False)]
    total = 0
    for n, t, snake in runs:
        r = check_operation(n, t, snake)
        total += r["outcome"].get("responses", 0) if isinstance(r["outcome"], dict) else 0
        if r["failed"]:
            fails.append(r)
    return dict(function="ariadne_codegen.client_generators.result_types:ResultTypesGenerator", name="bounded.result-models",
                kind="bounded stand-in (reference executor, end to end)",
                domain=f"{len(runs)} operations x every conformant response of the reference executor (runtime types x null x list lengths 0/1/2 x @skip/@include) + single-point corruptions",
                cases=total, failed=len(fails), failures=fails)


# the clause each known operation fails with on the recorded tree: a different failure of the same operation is a new violation
KNOWN_FAILS = {"inline_fragment_on_other_interface": ["generation"], "directive_on_fragment_spread": ["conformant-response-accepted"],
               "class_name_collision": ["conformant-response-accepted"],
               "fields_before_conditional_inline_fragment": ["conformant-response-accepted"],
               "fields_before_conditional_inline_fragment_on_interface": ["conformant-response-accepted"],
               "aliased_typename_on_abstract_type": ["generation"],
               "object_field_selected_directly_and_in_a_base_fragment": ["serialises-back-to-the-response"]}


def is_known_case(rep):
    name = rep.get("inputs", {}).get("scenario")
    return name in KNOWN_OPS and rep.get("failed") == KNOWN_FAILS.get(name)


def witness(name):
    return check_operation(name, KNOWN_OPS[name])
