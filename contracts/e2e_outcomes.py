"""C12, end to end - `every HTTP response is classified into exactly one documented outcome ... and the generated method
returns the validated model of exactly that data`.

Bounded stand-in (native, never counted as proved): generated packages (sync / async, plain / OpenTelemetry with a tracer
configured) and a custom-operations package are driven through httpx.MockTransport over a table of status codes x body
classes; the outcome of the GENERATED METHOD must be the documented one (the package's own exception classes)."""
import asyncio
import json
import httpx
from .e2e import generate_client

SCHEMA = "type Query { q(a: Int): String  n: Int }\n"
QUERY = "query GetQ($a: Int) { q(a: $a) } query Cond($c: Boolean!) { q @include(if: $c) n @skip(if: $c) }"

SCHEMA_SHORT = "type U { id: ID! fullName: String }\ntype Query { currentUser: U  n: Int }\n"
QUERIES_SHORT = "query GetCurrentUser { currentUser { id fullName } } query GetAlias { theUser: currentUser { id } } query GetPlain { n }"

ERR = [{"message": "boom", "path": ["q"], "locations": [{"line": 1, "column": 2}], "extensions": {"code": "X"}, "errorType": "Vendor"},
       {"message": "boom", "path": ["other"]}, {"message": "explicit nulls", "locations": None, "path": None, "extensions": None}]
# (label, status, raw body bytes or JSON value, expected outcome)
TABLE = [
    ("ok", 200, {"data": {"q": "v"}}, "data"), ("ok-string-with-outer-whitespace", 200, {"data": {"q": "  padded\tvalue \n"}}, "data"), ("ok-201", 201, {"data": {"q": "v"}}, "data"), ("ok-extra-keys", 200, {"data": {"q": "v"}, "extensions": {"t": 1}}, "data"),
    ("ok-empty-errors", 200, {"data": {"q": "v"}, "errors": []}, "data"), ("ok-null-errors", 200, {"data": {"q": "v"}, "errors": None}, "data"),
    ("errors-without-data", 200, {"errors": ERR}, "multi"), ("errors-with-partial-data", 200, {"data": {"q": None}, "errors": ERR}, "multi"),
    ("errors-with-full-data", 200, {"data": {"q": "v"}, "errors": ERR[:1]}, "multi"),
    ("not-json", 200, b"<html>", "invalid"), ("json-array", 200, [1], "invalid"), ("json-null", 200, None, "invalid"), ("json-string", 200, "x", "invalid"),
    ("empty-object", 200, {}, "invalid"), ("other-keys-only", 200, {"extensions": {}}, "invalid"), ("undecodable", 200, b'{"data": "\xe9\xff"}', "invalid"),
    ("http-400", 400, {"data": {"q": "v"}}, "http"), ("http-404-html", 404, b"<html>", "http"), ("http-500-errors", 500, {"errors": ERR}, "http"),
    ("http-401-json-string", 401, "Unauthorized", "http"), ("http-500-json-array", 500, [], "http"), ("http-502-json-null", 502, None, "http"),
    ("http-403-json-number", 403, 42, "http"), ("http-307-json-object", 307, {"data": {"q": "v"}}, "http"),
    ("http-301", 301, {"data": {"q": "v"}}, "http"), ("http-199", 199, {"data": {"q": "v"}}, "http"), ("http-503-empty", 503, b"", "http"),
]


def _response(status, body):
    if isinstance(body, bytes):
        return httpx.Response(status, content=body, headers={"content-type": "application/json"})
    return httpx.Response(status, content=json.dumps(body).encode(), headers={"content-type": "application/json"})


def _drive(g, async_, tracer, label, status, body, expected, custom=False):
    mod = g.module()
    ex = g.module("exceptions")
    handler = lambda request: _response(status, body)      # noqa: E731
    kw = dict(url="http://x/graphql")
    if tracer:
        kw["tracer"] = "pyvc-tracer"
    if async_:
        client = mod.Client(http_client=httpx.AsyncClient(transport=httpx.MockTransport(handler)), **kw)
    else:
        client = mod.Client(http_client=httpx.Client(transport=httpx.MockTransport(handler)), **kw)
    try:
        if custom:
            cq = g.module("custom_queries")
            call = client.query(cq.Query.q(a=1), operation_name="Q")
        else:
            call = client.get_q(a=1)
        out = asyncio.run(call) if async_ else call
        got, detail = "data", out
    except ex.GraphQLClientHttpError as e:
        got, detail = "http", (e.status_code, e.response.status_code)
    except ex.GraphQLClientInvalidResponseError as e:
        got, detail = "invalid", None
    except ex.GraphQLClientGraphQLMultiError as e:
        got, detail = "multi", e
    except Exception as e:      # noqa
        got, detail = f"other:{type(e).__name__}", str(e)[:160]
    bad = []
    if got != expected:
        bad.append(f"outcome {got} instead of {expected} ({detail if isinstance(detail, str) else ''})")
    elif got == "http" and detail != (status, status):
        bad.append("http-error-carries-status-and-response")
    elif got == "multi":
        errs = body["errors"]
        if len(detail.errors) != len(errs) or [e.message for e in detail.errors] != [x["message"] for x in errs] \
                or [e.path for e in detail.errors] != [x.get("path") for x in errs] or [e.original for e in detail.errors] != errs \
                or [e.extensions for e in detail.errors] != [x.get("extensions") for x in errs] or detail.data != body.get("data"):
            bad.append("multi-error-carries-every-error-and-the-partial-data")
    elif got == "data":
        data = body["data"]
        if custom:
            if detail != data:
                bad.append("data-member-returned-unchanged")
        elif getattr(detail, "q", None) != data["q"]:
            bad.append("generated-method-returns-the-validated-model-of-that-data")
    return bad


def bounded_outcomes(tier, seed):
    cases, fails = 0, []
    configs = [("async", dict(), True, False), ("sync", dict(async_client=False), False, False),
               ("async-opentelemetry-tracer", dict(opentelemetry_client=True), True, True),
               ("sync-opentelemetry-tracer", dict(opentelemetry_client=True, async_client=False), False, True),
               ("async-opentelemetry-no-tracer", dict(opentelemetry_client=True), True, False)]
    for name, opts, async_, tracer in configs:
        g = None
        try:
            g = generate_client(SCHEMA, QUERY, **opts)
            for label, status, body, expected in TABLE:
                cases += 1
                bad = _drive(g, async_, tracer, label, status, body, expected)
                if bad:
                    fails.append(dict(inputs=dict(scenario=f"{name}:{label}"), failed=bad, outcome=None))
            # `the validated model of exactly that data`: a null data member is not an object with every field absent
            for label, body in (("data-null", {"data": None}), ("data-null-empty-errors", {"data": None, "errors": []})):
                cases += 1
                mod = g.module()
                handler = lambda request, _b=body: httpx.Response(200, json=_b)      # noqa: E731
                try:
                    if async_:
                        out = asyncio.run(mod.Client(url="http://x/graphql", http_client=httpx.AsyncClient(transport=httpx.MockTransport(handler))).cond(c=True))
                    else:
                        out = mod.Client(url="http://x/graphql", http_client=httpx.Client(transport=httpx.MockTransport(handler))).cond(c=True)
                    if out is not None:
                        fails.append(dict(inputs=dict(scenario=f"{name}:all-conditional-operation:{label}"), failed=[f"a model was made up for a null data member: {out!r}"], outcome=None))
                except Exception as e:      # noqa
                    if type(e).__name__ != "ValidationError":
                        fails.append(dict(inputs=dict(scenario=f"{name}:all-conditional-operation:{label}"), failed=[f"outcome other:{type(e).__name__}"], outcome=None))
        except Exception as e:      # noqa
            fails.append(dict(inputs=dict(scenario=f"{name}:generation"), failed=["generation"], outcome=f"{type(e).__name__}: {str(e)[:200]}"))
        finally:
            if g is not None:
                g.cleanup()
    # ShorterResults: the single top-level field is returned directly, whatever its Python name / response key is
    for name, opts, async_ in (("shorter-results-async", dict(), True), ("shorter-results-sync", dict(async_client=False), False)):
        g = None
        try:
            g = generate_client(SCHEMA_SHORT, QUERIES_SHORT, plugins=["ariadne_codegen.contrib.shorter_results.ShorterResultsPlugin"], **opts)
            mod = g.module()
            for method, data, read in (("get_current_user", {"currentUser": {"id": "1", "fullName": " Ann \n"}}, lambda r: (r.id, r.full_name) == ("1", " Ann \n")),
                                       ("get_alias", {"theUser": {"id": "2"}}, lambda r: r.id == "2"),
                                       ("get_plain", {"n": 7}, lambda r: r == 7),
                                       ("get_current_user", {"currentUser": None}, lambda r: r is None)):
                cases += 1
                handler = lambda request, _d=data: httpx.Response(200, json={"data": _d})      # noqa: E731
                try:
                    if async_:
                        client = mod.Client(url="http://x/graphql", http_client=httpx.AsyncClient(transport=httpx.MockTransport(handler)))
                        out = asyncio.run(getattr(client, method)())
                    else:
                        client = mod.Client(url="http://x/graphql", http_client=httpx.Client(transport=httpx.MockTransport(handler)))
                        out = getattr(client, method)()
                    bad = [] if read(out) else [f"shortened-result-is-the-single-field-of-that-data: {out!r}"]
                except Exception as e:      # noqa
                    bad = [f"outcome other:{type(e).__name__} instead of data ({str(e)[:120]})"]
                if bad:
                    fails.append(dict(inputs=dict(scenario=f"{name}:{method}:{sorted(data)[0]}={'null' if list(data.values())[0] is None else 'value'}"), failed=bad, outcome=None))
        except Exception as e:      # noqa
            fails.append(dict(inputs=dict(scenario=f"{name}:generation"), failed=["generation"], outcome=f"{type(e).__name__}: {str(e)[:200]}"))
        finally:
            if g is not None:
                g.cleanup()
    # query builder: Dict result, the data member unchanged (also when it is null)
    for name, opts, async_ in (("custom-operations-async", dict(), True), ("custom-operations-sync", dict(async_client=False), False)):
        g = None
        try:
            g = generate_client(SCHEMA, None, enable_custom_operations=True, **opts)
            for label, status, body, expected in TABLE + [("data-null", 200, {"data": None}, "data"), ("data-null-empty-errors", 200, {"data": None, "errors": []}, "data")]:
                cases += 1
                bad = _drive(g, async_, False, label, status, body, expected, custom=True)
                if bad:
                    fails.append(dict(inputs=dict(scenario=f"{name}:{label}"), failed=bad, outcome=None))
        except Exception as e:      # noqa
            fails.append(dict(inputs=dict(scenario=f"{name}:generation"), failed=["generation"], outcome=f"{type(e).__name__}: {str(e)[:200]}"))
        finally:
            if g is not None:
                g.cleanup()
    return dict(function="ariadne_codegen.client_generators.client:ClientGenerator.add_method", name="bounded.response-outcomes",
                kind="bounded stand-in (end-to-end, native)",
                domain=f"{len(TABLE)} status/body classes x 5 generated clients (sync/async, OpenTelemetry with and without tracer) + the custom-operations "
                       "client (sync/async, incl. data: null): outcome of the generated method",
                cases=cases, failed=len(fails), failures=fails)


if __name__ == "__main__":
    r = bounded_outcomes("quick", 0)
    print(r["cases"], r["failed"])
    for f in r["failures"][:12]:
        print(json.dumps(f)[:300])
