"""C07 - custom scalars parsed and serialised exactly once per occurrence.

Annotation placement (Annotated[T, BeforeValidator(parse)] / Annotated[T, PlainSerializer(serialize)] inside every
Optional/List wrapper, once) is carried by the C05/C06 translator contracts (which list C07); this module adds the
top-level variable path (`_get_dict_value`), the scalar-name resolution and the import generation."""
import ast
import z3
import graphql as G
from pyvc import val as V
from pyvc.val import SV, Obj, MList
from pyvc.contract import Contract
from pyvc.spec import *   # noqa
from . import lib_graphql as GQ
from .c06_input_types import name_, call, SC, K, sd, SCALAR_DATA, IDENT
from ariadne_codegen.client_generators import arguments as AR

V.REG.register(AR.ArgumentsGenerator, ["custom_scalars", "_used_custom_scalars"])

# ghost: shape of the variable's declared GraphQL type, as far as `_get_dict_value` would need it
VAR_IS_NONNULL_NAMED = z3.Function("var_is_non_null_named_type", V.Val, z3.BoolSort())


class GetDictValue(Contract):
    props = ("C07", "C03")
    target = "ariadne_codegen.client_generators.arguments:ArgumentsGenerator._get_dict_value"
    use_at_calls = False
    regions = {"unguarded-serialize": lambda A: z3.And(z3.Not(VAR_IS_NONNULL_NAMED(A.name)), truthy(A.used_custom_scalar))}

    def setup(self, E):
        scalars = E.sym("custom_scalars", DictOf(GQ.NAME, SCALAR_DATA, name="arg_custom_scalars"))
        self_ = Obj(AR.ArgumentsGenerator, dict(custom_scalars=scalars, _used_custom_scalars=E.mlist("used0", Str)))
        name = E.sym("name", IDENT)
        used = E.sym("used_custom_scalar", Opt(GQ.NAME))
        E.assume(z3.Implies(truthy(used.t), has(scalars.t, used.t)))    # call site: the name came from custom_scalars
        return [self_, name, used], {}

    def ensures(self, A, res):
        data = get(self._scalars(A), A.used_custom_scalar)
        ser = sd("serialize_name", data)
        serialised = z3.And(truthy(A.used_custom_scalar), truthy(ser))
        plain = name_(A.name)
        # statement: serialize is applied to the value exactly once when it is present, never to None / UNSET, and per
        # item for lists.  With only (name, scalar) available the bare call serialize(name) is right exactly when the
        # variable is a non-null named type; otherwise the emitted expression would have to guard / map.
        return {"serialize-applied-only-to-present-values": z3.If(
            serialised,
            z3.And(VAR_IS_NONNULL_NAMED(A.name), res == call(name_(ser), args=[plain])),
            res == plain)}

    def _scalars(self, A):
        return V.attr_of(A.self, AR.ArgumentsGenerator, "custom_scalars")

    def native_args(self, inputs):
        raise NotImplementedError

    def replay_custom(self, inputs):
        from .e2e_scalars import check_variable_serialize
        return check_variable_serialize()


CONTRACTS = [GetDictValue()]


# ------------------------------------------------------------------------------------------ leaf annotations
from .c06_input_types import input_scalar_ann          # noqa: E402
from .c05_result_fields import result_scalar_ann       # noqa: E402


class ScalarAnnotation(Contract):
    """statement: `parsed / serialised exactly once per occurrence`: the leaf annotation of a configured scalar is its
    Python type, wrapped exactly once in Annotated[T, BeforeValidator(parse)] (results) / Annotated[T,
    PlainSerializer(serialize)] (inputs) iff a parse / serialize function is configured"""
    props = ("C07",)
    use_at_calls = False

    def __init__(self, fn, spec):
        self.target = f"ariadne_codegen.client_generators.scalars:{fn}"
        self.spec = spec

    def setup(self, E):
        return [], dict(data=E.sym("data", SCALAR_DATA))

    def ensures(self, A, res):
        return {"type-wrapped-exactly-once-iff-a-function-is-configured": res == self.spec(A.data)}

    def samples(self, tier):
        return [dict(data=SC.ScalarData(type_="datetime.datetime")), dict(data=SC.ScalarData(type_="T", parse="m.parse", serialize="m.ser")),
                dict(data=SC.ScalarData(type_="T", parse="parse")), dict(data=SC.ScalarData(type_="T", serialize="ser"))]


CONTRACTS += [ScalarAnnotation("generate_result_scalar_annotation", result_scalar_ann),
              ScalarAnnotation("generate_input_scalar_annotation", input_scalar_ann)]
