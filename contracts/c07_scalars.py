"""C07 - custom scalars parsed and serialised exactly once per occurrence.

Annotation placement (Annotated[T, BeforeValidator(parse)] / Annotated[T, PlainSerializer(serialize)] inside every
Optional/List wrapper, once) is carried by the C05/C06 translator contracts (which list C07); this module adds the
top-level variable path (`_get_dict_value`), the scalar-name resolution and the import generation."""
import ast
import z3
import graphql as G
from pyvc import val as V
from pyvc.val import SV, Obj, MList
from pyvc.contract import Contract
from pyvc.spec import *   # noqa
from . import lib_graphql as GQ
from .c06_input_types import name_, call, SC, K, sd, SCALAR_DATA, IDENT
from ariadne_codegen.client_generators import arguments as AR

V.REG.register(AR.ArgumentsGenerator, ["custom_scalars", "_used_custom_scalars"])

# ghost: shape of the variable's declared GraphQL type, as far as `_get_dict_value` would need it
VAR_IS_NONNULL_NAMED = z3.Function("var_is_non_null_named_type", V.Val, z3.BoolSort())


class GetDictValue(Contract):
    props = ("C07", "C03")
    target = "ariadne_codegen.client_generators.arguments:ArgumentsGenerator._get_dict_value"
    use_at_calls = False
    regions = {"unguarded-serialize": lambda A: z3.And(z3.Not(VAR_IS_NONNULL_NAMED(A.name)), truthy(A.used_custom_scalar))}

    def setup(self, E):
        scalars = E.sym("custom_scalars", DictOf(GQ.NAME, SCALAR_DATA, name="arg_custom_scalars"))
        self_ = Obj(AR.ArgumentsGenerator, dict(custom_scalars=scalars, _used_custom_scalars=E.mlist("used0", Str)))
        name = E.sym("name", IDENT)
        used = E.sym("used_custom_scalar", Opt(GQ.NAME))
        E.assume(z3.Implies(truthy(used.t), has(scalars.t, used.t)))    # call site: the name came from custom_scalars
        return [self_, name, used], {}

    def ensures(self, A, res):
        data = get(self._scalars(A), A.used_custom_scalar)
        ser = sd("serialize_name", data)
        serialised = z3.And(truthy(A.used_custom_scalar), truthy(ser))
        plain = name_(A.name)
        # statement: serialize is applied to the value exactly once when it is present, never to None / UNSET, and per
        # item for lists.  With only (name, scalar) available the bare call serialize(name) is right exactly when the
        # variable is a non-null named type; otherwise the emitted expression would have to guard / map.
        return {"serialize-applied-only-to-present-values": z3.If(
            serialised,
            z3.And(VAR_IS_NONNULL_NAMED(A.name), res == call(name_(ser), args=[plain])),
            res == plain)}

    def _scalars(self, A):
        return V.attr_of(A.self, AR.ArgumentsGenerator, "custom_scalars")

    def native_args(self, inputs):
        raise NotImplementedError

    def replay_custom(self, inputs):
        from .e2e_scalars import check_variable_serialize
        return check_variable_serialize()


CONTRACTS = [GetDictValue()]
