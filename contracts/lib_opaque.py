"""Contracts that treat a function as an uninterpreted pure function of its arguments (assumed: deterministic, no
effect on the state the calling contract talks about)."""
import z3
from pyvc import val as V
from pyvc.val import SV
from pyvc.contract import Contract, Args


class Opaque(Contract):
    assumed = True

    def __init__(self, target, arity_hint=None, note=""):
        self.target = target
        self.fn = z3.Function("opaque_" + target.split(":")[1].replace(".", "_"), V.Val, V.Val)
        self.trusted = [f"{target}: treated as an uninterpreted pure function of its arguments. {note}"]

    def apply_at_call(self, I, fn, args, kwargs):
        names = self.call_names(fn, args, kwargs, I)
        vals = []
        for k in sorted(names):
            if k == "self":
                continue
            try:
                vals.append(V.VTuple(V.vlist([V.lower(k), V.lower(names[k])])))
            except V.LowerError:
                pass
        I.ctx.__dict__.setdefault("contracts_used", set()).add(self.target)
        return SV(self.fn(V.VList(V.vlist(vals))))
