"""C01 / C05 / C08 / C04 - the body of a generated class: ResultTypesGenerator._parse_type_definition.

For the class `class_name` generated for schema type `type_name` from a selection set the method
  * does nothing (returns no classes) when a class of that name has been generated already in this module, else registers the name;
  * asks _resolve_selection_set for the fields and the fragments that become bases - for THIS selection set and THIS type;
  * (abstract positions) lets _add_typename_field_to_selections put __typename into the resolved fields and into the authored
    selection set (the text that is sent);
  * bases: the classes of those fragments in sorted order (BaseModel when there are none), then the @mixin bases handed in;
  * body: exactly one annotated assignment per resolved field, in order: target = the processed name of its response key, annotation
    and default from parse_operation_field called with the schema's type of THAT field of THIS type, the field's directives, the class
    name prefix `class_name + PascalCase(python name)` and the typename values; wrapped by _process_field_implementation with the response
    key; `pass` when there is no field;
  * the classes of the fields' own selection sets (with the @mixin bases of each field) follow the class, in field order; the enums
    and custom scalars each field's context reports are recorded, in order.
Every callee is a recording / uninterpreted stand-in (each has its own contract or stand-in elsewhere): the proof is about the
orchestration - which callee gets which arguments, and where each result ends up.  No plugin manager."""
import ast
import z3
import graphql as G
from pyvc import val as V
from pyvc import models
from pyvc.val import SV, Obj, MList, MSet
from pyvc.contract import Contract, self_obj
from pyvc.spec import *   # noqa
from . import lib_graphql as GQ
from . import c03_arguments as _c03       # noqa: F401
from . import c01_inline as CI            # noqa: F401  (registers the selection node classes)
from . import lib_generator as _lg        # noqa: F401
from .c06_input_types import name_
from .c05_result_fields import RF
from ariadne_codegen.client_generators import result_types as RT
from ariadne_codegen.client_generators import constants as K
from ariadne_codegen import utils as U

MOD = "ariadne_codegen.client_generators.result_types:ResultTypesGenerator."
Val = V.Val
FIELDS = z3.Const("resolved_fields", Val)                 # what _resolve_selection_set returns: the fields ...
FRAGMENTS = z3.Const("resolved_fragment_names", V.VL)     # ... and (an enumeration of) the set of fragments that become bases
FIELDS_T = z3.Const("resolved_fields_with_typename", Val)
SELECTIONS_T = z3.Const("selections_with_typename", Val)
PASCAL = z3.Function("py_str_to_pascal_case", Val, Val)
FNAME = z3.Function("response_key_of", Val, Val)                               # self._get_field_name(field)
PNAME = z3.Function("python_name_of", Val, Val, Val)                           # self._process_field_name(key, field=field)
FDEF_TYPE = z3.Function("schema_type_of_field", Val, Val, Val)                 # self._get_field_from_schema(type name, field name).type
POF_ANN = z3.Function("parsed_field_annotation", Val, Val, Val, Val, Val, Val)    # parse_operation_field(field, type, directives, class name, typename values)[0]
POF_DEFAULT = z3.Function("parsed_field_default", Val, Val, Val, Val, Val, Val)
POF_CTX = z3.Function("parsed_field_context", Val, Val, Val, Val, Val, Val)
IMPL = z3.Function("processed_field_implementation", Val, Val, Val, Val)       # self._process_field_implementation(stmt, key, field)
SUBCLASSES = z3.Function("classes_of_the_fields_selection", Val, Val, Val, Val)  # self._parse_field_selection_set_types(selection set, context, extra bases)
MIXIN_BASES = z3.Function("mixin_bases_of_field", Val, Val)


def fname_node(f):
    return V.attr_of(V.attr_of(f, G.FieldNode, "name"), G.NameNode, "value")


def pieces(f, cn, tn, tv):
    key = FNAME(f)
    py = PNAME(key, f)
    ftype = FDEF_TYPE(tn, fname_node(f))
    prefix = V.VStr(z3.Concat(V.vs(cn), V.vs(PASCAL(py))))
    dirs = V.attr_of(f, G.FieldNode, "directives")
    args = (f, ftype, dirs, prefix, tv)
    ctx = POF_CTX(*args)
    stmt = mk(ast.AnnAssign, target=name_(py), annotation=POF_ANN(*args), value=POF_DEFAULT(*args), simple=1)
    return dict(impl=IMPL(stmt, key, f), ctx=ctx,
                sub=SUBCLASSES(V.attr_of(f, G.FieldNode, "selection_set"), ctx, MIXIN_BASES(f)),
                enums=V.attr_of(ctx, RF.FieldContext, "enums"), scalars=V.attr_of(ctx, RF.FieldContext, "custom_scalars"))


# the four accumulations over the resolved fields: declared functions with instances of their defining equations
BODY = z3.Function("class_body_of", V.VL, Val, Val, Val, V.VL)
SUBS = z3.Function("field_classes_of", V.VL, Val, Val, Val, V.VL)
ENUMS = z3.Function("field_enums_of", V.VL, Val, Val, Val, V.VL)
SCALARS = z3.Function("field_scalars_of", V.VL, Val, Val, Val, V.VL)
ACCS = (("impl", BODY, False), ("sub", SUBS, True), ("enums", ENUMS, True), ("scalars", SCALARS, True))      # (piece, fold, piece is a list to concatenate)
fused_names = SpecMap("fragment_class_bases", lambda n: name_(PASCAL(n)))
pascal_names = SpecMap("fragment_class_names", lambda n: PASCAL(n))
to_names = SpecMap("class_base_expressions", lambda n: name_(n))


class ParseOperationFieldAtCalls(Contract):
    """call-site stand-in for result_fields.parse_operation_field (its parts are under contract in c05_result_fields / c01_*)"""
    target = "ariadne_codegen.client_generators.result_fields:parse_operation_field"
    assumed = True

    def apply_at_call(self, I, fn, args, kwargs):
        n = self.call_names(fn, args, kwargs, I)
        a = tuple(V.lower(n[k]) for k in ("field", "type_", "directives", "class_name", "typename_values"))
        I.p.effect("call", ("parse_operation_field", [V.lower(n["schema"]), V.lower(n["custom_scalars"]), V.lower(n["fragments_definitions"])]))
        ctx = POF_CTX(*a)
        I.p.assume(z3.And(GQ.is_cls(ctx, V.REG.info(RF.FieldContext)), V.is_VList(V.attr_of(ctx, RF.FieldContext, "enums")),
                          V.is_VList(V.attr_of(ctx, RF.FieldContext, "custom_scalars"))))
        models._used("contract:" + self.target)
        return (SV(POF_ANN(*a)), SV(POF_DEFAULT(*a)), SV(ctx))


class PascalAtCalls(Contract):
    """assumed: str_to_pascal_case is a function of its argument returning a string (regex based; outside the solvers' fragment)"""
    target = "ariadne_codegen.utils:str_to_pascal_case"
    assumed = True

    def apply_at_call(self, I, fn, args, kwargs):
        n = self.call_names(fn, args, kwargs, I)
        r = PASCAL(V.lower(list(n.values())[0]))
        I.p.assume(V.is_VStr(r))
        return SV(r)


def _inv(rest, xs, st, I, env):
    cn, tn = V.lower(env.lookup("class_name")), V.lower(env.lookup("type_name"))
    tv = V.lower(env.lookup("typename_values"))
    c0 = I.ctx.__dict__["ptd0"]
    cur = dict(impl=V.vl(st["class_def.body"]), sub=V.vl(st["extra_classes"]), enums=V.vl(st["self._used_enums"]), scalars=V.vl(st["self._used_scalars"]))
    init = dict(impl=V.VNil, sub=V.VNil, enums=c0["enums"], scalars=c0["scalars"])
    rs = z3.simplify(rest)
    out = []
    if z3.is_app(rs) and rs.decl().name() == "VCons":
        x, r1 = rs.arg(0), rs.arg(1)
        ps = pieces(x, cn, tn, tv)
        for key, F, is_list in ACCS:
            tail = F(r1, cn, tn, tv)
            p = V.vl(ps[key]) if is_list else V.VCons(ps[key], V.VNil)
            V.LEMMAS.append(F(rs, cn, tn, tv) == V.vl_concat(p, tail))                                            # defining equation at x :: rest'
            V.LEMMAS.append(V.vl_concat(V.vl_concat(cur[key], p), tail) == V.vl_concat(cur[key], V.vl_concat(p, tail)))       # associativity instance
            if not is_list:
                V.LEMMAS.append(V.vl_concat(V.vl_concat(cur[key], p), tail) == V.vl_concat(cur[key], V.VCons(ps[key], tail)))
                V.LEMMAS.append(V.vl_concat(p, tail) == V.VCons(ps[key], tail))
    at_end = z3.is_app(rs) and rs.decl().name() == "VNil"
    for key, F, is_list in ACCS:
        total = V.vconcat(init[key], F(xs, cn, tn, tv))           # (unit laws of ++ applied when one side is literally nil)
        if at_end:
            V.LEMMAS.append(F(V.VNil, cn, tn, tv) == V.VNil)      # defining equation at nil
            out.append(cur[key] == total)
        else:
            out.append(V.vl_concat(cur[key], F(rest, cn, tn, tv)) == total)
    return z3.And(*out)


_inv.extra_mutated = [("class_def", "body"), ("extra_classes",), ("self", "_used_enums"), ("self", "_used_scalars")]
FIELD_SHAPE = Cls(G.FieldNode, name=GQ.NAME_NODE)


class ParseTypeDefinition(Contract):
    props = ("C01", "C05", "C08", "C04")
    target = MOD + "_parse_type_definition"
    mutates = ("self", "selection_set")
    use_at_calls = False
    frame_args = False
    assume_proved = True
    trusted = ["every callee is a recording / uninterpreted stand-in: _resolve_selection_set (c01_resolve), _add_typename_field_to_selections, _get_field_name, _process_field_name, "
               "_get_field_from_schema, parse_operation_field (c05_result_fields, c01_*), _process_field_implementation (c01_results), _parse_field_selection_set_types, "
               "_get_extra_bases_from_mixin_directives (c08_mixins); str_to_pascal_case is a function (assumed); sorted(set) = py_sorted",
               "the accumulations over the resolved fields are declared functions constrained by instances of their defining equations"]
    loops = {"ResultTypesGenerator._parse_type_definition": _inv}

    def setup(self, E):
        from pyvc.interp import ModelMethod
        from pyvc.shapes import assume_shape
        assume_shape(E.p, ListOf(FIELD_SHAPE, name="resolved_field_items"), FIELDS)
        assume_shape(E.p, ListOf(FIELD_SHAPE, name="resolved_field_items_with_typename"), FIELDS_T)
        E.p.assume(V.is_VTuple(SELECTIONS_T))
        for n, t in (("resolved_fields", FIELDS), ("resolved_fields_with_typename", FIELDS_T), ("selections_with_typename", SELECTIONS_T)):
            E.ctx.inputs[n] = t
        s = self_obj(RT.ResultTypesGenerator, dict(
            schema=E.sym("schema", Any), custom_scalars=E.sym("custom_scalars", Any), fragments_definitions=E.sym("fragments_definitions", Any),
            plugin_manager=None, operation_definition=E.sym("operation_definition", Any),
            _public_names=E.mlist("public_names0", Str), _used_enums=E.mlist("used_enums0", Str), _used_scalars=E.mlist("used_scalars0", Str)))
        E.ctx.ptd0 = dict(enums=V.vl(s.attrs["_used_enums"].t), scalars=V.vl(s.attrs["_used_scalars"].t), public=V.vl(s.attrs["_public_names"].t))
        self._c0 = E.ctx.ptd0

        def rec(name, fn):
            s.attrs[name] = ModelMethod(s, fn, name)

        def resolve(I, o, a, k):
            I.p.effect("call", ("resolve", [V.lower(a[0]) if a else V.lower(k["selection_set"]), V.lower(a[1]) if len(a) > 1 else V.lower(k["root_type"])]))
            return (SV(FIELDS), MSet(FRAGMENTS))

        def add_typename(I, o, a, k):
            I.p.effect("call", ("add_typename", [V.lower(a[0]), V.lower(a[1])]))
            return (SV(FIELDS_T), SV(SELECTIONS_T))
        rec("_resolve_selection_set", resolve)
        rec("_add_typename_field_to_selections", add_typename)
        def arg(a, k, i, name):
            """the i-th parameter of a callee, however it is passed"""
            return V.lower(a[i]) if len(a) > i else V.lower(k[name])
        rec("_get_field_name", lambda I, o, a, k: SV(_str(I, FNAME(arg(a, k, 0, "field")))))
        rec("_process_field_name", lambda I, o, a, k: SV(_str(I, PNAME(arg(a, k, 0, "name"), arg(a, k, 1, "field")))))
        rec("_get_field_from_schema", lambda I, o, a, k: Obj(G.GraphQLField, {"type": SV(FDEF_TYPE(arg(a, k, 0, "type_name"), arg(a, k, 1, "field_name")))}))
        rec("_process_field_implementation", lambda I, o, a, k: SV(IMPL(arg(a, k, 0, "field_implementation"), arg(a, k, 1, "field_schema_name"), arg(a, k, 2, "field"))))
        rec("_get_extra_bases_from_mixin_directives", lambda I, o, a, k: SV(MIXIN_BASES(arg(a, k, 0, "node"))))

        def sub_types(I, o, a, k):
            r = SUBCLASSES(V.lower(a[0]) if a else V.lower(k["selection_set"]), V.lower(a[1]) if len(a) > 1 else V.lower(k["field_context"]),
                           V.lower(a[2]) if len(a) > 2 else V.lower(k.get("extra_bases")))
            I.p.assume(V.is_VList(r))
            return SV(r)
        rec("_parse_field_selection_set_types", sub_types)
        sel = Obj(G.SelectionSetNode, {"selections": E.sym("authored_selections", Pred(V.is_VTuple, "tuple"))})
        self._sel = sel
        self._sel0 = V.lower(sel)
        return [s], dict(class_name=E.sym("class_name", Str), type_name=E.sym("type_name", GQ.NAME), selection_set=sel,
                         add_typename=E.sym_bool("add_typename"), extra_bases=E.sym("extra_bases", Opt(ListOf(Str, name="mixin_bases_in"))),
                         typename_values=E.sym("typename_values", Opt(ListOf(Str, name="typename_values_in"))))

    def ensures(self, A, res):
        c0 = self._c0
        cn, tn, tv = A.class_name, A.type_name, A.typename_values
        known = V.vcontains(c0["public"], cn)
        fin = A.final_self
        pub1 = V.vl(V.attr_of(fin, RT.ResultTypesGenerator, "_public_names"))
        en1 = V.vl(V.attr_of(fin, RT.ResultTypesGenerator, "_used_enums"))
        sc1 = V.vl(V.attr_of(fin, RT.ResultTypesGenerator, "_used_scalars"))
        calls = [pl for k, pl in A["__effects__"] if k == "call"]
        by = {}
        for c in calls:
            by.setdefault(c[0], []).append(c[1])
        if not by.get("resolve"):
            # the path on which nothing is resolved: only allowed for a class name that was generated before; nothing changes
            return {"a-class-name-is-generated-once-per-module": z3.And(known, res == V.VList(V.VNil), pub1 == c0["public"], en1 == c0["enums"], sc1 == c0["scalars"]),
                    "no-other-callee-runs": z3.BoolVal(not by)}
        at = by.get("add_typename", [])
        fields = V.vl(FIELDS_T) if at else V.vl(FIELDS)
        p = A.get("__path__")
        frag_sorted = models.PY_SORTED(FRAGMENTS)
        from_fragments = pascal_names.apply(p, frag_sorted) if p is not None else pascal_names(frag_sorted)
        own = z3.If(V.is_VCons(FRAGMENTS), from_fragments, V.VCons(S(K.BASE_MODEL_CLASS_NAME), V.VNil))
        with_given = V.vl_concat(own, V.vl(A.extra_bases))
        extended = to_names.apply(p, with_given) if p is not None else to_names(with_given)
        fused = fused_names.apply(p, frag_sorted) if p is not None else fused_names(frag_sorted)
        plain = z3.If(V.is_VCons(FRAGMENTS), fused, V.VCons(name_(S(K.BASE_MODEL_CLASS_NAME)), V.VNil))
        bases = z3.If(truthy(A.extra_bases), extended, plain)
        b = BODY(fields, cn, tn, tv)
        body = z3.If(V.is_VCons(b), b, V.VCons(mk(ast.Pass), V.VNil))
        for F in (BODY, SUBS, ENUMS, SCALARS):
            V.LEMMAS.append(z3.Implies(V.is_VNil(fields), F(fields, cn, tn, tv) == V.VNil))          # defining equation at the empty field list
        first = V.nth(V.vl(res), 0)
        sel0 = A.selection_set
        out = {
            "resolved-only-for-a-class-name-not-generated-before": z3.Not(known),
            "new-class-name-registered": pub1 == V.vl_concat(c0["public"], V.VCons(cn, V.VNil)),
            "class-named-as-asked": V.attr_of(first, ast.ClassDef, "name") == cn,
            "bases-are-the-sorted-fragment-classes-or-BaseModel-then-the-mixin-bases": V.attr_of(first, ast.ClassDef, "bases") == V.VList(bases),
            "one-annotated-assignment-per-resolved-field-in-order-or-pass": V.attr_of(first, ast.ClassDef, "body") == V.VList(body),
            "classes-of-the-fields-follow-in-field-order": V.vl(res) == V.VCons(first, SUBS(fields, cn, tn, tv)),
            "enums-of-every-field-recorded-in-order": en1 == V.vconcat(c0["enums"], ENUMS(fields, cn, tn, tv)),
            "scalars-of-every-field-recorded-in-order": sc1 == V.vconcat(c0["scalars"], SCALARS(fields, cn, tn, tv)),
            "fields-and-bases-resolved-once-for-this-selection-set-and-this-type": z3.And(z3.BoolVal(len(by["resolve"]) == 1), by["resolve"][0][0] == sel0, by["resolve"][0][1] == tn),
        }
        ok = [V.vb(A.add_typename) == z3.BoolVal(len(at) == 1), z3.BoolVal(len(at) <= 1)]
        if at:
            ok += [at[0][0] == FIELDS, at[0][1] == sel0,
                   V.attr_of(A.final_selection_set, G.SelectionSetNode, "selections") == SELECTIONS_T]       # the authored selection set gets __typename too
        else:
            ok += [A.final_selection_set == A.selection_set]
        out["typename-added-exactly-at-abstract-positions-also-to-the-text-that-is-sent"] = z3.And(*ok)
        me = A.self
        pof = by.get("parse_operation_field", [])
        out["every-field-parsed-with-the-generators-schema-scalars-and-fragments"] = z3.And(z3.BoolVal(True), *[
            z3.And(c[0] == V.attr_of(me, RT.ResultTypesGenerator, "schema"), c[1] == V.attr_of(me, RT.ResultTypesGenerator, "custom_scalars"),
                   c[2] == V.attr_of(me, RT.ResultTypesGenerator, "fragments_definitions")) for c in pof])
        return out

    def replay_custom(self, inputs):
        from .e2e_results import check_operation, OPS
        rep = dict(inputs={"operations": ["named_fragments", "interface_with_inline", "repeated_field_under_aliases"]}, failed=[], undetermined=[], pre_ok=True, outcome={}, error=None)
        for n in rep["inputs"]["operations"]:
            r = check_operation(n, OPS[n], with_corruptions=False)
            rep["outcome"][n] = r["failed"]
            if r["failed"]:
                rep["failed"].append("post.one-annotated-assignment-per-resolved-field-in-order-or-pass")
        return rep

    def samples(self, tier):
        return [dict(case="operations")]


def _str(I, t):
    I.p.assume(V.is_VStr(t))
    return t


CONTRACTS = [ParseOperationFieldAtCalls(), PascalAtCalls(), ParseTypeDefinition()]


# ------------------------------------------------------------------------------------------ the classes of one field
TYPENAMES = z3.Function("typename_values_of_field", Val, Val)                   # self._get_typename_values(field context): type name -> values
CLASSES_OF = z3.Function("classes_generated_for", Val, Val, Val, Val, Val, Val, Val)   # self._parse_type_definition(class name, type name, selection set, add typename, extra bases, typename values)
RELATED = Cls(RF.RelatedClassData, class_name=Str, type_name=GQ.NAME)
ALL_CLASSES = z3.Function("classes_of_the_related", V.VL, Val, Val, Val, Val, V.VL)   # (related classes, selection set, abstract, extra bases, typename values by type)


def classes_piece(rc, sel, abstract, extra, tv_by_type):
    tn = V.attr_of(rc, RF.RelatedClassData, "type_name")
    return CLASSES_OF(V.attr_of(rc, RF.RelatedClassData, "class_name"), tn, sel, abstract, extra, get(tv_by_type, tn))


def _fst_inv(rest, xs, st, I, env):
    sel, extra = V.lower(env.lookup("selection_set")), V.lower(env.lookup("extra_bases"))
    fc = V.lower(env.lookup("field_context"))
    abstract = V.attr_of(fc, RF.FieldContext, "abstract_type")
    tv = TYPENAMES(fc)
    cur = V.vl(st["generated_classes"])
    rs = z3.simplify(rest)
    args = (sel, abstract, extra, tv)
    if z3.is_app(rs) and rs.decl().name() == "VCons":
        x, r1 = rs.arg(0), rs.arg(1)
        p, tail = V.vl(classes_piece(x, *args)), ALL_CLASSES(r1, *args)
        V.LEMMAS.append(ALL_CLASSES(rs, *args) == V.vl_concat(p, tail))                                           # defining equation at x :: rest'
        V.LEMMAS.append(V.vl_concat(V.vl_concat(cur, p), tail) == V.vl_concat(cur, V.vl_concat(p, tail)))          # associativity instance
    if z3.is_app(rs) and rs.decl().name() == "VNil":
        V.LEMMAS.append(ALL_CLASSES(V.VNil, *args) == V.VNil)
        return cur == ALL_CLASSES(xs, *args)
    return V.vl_concat(cur, ALL_CLASSES(rest, *args)) == ALL_CLASSES(xs, *args)


_fst_inv.extra_mutated = [("generated_classes",)]


class ParseFieldSelectionSetTypes(Contract):
    """the classes generated for one field: nothing without a selection set; otherwise, for every related class of the field in order,
    the classes _parse_type_definition generates for THAT class name and type from THIS selection set, with __typename added iff the
    position is abstract, the field's @mixin bases, and the typename values computed for that type - concatenated in order"""
    props = ("C01", "C05", "C08", "C09")
    target = MOD + "_parse_field_selection_set_types"
    use_at_calls = False
    frame_args = False
    assume_proved = True
    trusted = ["_get_typename_values and _parse_type_definition are uninterpreted stand-ins here (the first has an entry for every related type; the second has its contract above)"]
    loops = {"ResultTypesGenerator._parse_field_selection_set_types": _fst_inv}

    def setup(self, E):
        from pyvc.interp import ModelMethod
        s = self_obj(RT.ResultTypesGenerator, {})
        related = E.sym("related_classes", ListOf(RELATED, name="related_classes_of_the_field"))
        fc = Obj(RF.FieldContext, dict(definitions=E.sym("definitions", Any), enums=E.sym("enums", Pred(V.is_VList, "list")), custom_scalars=E.sym("scalars", Pred(V.is_VList, "list")),
                                       related_classes=related, abstract_type=E.sym_bool("abstract_type")))

        def typename_values(I, o, a, k):
            fct = V.lower(a[0]) if a else V.lower(k["field_context"])
            r = TYPENAMES(fct)
            I.p.assume(V.is_VDict(r))
            I.ctx.__dict__.setdefault("dict_value_shapes", {})
            return SV(r)

        def parse_type_definition(I, o, a, k):
            if a:
                from pyvc.interp import Unsupported
                raise Unsupported("positional arguments to _parse_type_definition")
            r = CLASSES_OF(*[V.lower(k.get(n)) for n in ("class_name", "type_name", "selection_set", "add_typename", "extra_bases", "typename_values")])
            I.p.assume(V.is_VList(r))
            return SV(r)
        s.attrs["_get_typename_values"] = ModelMethod(s, typename_values, "_get_typename_values")
        s.attrs["_parse_type_definition"] = ModelMethod(s, parse_type_definition, "_parse_type_definition")
        # every related type has its typename values (what _get_typename_values returns is keyed by the related classes' types)
        self._fc = fc
        return [s], dict(selection_set=E.sym("selection_set", Opt(Cls(G.SelectionSetNode))), field_context=fc, extra_bases=E.sym("extra_bases", Opt(ListOf(Str, name="mixin_bases_of_the_field"))))

    def requires(self, A):
        return z3.BoolVal(True)

    def ensures(self, A, res):
        fc = A.field_context
        rel = V.vl(V.attr_of(fc, RF.FieldContext, "related_classes"))
        args = (A.selection_set, V.attr_of(fc, RF.FieldContext, "abstract_type"), A.extra_bases, TYPENAMES(fc))
        V.LEMMAS.append(z3.Implies(V.is_VNil(rel), ALL_CLASSES(rel, *args) == V.VNil))
        return {"one-run-of-the-class-generation-per-related-class-in-order-with-its-own-typename-values":
                res == V.VList(z3.If(truthy(A.selection_set), ALL_CLASSES(rel, *args), V.VNil))}

    def on_raise(self, A, exc_cls, exc):
        # typename_values[type] raises KeyError only when _get_typename_values has no entry for a related type
        if exc_cls is KeyError:
            return {"only-when-a-related-type-has-no-typename-values": z3.BoolVal(True)}
        return {"none": z3.BoolVal(False)}

    def replay_custom(self, inputs):
        return ParseTypeDefinition.replay_custom(self, inputs)

    def samples(self, tier):
        return [dict(case="operations")]


CONTRACTS.append(ParseFieldSelectionSetTypes())


# ------------------------------------------------------------------------------------------ automatic __typename
field_names = SpecMap("resolved_field_names", lambda f: fname_node(f))


class AddTypenameFieldToSelections(Contract):
    """the documented rewrite `automatic __typename in abstract selections`: when no resolved field is `__typename`, a plain
    `__typename` field is put in front of the resolved fields AND in front of the authored selections (the text that is sent) - the
    same node in both; when one is there already, both are returned as they are"""
    props = ("C01", "C02", "C05")
    target = MOD + "_add_typename_field_to_selections"
    use_at_calls = False
    frame_args = True
    assume_proved = True

    def setup(self, E):
        fields = E.sym("resolved_fields", ListOf(FIELD_SHAPE, name="resolved_fields_atf"))
        sel = Obj(G.SelectionSetNode, {"selections": E.sym("authored_selections", Pred(V.is_VTuple, "tuple"))})
        return [self_obj(RT.ResultTypesGenerator, {}), fields, sel], {}

    def ensures(self, A, res):
        fs = V.vl(A.resolved_fields)
        p = A.get("__path__")
        names = field_names.apply(p, fs) if p is not None else field_names(fs)
        there = V.vl_contains(names, S(K.TYPENAME_FIELD_NAME))
        sels = V.attr_of(A.selection_set, G.SelectionSetNode, "selections")
        out_fields, out_sels = V.nth(V.vt(res), 0), V.nth(V.vt(res), 1)
        node = V.nth(V.vl(out_fields), 0)
        plain = z3.And(GQ.is_cls(node, V.REG.info(G.FieldNode)), fname_node(node) == S(K.TYPENAME_FIELD_NAME),
                       V.is_VNone(V.attr_of(node, G.FieldNode, "alias")), z3.Not(truthy(V.attr_of(node, G.FieldNode, "directives"))),
                       V.is_VNone(V.attr_of(node, G.FieldNode, "selection_set")), z3.Not(truthy(V.attr_of(node, G.FieldNode, "arguments"))))
        return {"unchanged-when-typename-is-selected-already": z3.Implies(there, z3.And(out_fields == A.resolved_fields, out_sels == sels)),
                "a-plain-typename-field-in-front-of-the-fields-and-of-the-authored-selections": z3.Implies(z3.Not(there), z3.And(
                    plain, out_fields == V.VList(V.VCons(node, fs)), out_sels == V.VTuple(V.VCons(node, V.vt(sels)))))}

    def replay_custom(self, inputs):
        g = RT.ResultTypesGenerator.__new__(RT.ResultTypesGenerator)
        rep = dict(inputs={"selection sets": 3}, failed=[], undetermined=[], pre_ok=True, outcome={}, error=None)
        for src in ("{ id name }", "{ id __typename }", "{ kind: __typename id }", "{ }" if False else "{ id }"):
            ss = G.parse(src).definitions[0].selection_set
            fields = [s for s in ss.selections]
            f2, s2 = g._add_typename_field_to_selections(list(fields), ss)
            has = any(f.name.value == "__typename" for f in fields)
            ok = (f2 == fields and tuple(s2) == tuple(ss.selections)) if has else (
                len(f2) == len(fields) + 1 and f2[0].name.value == "__typename" and f2[0].alias is None and f2[1:] == fields and s2[0] is f2[0] and tuple(s2[1:]) == tuple(ss.selections))
            rep["outcome"][src] = [f.name.value for f in f2]
            if not ok:
                rep["failed"].append("post.a-plain-typename-field-in-front-of-the-fields-and-of-the-authored-selections" if not has else "post.unchanged-when-typename-is-selected-already")
        return rep

    def samples(self, tier):
        return [dict(case="selection sets")]


CONTRACTS.append(AddTypenameFieldToSelections())
