"""C06 - input models accept exactly the schema's input values, with its defaults.  (also serves C07, C03, C19)

parse_input_field_type: the declared Python type of an input field is the image of its GraphQL type:
Optional iff nullable, List iff list, *list items nullable unless NonNull*, enum -> enum class, input object -> quoted
class name, built-in scalar -> fixed map, configured custom scalar -> its type (Annotated with PlainSerializer when
a serializer is configured, inside every Optional/List wrapper, once), anything else -> Any."""
import ast
import z3
import graphql as G
from pyvc import val as V
from pyvc.val import SV, Obj
from pyvc.contract import Contract
from pyvc.spec import *   # noqa
from . import lib_graphql as GQ
from ariadne_codegen.client_generators import input_fields as IF
from ariadne_codegen.client_generators import scalars as SC
from ariadne_codegen.client_generators import constants as K

# the statement's fixed map of built-in scalars - written down here, NOT read from the repository's constants (an oracle must
# not move with the code it judges); the names of typing constructs (Optional, List, ...) are taken from the constants module
SPEC_SIMPLE_TYPE_MAP = {"String": "str", "ID": "str", "Int": "int", "Boolean": "bool", "Float": "float"}
SPEC_INPUT_SCALARS_MAP = dict(SPEC_SIMPLE_TYPE_MAP, Upload="Upload")
SD_FIELDS = ["type_", "serialize", "parse", "import_", "graphql_name", "type_name", "parse_name", "serialize_name", "names_to_import"]
SCALARDATA = V.REG.register(SC.ScalarData, SD_FIELDS,
                            build=lambda **f: SC.ScalarData(type_=f.get("type_name") or "T", serialize=f.get("serialize_name"),
                                                            parse=f.get("parse_name"), graphql_name=f.get("graphql_name") or ""))
IDENT = GQ.NAME
SCALAR_DATA = Cls(SC.ScalarData, type_name=IDENT, serialize_name=Opt(IDENT), parse_name=Opt(IDENT))
SCALARS = Opt(DictOf(GQ.NAME, SCALAR_DATA, name="custom_scalars"))


def name_(s):
    return mk(ast.Name, id=s)


def sub(value, slice_):
    return mk(ast.Subscript, value=value, slice=slice_)


def opt(n, a):
    return z3.If(n, sub(name_(K.OPTIONAL), a), a)


def sd(field, d):
    return V.attr_of(d, SC.ScalarData, field)


def input_scalar_ann(d):
    """leaf annotation of a configured custom scalar in input position"""
    base = name_(sd("type_name", d))
    ser = sd("serialize_name", d)
    return z3.If(truthy(ser),
                 sub(name_(K.ANNOTATED), mk(ast.Tuple, elts=lst(base, mk(ast.Call, func=name_(K.PLAIN_SERIALIZER),
                                                                         args=lst(name_(ser)), keywords=lst())))),
                 base)


def in_map(nm, table):
    r = name_(K.ANY)
    for k, v in reversed(list(table.items())):
        r = z3.If(nm == S(k), name_(v), r)
    return r


def configured(sc, nm):
    return z3.And(truthy(sc), has(sc, nm))


img_in = z3.RecFunction("img_in", V.Val, z3.BoolSort(), V.Val, V.Val)
leaf_in = z3.RecFunction("leaf_in", V.Val, V.Val, V.Val)
_t, _n, _sc = z3.Const("t", V.Val), z3.Bool("n"), z3.Const("sc", V.Val)
_nm = GQ.name_of(_t)
_quoted = V.VStr(z3.Concat(V.S('"'), V.vs(_nm), V.S('"')))
z3.RecAddDefinition(img_in, [_t, _n, _sc],
    z3.If(GQ.is_cls(_t, GQ.SCALAR),
          z3.If(in_strs(_nm, list(SPEC_INPUT_SCALARS_MAP)), opt(_n, in_map(_nm, SPEC_INPUT_SCALARS_MAP)),
                z3.If(configured(_sc, _nm), opt(_n, input_scalar_ann(get(_sc, _nm))), opt(_n, name_(K.ANY)))),
    z3.If(GQ.is_cls(_t, GQ.INPUT), opt(_n, name_(_quoted)),
    z3.If(GQ.is_cls(_t, GQ.ENUM), opt(_n, name_(_nm)),
    z3.If(GQ.is_cls(_t, GQ.LIST), opt(_n, sub(name_(K.LIST), img_in(GQ.of_type(_t), z3.BoolVal(True), _sc))),
          img_in(GQ.of_type(_t), z3.BoolVal(False), _sc))))))
z3.RecAddDefinition(leaf_in, [_t, _sc],
    z3.If(GQ.is_cls(_t, GQ.SCALAR),
          z3.If(z3.And(z3.Not(in_strs(_nm, list(SPEC_INPUT_SCALARS_MAP))), configured(_sc, _nm)), _nm, S("")),
    z3.If(z3.Or(GQ.is_cls(_t, GQ.INPUT), GQ.is_cls(_t, GQ.ENUM)), _nm, leaf_in(GQ.of_type(_t), _sc))))


class ParseInputFieldType(Contract):
    props = ("C06", "C07", "C03")
    target = "ariadne_codegen.client_generators.input_fields:parse_input_field_type"
    trusted = GQ.TRUSTED + ["pydantic: Optional[T] accepts None, List[T] accepts lists of T, Annotated[T, PlainSerializer(f)] serialises through f"]

    def setup(self, E):
        return [], dict(type_=E.sym("type_", GQ.IN_TYPE), nullable=E.sym_bool("nullable"),
                        custom_scalars=E.sym("custom_scalars", SCALARS))

    def decreases(self, A):
        return A.type_

    def result_term(self, A):
        return tup(img_in(A.type_, V.vb(A.nullable), A.custom_scalars), leaf_in(A.type_, A.custom_scalars))

    def ensures(self, A, res):
        return {"annotation-is-image-of-graphql-type": V.nth(V.vt(res), 0) == img_in(A.type_, V.vb(A.nullable), A.custom_scalars),
                "leaf-type-name": V.nth(V.vt(res), 1) == leaf_in(A.type_, A.custom_scalars),
                "is-pair": z3.And(V.is_VTuple(res), V.vl_len(V.vt(res)) == 2)}

    def samples(self, tier):
        I, L, N = G.GraphQLInt, G.GraphQLList, G.GraphQLNonNull
        E_ = GQ.ENUM.build("Color")
        In = GQ.INPUT.build("Filter")
        D = G.GraphQLScalarType("DateTime")
        sc = {"DateTime": SC.ScalarData(type_="datetime", serialize="ser")}
        ts = [I, N(I), L(N(I)), N(L(N(I))), E_, N(In), L(L(N(E_))), D, N(L(N(D))), G.GraphQLScalarType("Other")]
        return [dict(type_=t, nullable=n, custom_scalars=s) for t in ts for n in (True, False) for s in (None, sc)]


CONTRACTS = [ParseInputFieldType()]


# ------------------------------------------------------------------------------------------ default literals
from pyvc import models as M   # noqa

# ghost: name of the schema's leaf named type at the position of a literal (for the items of a list literal it is the
# list's own leaf type; for the fields of an object literal it is whatever the schema declares for that field)
LEAF_AT = z3.Function("leaf_type_at", V.Val, V.Val)
ENUM_TYPE_AT = LEAF_AT


def const(v):
    return mk(ast.Constant, value=v)


def call(func, args=(), keywords=()):
    return mk(ast.Call, func=func, args=lst(*args), keywords=lst(*keywords))


EMPTY_ARGS = mk(ast.arguments, posonlyargs=lst(), args=lst(), vararg=None, kwonlyargs=lst(), kw_defaults=lst(), kwarg=None,
                defaults=lst())


def field_default_factory(body):
    return call(name_(K.FIELD_CLASS), keywords=[mk(ast.keyword, arg="default_factory", value=mk(ast.Lambda, args=EMPTY_ARGS, body=body))])


def is_lit(t, cls):
    return GQ.is_cls(t, GQ.LIT_CLASSES[cls])


def lit_value(t):
    return V.nth(V.fs_of(t), 0)


lit_expr = z3.RecFunction("lit_expr", V.Val, V.Val, z3.BoolSort(), z3.BoolSort(), V.Val)
_PS = (V.Val, z3.BoolSort())
lit_items = SpecMap("lit_items", lambda v, ft, no: lit_expr(v, ft, z3.BoolVal(True), no), param_sorts=_PS)
lit_keys = SpecMap("lit_keys", lambda f: const(V.attr_of(V.attr_of(f, G.ObjectFieldNode, "name"), G.NameNode, "value")))
lit_vals = SpecMap("lit_vals", lambda f, ft: lit_expr(V.attr_of(f, G.ObjectFieldNode, "value"), ft, z3.BoolVal(True), z3.BoolVal(True)),
                   param_sorts=(V.Val,))
import keyword as _kw
KWLIST = list(_kw.kwlist)
_node, _ft, _nl, _no = z3.Const("node", V.Val), z3.Const("ft", V.Val), z3.Bool("nl"), z3.Bool("no")
_val = lit_value(_node)
_list = mk(ast.List, elts=V.VList(lit_items(V.vt(_val), _ft, _no)))
_dict = mk(ast.Dict, keys=V.VList(lit_keys(V.vt(_val))), values=V.VList(lit_vals(V.vt(_val), _ft)))
_validate = call(mk(ast.Attribute, value=sub(call(name_("globals")), const(_ft)), attr=K.MODEL_VALIDATE_METHOD), args=[_dict])
z3.RecAddDefinition(lit_expr, [_node, _ft, _nl, _no],
    z3.If(is_lit(_node, G.IntValueNode), const(V.VInt(M.str_to_int(V.vs(_val)))),
    z3.If(is_lit(_node, G.FloatValueNode), const(V.VFloat(M.str_to_float(V.vs(_val)))),
    z3.If(is_lit(_node, G.StringValueNode), const(_val),
    z3.If(is_lit(_node, G.BooleanValueNode), const(_val),
    z3.If(is_lit(_node, G.NullValueNode), const(V.VNone),
    # an enum literal denotes the member of the enum type *of its position* (ghost leaf_type_at); inside an object
    # literal the enclosing <Model>.model_validate coerces the value name to the member (assumed pydantic contract), and
    # the function is not told the position's type, so the value name is emitted
    # the member is named like the value, with "_" appended when the value is a Python keyword (how EnumsGenerator names
    # the members of the generated enum class - stated here independently of both functions)
    z3.If(is_lit(_node, G.EnumValueNode),
          z3.If(_no, const(_val), name_(V.VStr(z3.Concat(V.vs(ENUM_TYPE_AT(_node)), V.S("."), V.vs(_val),
                                                         z3.If(z3.InRe(V.vs(_val), z3.Union(*[z3.Re(k) for k in KWLIST])), V.S("_"), V.S("")))))),
    # a list is emitted as a plain list; only the outermost default is wrapped in Field(default_factory=...)
    z3.If(is_lit(_node, G.ListValueNode), z3.If(_nl, _list, field_default_factory(_list)),
    # an object literal: plain dict inside another object (validated by the enclosing model_validate); otherwise
    # the model built by <type>.model_validate(dict), wrapped in Field(default_factory=...) only at the outermost level
          z3.If(_no, _dict, z3.If(_nl, _validate, field_default_factory(_validate)))))))))))


class ParseInputConstValueNode(Contract):
    props = ("C06", "C19")
    target = "ariadne_codegen.client_generators.input_fields:parse_input_const_value_node"
    trusted = ["pydantic: Field(default_factory=f) calls f() for each instance created without the field; "
               "<Model>.model_validate(dict) builds the model, coercing nested dicts to nested models and enum values to members",
               "int()/float() of the literal text: uninterpreted (the GraphQL lexer guarantees a valid literal)"]

    def setup(self, E):
        node = E.sym("node", GQ.LIT)
        ft = E.sym("field_type", Str)
        nl, no = E.sym_bool("nested_list"), E.sym_bool("nested_object")
        # ghost axiom: the items of a list literal sit at positions with the list's leaf type
        xs = z3.simplify(V.vt(lit_value(node.t)))
        table = E.ctx.__dict__.setdefault("elem_shapes", {})
        prev = table.get(xs.get_id())
        fact = lambda v, _n=node.t: z3.Implies(is_lit(_n, G.ListValueNode), LEAF_AT(v) == LEAF_AT(_n))
        table[xs.get_id()] = fact if prev is None else (lambda v, _a=prev, _b=fact: z3.And(_a(v), _b(v)))
        return [], dict(node=node, field_type=ft, nested_list=nl, nested_object=no)

    def requires(self, A):
        # call sites (parse_input_field_default_value) pass the leaf type name of the field: outside an object literal
        # that is the leaf type of the literal's position
        return z3.Implies(z3.Not(V.vb(A.nested_object)), A.field_type == LEAF_AT(A.node))

    def decreases(self, A):
        return A.node

    def result_term(self, A):
        return lit_expr(A.node, A.field_type, V.vb(A.nested_list), V.vb(A.nested_object))

    def ensures(self, A, res):
        p = A.get("__path__")
        if p is not None:
            xs = V.vt(lit_value(A.node))
            lit_items.apply(p, xs, A.field_type, V.vb(A.nested_object))
            lit_keys.apply(p, xs)
            lit_vals.apply(p, xs, A.field_type)
        return {"emitted-default-expression-denotes-the-literal": res == self.result_term(A)}


    # native replay: end to end, against the property statement itself -------------------------------------------
    def replay_custom(self, inputs):
        from .e2e_defaults import check_default_literal
        lit = inputs["node"]
        # embed the literal in the context the flags describe
        if inputs.get("nested_object"):
            lit = G.ObjectValueNode(fields=(G.ObjectFieldNode(name=G.NameNode(value="w"), value=lit),))
        elif inputs.get("nested_list") and not isinstance(lit, G.ListValueNode):
            lit = G.ListValueNode(values=(lit,))
        return check_default_literal(lit)

    def samples(self, tier):
        lits = ['1', '1.5', '"s"', 'true', 'null', 'A', '[1, 2]', '[[1], [2, 3]]', '[A, B]', '{x: 1}', '{x: {y: "z"}}',
                '{x: [1, 2]}', '[]', '{}', '{e: B}', '[{x: 1}]', '[[{e: A}]]', '{x: {e: A, l: [B, A]}}', '[null, 1]',
                '{x: null}', '[{x: [{y: A}]}]']
        return [dict(node=G.parse_const_value(l)) for l in lits]


CONTRACTS.append(ParseInputConstValueNode())
