"""C19 - the schema source does not change the generated client (second sentence: introspection failures surface as
the introspection error; configured headers, with $ENV substitution, and the TLS flag are what is sent).
Also serves C17 (header resolution, frame)."""
import os
import httpx
import z3
from pyvc import val as V
from pyvc import models
from pyvc.val import SV, Obj, MDict
from pyvc.contract import Contract
from pyvc.interp import PyRaise
from pyvc.spec import *   # noqa
from . import lib_http as H
from ariadne_codegen import schema as SCH
from ariadne_codegen import settings as ST
from ariadne_codegen import exceptions as EX

for _c in (EX.IntrospectionError, EX.InvalidConfiguration, EX.MissingConfiguration, EX.InvalidGraphqlSyntax, EX.InvalidOperationForSchema):
    V.REG.register(_c, ["args"])

POST_OUTCOME = z3.Int("httpx_post_outcome")     # 0 response, 1 InvalidURL, 2 UnsupportedProtocol (URL without scheme)
POST_RESPONSE = z3.Const("introspection_response", V.Val)


def _httpx_post(I, args, kwargs):
    """assumed: httpx.post(url, json=, headers=, verify=) sends exactly these; it answers with a response or raises
    httpx.InvalidURL / httpx.UnsupportedProtocol for a bad URL (transport failures are outside the statement)"""
    I.p.effect("http_post", dict(url=args[0] if args else kwargs.get("url"), **{k: v for k, v in kwargs.items() if k != "url"}))
    models._used("httpx.post: response | InvalidURL | UnsupportedProtocol")
    if I.p.branch(POST_OUTCOME == 0, "httpx.post:response"):
        return SV(POST_RESPONSE)
    if I.p.branch(POST_OUTCOME == 1, "httpx.post:InvalidURL"):
        raise PyRaise(httpx.InvalidURL("bad url"))
    raise PyRaise(httpx.UnsupportedProtocol("Request URL is missing an 'http://' or 'https://' protocol."))


models.NATIVE[httpx.post] = _httpx_post


class IntrospectRemoteSchema(Contract):
    props = ("C19", "C17")
    target = "ariadne_codegen.schema:introspect_remote_schema"
    trusted = H.TRUSTED + ["httpx.post raises InvalidURL / UnsupportedProtocol for a malformed URL or one without scheme"]
    use_at_calls = False

    def setup(self, E):
        from pyvc.shapes import assume_shape
        assume_shape(E.p, H.RESPONSE, POST_RESPONSE)
        E.ctx.inputs["response"] = POST_RESPONSE
        E.ctx.inputs["post_outcome"] = V.VInt(POST_OUTCOME)
        E.assume(z3.And(POST_OUTCOME >= 0, POST_OUTCOME <= 2))
        return [], dict(url=E.sym("url", Str), headers=E.sym("headers", Opt(DictOf(Str, Str, name="hdrs19"))),
                        verify_ssl=E.sym_bool("verify_ssl"))

    def _ok(self, A):
        r = POST_RESPONSE
        body = H.resp_json(r)
        return z3.And(POST_OUTCOME == 0, H.is_2xx(r), H.resp_kind(r) == 0, V.is_VDict(body), has(body, "data"),
                      z3.Not(truthy(get(body, "errors"))), V.is_VDict(get(body, "data")))

    def _sent(self, A):
        posts = [p for k, p in A["__effects__"] if k == "http_post"]
        if len(posts) != 1:
            return z3.BoolVal(False)
        p = V.lower(posts[0])
        q = get(p, "json")
        return z3.And(get(p, "url") == A.url, get(p, "headers") == A.headers, get(p, "verify") == A.verify_ssl,
                      V.is_VDict(q), has(q, "query"))

    def ensures(self, A, res):
        return {"returns-only-for-well-formed-introspection-result": self._ok(A),
                "returns-the-data-member": res == get(H.resp_json(POST_RESPONSE), "data"),
                "sends-url-headers-and-tls-flag-as-configured": self._sent(A)}

    def on_raise(self, A, exc_cls, exc):
        if exc_cls is EX.IntrospectionError:
            return {"introspection-error-only-on-failure": z3.Not(self._ok(A)),
                    "sends-url-headers-and-tls-flag-as-configured": self._sent(A)}
        return {"failures-surface-as-the-introspection-error": z3.BoolVal(False)}

    def replay_custom(self, inputs):
        return replay_introspection(inputs)

    def samples(self, tier):
        good = {"data": {"__schema": {}}}
        out = []
        for oc, status, kind, body in [(0, 200, 0, good), (0, 500, 0, good), (0, 200, 1, None), (0, 200, 2, None), (0, 200, 0, []),
                                       (0, 200, 0, {}), (0, 200, 0, {"data": {}, "errors": [{"message": "x"}]}), (0, 200, 0, {"data": None}),
                                       (0, 200, 0, {"data": []}), (1, 200, 0, good), (2, 200, 0, good), (0, 301, 0, good),
                                       # errors next to (partial) data are errors all the same: no schema is built from such an answer
                                       (0, 200, 0, {"data": {"__schema": {}}, "errors": [{"message": "field stripped"}]}),
                                       (0, 200, 0, {"errors": [{"message": "x"}], "data": {"__schema": {"types": []}}})]:
            out.append(dict(post_outcome=oc, response=H._build_response(status, kind, body), url="http://x/graphql",
                            headers={"Authorization": "t"}, verify_ssl=False))
        return out


def replay_introspection(inputs):
    """native replay: the real function against httpx.MockTransport (patched httpx.post) for the concretised outcome"""
    from unittest import mock
    rep = dict(inputs={k: str(v)[:200] for k, v in inputs.items()}, failed=[], undetermined=[], pre_ok=True, outcome=None, error=None)
    oc = inputs.get("post_outcome", 0)
    resp = inputs.get("response")
    url = inputs.get("url") if isinstance(inputs.get("url"), str) else "http://x/graphql"
    seen = {}

    def fake_post(u, **kw):
        seen.update(url=u, **kw)
        if oc == 1:
            raise httpx.InvalidURL("bad url")
        if oc == 2:
            raise httpx.UnsupportedProtocol("Request URL is missing an 'http://' or 'https://' protocol.")
        return resp
    headers = inputs.get("headers")
    with mock.patch.object(SCH.httpx, "post", fake_post):
        try:
            out = SCH.introspect_remote_schema(url, headers=headers, verify_ssl=bool(inputs.get("verify_ssl")))
            rep["outcome"] = {"return": str(out)[:200]}
            ok = oc == 0 and resp is not None and resp.is_success
            try:
                body = resp.json()
                ok = ok and isinstance(body, dict) and "data" in body and not body.get("errors") and isinstance(body["data"], dict)
            except Exception:   # noqa
                ok = False
            if not ok:
                rep["failed"].append("post.returns-only-for-well-formed-introspection-result")
        except EX.IntrospectionError as e:
            rep["outcome"] = {"raise": "IntrospectionError", "message": str(e)[:200]}
        except Exception as e:   # noqa
            rep["outcome"] = {"raise": type(e).__name__, "message": str(e)[:200]}
            rep["failed"].append(f"raises[{type(e).__name__}].failures-surface-as-the-introspection-error")
    if seen and (seen.get("headers") != headers or seen.get("verify") != bool(inputs.get("verify_ssl")) or seen.get("url") != url):
        rep["failed"].append("post.sends-url-headers-and-tls-flag-as-configured")
    return rep


# ------------------------------------------------------------------------------------------ header resolution
ENV = z3.Const("os_environ", V.Val)


def _environ_get(I, args, kwargs):
    models._used("os.environ.get: lookup in the process environment (a str->str mapping)")
    k = V.lower(args[0])
    return SV(V.dget(V.vd(ENV), k, V.lower(args[1]) if len(args) > 1 else V.VNone))


models.NATIVE[os.environ.get] = _environ_get
ENV_SHAPE = DictOf(Str, Str, name="environ")


class GetHeaderValue(Contract):
    props = ("C19", "C17")
    target = "ariadne_codegen.settings:get_header_value"

    def setup(self, E):
        from pyvc.shapes import assume_shape
        assume_shape(E.p, ENV_SHAPE, ENV)
        E.ctx.inputs["environ"] = ENV
        return [E.sym("value", Str)], {}

    def requires(self, A):
        # `$NAME`: one leading dollar sign (what the documentation describes); `$$NAME` is left unspecified
        return z3.Not(z3.PrefixOf(V.S("$$"), V.vs(A.value)))

    def _parts(self, A):
        v = V.vs(A.value)
        is_var = z3.PrefixOf(V.S("$"), v)
        name = z3.SubString(v, 1, z3.Length(v) - 1)
        return v, is_var, get(ENV, V.VStr(name))

    def result_term(self, A):
        v, is_var, var_value = self._parts(A)
        return z3.If(is_var, var_value, A.value)

    def may_raise(self, A, I):
        v, is_var, var_value = self._parts(A)
        return [(EX.InvalidConfiguration, z3.And(is_var, z3.Not(truthy(var_value))),
                 Obj(EX.InvalidConfiguration, {"args": (SV(I.p.fresh("msg")),)}))]

    def ensures(self, A, res):
        v, is_var, var_value = self._parts(A)
        return {"plain-values-unchanged": z3.Implies(z3.Not(is_var), res == A.value),
                "variables-substituted-from-the-environment": z3.Implies(is_var, z3.And(truthy(var_value), res == var_value))}

    def on_raise(self, A, exc_cls, exc):
        v, is_var, var_value = self._parts(A)
        if exc_cls is EX.InvalidConfiguration:
            return {"raises-only-for-unresolvable-variable": z3.And(is_var, z3.Not(truthy(var_value)))}
        return {"typed-error": z3.BoolVal(False)}

    def native_args(self, inputs):
        return [inputs["value"]], {}

    def replay_custom(self, inputs):
        from unittest import mock
        rep = dict(inputs={k: str(v) for k, v in inputs.items()}, failed=[], undetermined=[], pre_ok=True, outcome=None, error=None)
        env = {k: v for k, v in (inputs.get("environ") or {}).items() if isinstance(k, str) and isinstance(v, str) and k and "\x00" not in k + v and "=" not in k}
        value = inputs["value"]
        with mock.patch.dict(os.environ, env, clear=True):
            try:
                out = ST.get_header_value(value)
                rep["outcome"] = {"return": out}
                if not value.startswith("$"):
                    ok = out == value
                else:
                    ok = env.get(value.lstrip("$")) == out and bool(out)
                if not ok:
                    rep["failed"].append("post.variables-substituted-from-the-environment" if value.startswith("$") else "post.plain-values-unchanged")
            except EX.InvalidConfiguration:
                rep["outcome"] = {"raise": "InvalidConfiguration"}
                if not (value.startswith("$") and not env.get(value.lstrip("$"))):
                    rep["failed"].append("raises[InvalidConfiguration].raises-only-for-unresolvable-variable")
            except Exception as e:   # noqa
                rep["outcome"] = {"raise": type(e).__name__}
                rep["failed"].append(f"raises[{type(e).__name__}].typed-error")
        return rep

    def samples(self, tier):
        return [dict(value=v, environ=e) for v in ("abc", "$TOKEN", "$MISSING", "", "$", "$token_v2", "$Api-Key", "$A1", "Bearer $TOKEN")
                for e in ({"TOKEN": "secret", "token_v2": "s2", "Api-Key": "k", "A1": "a"}, {"TOKEN": ""}, {})]



# ------------------------------------------------------------------------------------------ file discovery
# `sorted concatenation of graphql files`: walk_graphql_files yields exactly the entries of the tree whose suffix is
# one of the three extensions, each once, in glob order (whatever their names or directories are).
from . import lib_fakes as F      # noqa: E402


class FakeFile:
    """an entry delivered by Path.glob: a record (path, name, stem, suffix, regular file or not); nothing relates the fields
    (over-approximation)"""


FILE = V.REG.register(FakeFile, ["path", "name", "stem", "suffix", "regular"],
                      build=lambda path="f", name="f", stem="f", suffix="", regular=True: dict(path=path, name=name, stem=stem, suffix=suffix, regular=bool(regular)))
FILE.methods["is_file"] = lambda I, t, a, k: SV(V.attr_of(t, FakeFile, "regular"))
FILE.methods["is_dir"] = lambda I, t, a, k: SV(V.VBool(z3.Not(V.vb(V.attr_of(t, FakeFile, "regular")))))
FILE_SHAPE = Cls(FakeFile, path=Str, name=Str, stem=Str, suffix=Str, regular=Bool)
EXTENSIONS = (".graphql", ".graphqls", ".gql")


def _is_schema_file(f):
    """statement: `a directory tree of .graphql/.graphqls/.gql files`: a regular file with one of the three extensions"""
    return z3.And(V.vb(V.attr_of(f, FakeFile, "regular")), in_strs(V.attr_of(f, FakeFile, "suffix"), EXTENSIONS))


WALK = SpecMap("walk_yields", lambda f: F.event_term("yield", SV(f)), keep_fn=_is_schema_file)


class FakeDir:
    def _glob(I, o, a, k):
        from pyvc.interp import Unsupported
        if list(a) != ["**/*"] or k:
            raise Unsupported(f"Path.glob pattern {a!r}")
        I.p.effect("glob", a[0])
        entries = o.attrs["entries"]

        def elem(I2, x):
            I2.p.assume(FILE_SHAPE.pred(x))
        return Obj(F.TracedSource, {"xs": V.vl(entries.t), "events": lambda r: WALK(r), "elem": elem,
                                    "events_step": lambda x, r: z3.If(_is_schema_file(x), V.VCons(F.event_term("yield", SV(x)), WALK(r)), WALK(r))})
    __pyvc_methods__ = {"glob": _glob}


V.REG.register(FakeDir, [])


class WalkGraphqlFiles(Contract):
    props = ("C19",)
    target = "ariadne_codegen.schema:walk_graphql_files"
    trusted = ["pathlib: Path.glob('**/*') delivers every entry below the directory exactly once (files and directories); `suffix` is the last extension of the entry's name; is_file() tells a regular file"]
    use_at_calls = False
    frame_args = False

    def setup(self, E):
        entries = E.sym("entries", ListOf(FILE_SHAPE, name="glob_entries"))
        return [Obj(FakeDir, {"entries": entries})], {}

    def ensures(self, A, res):
        entries = A["entries"] if "entries" in A else z3.Const("entries", V.Val)
        return {"yields-exactly-the-files-with-a-graphql-extension/each-once/in-glob-order":
                    F.trace_term(A["__effects__"], kinds=("yield",)) == WALK(V.vl(entries))}

    def on_raise(self, A, exc_cls, exc):
        return {"does-not-raise": z3.BoolVal(False)}

    def replay_custom(self, inputs):
        return replay_walk(inputs)

    def samples(self, tier):
        return [dict(entries=[]), dict(entries=[dict(path="a/x.graphql", name="x.graphql", stem="x", suffix=".graphql"),
                                                 dict(path="b/x.graphql", name="x.graphql", stem="x", suffix=".graphql"),
                                                 dict(path="b/x.gql", name="x.gql", stem="x", suffix=".gql"),
                                                 dict(path="b/y.graphqls", name="y.graphqls", stem="y", suffix=".graphqls"),
                                                 dict(path="b/readme.txt", name="readme.txt", stem="readme", suffix=".txt"),
                                                 dict(path="b/dir", name="dir", stem="dir", suffix=""),
                                                 dict(path="b/dir.graphql", name="dir.graphql", stem="dir", suffix=".graphql", regular=False),
                                                 dict(path="b/a.types.v2.gql", name="a.types.v2.gql", stem="a.types.v2", suffix=".gql")])]


def replay_walk(inputs):
    """native replay: a real directory tree is built from the entries (one sub-directory per entry so that equal names can
    coexist; the entry's name is kept when it is a usable file name ending in its suffix) and the real generator is
    compared, as a set, with the entries carrying a graphql extension"""
    import re
    import shutil
    import tempfile
    from pathlib import Path
    rep = dict(inputs={"entries": inputs.get("entries")}, failed=[], undetermined=[], pre_ok=True, outcome=None, error=None)
    root = Path(tempfile.mkdtemp(prefix="walk_"))
    try:
        expected = set()
        for i, e in enumerate(inputs.get("entries") or []):
            e = e if isinstance(e, dict) else {}
            suffix = e.get("suffix") if isinstance(e.get("suffix"), str) and re.fullmatch(r"\.[A-Za-z0-9]+", e.get("suffix") or "") else ""
            name = e.get("name") if isinstance(e.get("name"), str) else ""
            if not (re.fullmatch(r"[A-Za-z0-9_.-]+", name or "") and name.endswith(suffix) and Path(name).suffix == suffix):
                name = f"f{i}{suffix}"
            d = root / f"d{i}"
            d.mkdir()
            regular = e.get("regular", True) is not False
            if regular:
                (d / name).write_text("type T%d { a: Int }" % i)
            else:
                (d / name).mkdir()
            if suffix in EXTENSIONS and regular:
                expected.add(str(d / name))
        got = [str(x) for x in SCH.walk_graphql_files(root)]
        rep["outcome"] = {"return": sorted(os.path.relpath(g, root) for g in got)}
        if set(got) != expected or len(got) != len(set(got)):
            rep["failed"].append("post.yields-exactly-the-files-with-a-graphql-extension/each-once/in-glob-order")
            rep["missing"] = sorted(os.path.relpath(x, root) for x in expected - set(got))
            rep["unexpected"] = sorted(os.path.relpath(x, root) for x in set(got) - expected)
    except Exception as e:     # noqa
        rep["error"] = f"{type(e).__name__}: {e}"
    finally:
        shutil.rmtree(root, ignore_errors=True)
    return rep


CONTRACTS = [IntrospectRemoteSchema(), GetHeaderValue(), WalkGraphqlFiles()]
