"""Bounded end-to-end stand-in for C02: the query text a generated method hands to the transport parses, is valid under
the full specification rule set, carries the operationName of its single operation and - after undoing the automatic
__typename and the removal of @mixin - equals the authored operation followed by exactly the reachable fragments."""
import ast
import asyncio
import json
import httpx
import graphql as G
from .e2e import generate_client

SCHEMA = """
interface Node { id: ID! }
interface Named implements Node { id: ID! name: String }
type City { name: String country: Country }
type Country { code: String }
type Address { street: String city: City }
type User implements Node & Named { id: ID! name: String address: Address friends(first: Int = 10, tag: String = "x"): [User!] }
type Bot implements Node { id: ID! model: String }
union Actor = User | Bot
type Query { me: User node(id: ID!): Node named: Named actor: Actor search(text: String!, opts: String = "d"): [Actor!] }
type Subscription { ticks(query: String): Int }
"""
FRAGS = """
fragment PersonBits on User { id name ...AddressBits }
fragment AddressBits on User { address { street ...CityBits } }
fragment CityBits on Address { city { name ...CountryBits } }
fragment CountryBits on City { country { code } }
fragment Unused on Bot { model }
fragment OnNode on Node { id ... on User { name } }
"""


def _ops(text):
    return FRAGS + text


SCENARIOS = {
    "fragment-chain-depth-4": _ops("query GetMe { me { ...PersonBits } }"),
    "fragments-shared-by-two-operations": _ops("query A { me { ...PersonBits } } query B { me { friends { ...AddressBits } } }"),
    "fragment-on-interface-and-inline": _ops("query N($id: ID!) { node(id: $id) { ...OnNode ... on Bot { model } } }"),
    "union-with-typename": _ops("query U { actor { __typename ... on User { ...PersonBits } ... on Bot { id } } }"),
    "aliases-arguments-directives-defaults": _ops('query Q($n: Int = 3, $inc: Boolean = true) { first: me { id friends(first: $n, tag: "t") @include(if: $inc) { id } } again: me { name @skip(if: false) } }'),
    "string-literal-plain": _ops('query S { search(text: "hello world") { __typename } }'),
    "string-literal-hash-and-equals": _ops('query S { search(text: "a#b=c") { __typename } }'),
    "string-literal-unicode": _ops('query S { search(text: "zażółć \\u00e9") { __typename } }'),
    "string-literal-double-quote-escape": _ops('query S { search(text: "say \\"hi\\"") { __typename } }'),
    "mixin-on-field": _ops('query M { me @mixin(from: "pyvc_mixins", import: "OpFieldMixin") { id } }'),
}
KNOWN = {
    "string-literal-single-quote": _ops('query S { search(text: "it\'s") { __typename } }'),
    "string-literal-newline-escape": _ops('query S { search(text: "a\\nb") { __typename } }'),
    "string-literal-block-string": _ops('query S { search(text: \"\"\"block\"\"\") { __typename } }'),
}
SCENARIOS["mixin-with-other-directives-on-field"] = FRAGS + ('query M($inc: Boolean = true) { me @mixin(from: "pyvc_mixins", import: "OpFieldMixin") '
                                                             '@include(if: $inc) { id name @skip(if: false) } }')
SCENARIOS["string-literal-backslash"] = FRAGS + 'query S { search(text: "C:\\\\temp \\\\ end") { __typename } }'
SCENARIOS["union-fragment-spread-directly-and-inside-another-used-fragment"] = FRAGS + (
    'fragment ResultParts on Actor { __typename ... on User { name } ... on Bot { model } }\n'
    'fragment Holder on User { id friends { ...PersonBits } }\n'
    'fragment Found on Query { search(text: "x") { ...ResultParts } }\n'
    'query Q { actor { ...ResultParts } ...Found me { ...Holder ...PersonBits } node(id: "1") { ...OnNode ... on User { ...Holder } } }')
SCENARIOS["several-operations-not-in-alphabetical-order"] = FRAGS + (
    'query Zeta { me { ...PersonBits } }\nquery Alpha($id: ID!) { node(id: $id) { ...OnNode } }\nquery Mid { actor { __typename ... on Bot { model } } }\n'
    'mutation_placeholder').replace("mutation_placeholder", 'query Beta { search(text: "b") { __typename } }')
# @mixin is documented for fields and fragment definitions; elsewhere it must be refused at load time or stripped - never sent
SCENARIOS["mixin-on-inline-fragment-and-fragment-spread"] = FRAGS + (
    'query M { me { ... on User @mixin(from: "pyvc_mixins", import: "OpFieldMixin") { id } ...PersonBits @mixin(from: "pyvc_mixins", import: "OpFieldMixin") } }')
# a fragment whose type condition is wider than the position it is spread at (union at a member object field, parent
# interface at a child-interface field): still part of the document that is sent
SCENARIOS["fragment-on-union-spread-at-a-member-object-field"] = FRAGS + (
    'fragment ActorParts on Actor { ... on User { name } ... on Bot { model } }\nquery Q { me { id ...ActorParts } }')
SCENARIOS["fragment-on-parent-interface-spread-at-a-child-interface-field"] = FRAGS + (
    'fragment NodeBits on Node { id }\nquery Q { named { name ...NodeBits } me { name ...NodeBits } }')
# a __typename the author wrote with an alias or a directive stays as written (the automatic one is added next to it or not at all)
SCENARIOS["authored-typename-with-alias-or-directive-at-abstract-positions"] = FRAGS + (
    'query T($v: Boolean!) { node(id: "1") { __typename @include(if: $v) id } me { kind: __typename id } }')
# text inside string literals that looks like GraphQL syntax (a directive, commas, braces, a comment, a spread, a variable): it is
# data and travels unchanged; a long operation header (many variable definitions with string defaults) is printed on one line by
# print_ast - however the generator lays the text out, the definitions and their defaults stay what the author wrote
SCENARIOS["string-literal-looking-like-a-directive"] = FRAGS + (
    'query S($t: String = "default @mixin(from: x) end") { search(text: "see @mixin(from: a, import: b) and @include(if: true) here", opts: $t) { __typename } }')
SCENARIOS["string-literal-with-syntax-characters"] = FRAGS + (
    'query S { a: search(text: "a, b { c } ...d $e # f ( g: h ) [i]") { __typename } b: search(text: "query Q { me }", opts: "x,  y ,z") { __typename } }')
SCENARIOS["long-operation-header-with-string-defaults"] = FRAGS + (
    'query LongHeader($firstGreeting: String = "Hello, world", $secondGreeting: String = "a, b, c", $limitOfFriends: Int = 10, '
    '$tagForFriends: String = "x, y", $idOfTheNode: ID = "n, 1", $textToSearchFor: String! = "one, two") { '
    'a: search(text: $textToSearchFor, opts: $firstGreeting) { __typename } b: search(text: "t", opts: $secondGreeting) { __typename } '
    'me { friends(first: $limitOfFriends, tag: $tagForFriends) { id } } node(id: $idOfTheNode) { id } }')
# a fragment that is unpacked (written on an interface, spread at an implementing type) is spread conditionally in one operation and
# plainly in others: every operation sends the fragment as its author wrote it (definitions are shared between operations)
SCENARIOS["conditional-spread-of-an-unpacked-fragment-shared-by-operations"] = FRAGS + (
    'fragment ContactParts on Named { name id }\n'
    'query Profile($withContact: Boolean!) { me { id ...ContactParts @include(if: $withContact) } }\n'
    'query Card { me { ...ContactParts } }\nquery Listing($hide: Boolean!) { me { friends { ...ContactParts @skip(if: $hide) } } }')
REFUSAL_OK = {"mixin-on-inline-fragment-and-fragment-spread"}
SCENARIOS["mixin-on-fragment-definition"] = FRAGS + 'fragment WithMixin on User @mixin(from: "pyvc_mixins", import: "FragDefMixin") { id }\nquery M { me { ...WithMixin } }'



def _strip(doc_node):
    """remove __typename selections and @mixin directives (the two documented rewrites)"""
    class V_(G.Visitor):
        def enter_field(self, node, *_):
            # only the plain `__typename` is what the generator adds by itself; an aliased or conditional one is the author's
            if node.name.value == "__typename" and node.alias is None and not node.directives:
                return G.REMOVE
            node.directives = tuple(d for d in node.directives if d.name.value != "mixin")
            return node

        def enter_fragment_definition(self, node, *_):
            node.directives = tuple(d for d in node.directives if d.name.value != "mixin")
            return node
    return G.visit(doc_node, V_())


def _reachable(op, frags):
    seen, stack = set(), [op]
    while stack:
        n = stack.pop()

        class C(G.Visitor):
            def enter_fragment_spread(self, node, *_):
                if node.name.value not in seen:
                    seen.add(node.name.value)
                    stack.append(frags[node.name.value])
        G.visit(n, C())
    return seen


def _canon(doc):
    doc = _strip(doc)
    ops = [d for d in doc.definitions if isinstance(d, G.OperationDefinitionNode)]
    frs = sorted((d for d in doc.definitions if isinstance(d, G.FragmentDefinitionNode)), key=lambda d: d.name.value)
    return [G.print_ast(d) for d in ops + frs]


def check_scenario(name, plugins=()):
    from .e2e_fragments import _mixins_module
    _mixins_module()
    text = SCENARIOS.get(name) or KNOWN[name]
    rep = dict(inputs={"scenario": name, "plugins": list(plugins)}, failed=[], undetermined=[], pre_ok=True, outcome={}, error=None)
    g = None
    try:
        authored = G.parse(text)
        schema = G.build_schema(SCHEMA + "\ndirective @mixin(from: String, import: String) repeatable on FIELD | FRAGMENT_DEFINITION")
        plain_schema = G.build_schema(SCHEMA)
        frags = {d.name.value: d for d in authored.definitions if isinstance(d, G.FragmentDefinitionNode)}
        g = generate_client(SCHEMA, text, plugins=list(plugins))
        sent = []

        def handler(request):
            sent.append(json.loads(request.content))
            return httpx.Response(200, json={"data": None, "errors": [{"message": "stop"}]})
        mod = g.module("client")
        client = mod.Client(url="http://x/graphql", http_client=httpx.AsyncClient(transport=httpx.MockTransport(handler)))
        for op in [d for d in authored.definitions if isinstance(d, G.OperationDefinitionNode)]:
            if op.operation == G.OperationType.SUBSCRIPTION:
                continue
            meth = getattr(client, _snake(op.name.value))
            kwargs = {}
            for v in op.variable_definitions:
                if isinstance(v.type, G.NonNullTypeNode):
                    kwargs[_snake(v.variable.name.value)] = "1"
            try:
                asyncio.run(meth(**kwargs))
            except Exception as e:   # noqa: the canned response makes the method raise the multi-error
                if type(e).__name__ != "GraphQLClientGraphQLMultiError":
                    raise
            payload = sent[-1]
            problems = []
            try:
                doc = G.parse(payload["query"])
            except Exception as e:   # noqa
                problems.append(f"does not parse: {e}")
                doc = None
            if doc is not None:
                errs = G.validate(plain_schema, doc)
                if errs:
                    problems.append("invalid: " + "; ".join(e.message for e in errs)[:200])
                ops = [d for d in doc.definitions if isinstance(d, G.OperationDefinitionNode)]
                if len(ops) != 1 or payload.get("operationName") != ops[0].name.value:
                    problems.append(f"operationName {payload.get('operationName')} vs operations {[o.name.value for o in ops]}")
                want = G.DocumentNode(definitions=(op, *[frags[n] for n in sorted(_reachable(op, frags))]))
                if _canon(doc) != _canon(G.parse(G.print_ast(want))):
                    problems.append({"sent": _canon(doc), "authored": _canon(G.parse(G.print_ast(want)))})
            if problems:
                rep["failed"].append(f"document[{op.name.value}]")
                rep["outcome"][op.name.value] = problems
    except Exception as e:   # noqa
        rep["outcome"]["error"] = f"{type(e).__name__}: {str(e)[:300]}"
        if name in REFUSAL_OK and type(e).__name__ in ("InvalidOperationForSchema", "ParsingError"):
            rep["outcome"]["refused"] = True      # refused at load time: nothing is sent
        else:
            rep["failed"].append("generation")
    finally:
        if g is not None:
            g.cleanup()
    rep["cases"] = [name] if rep["failed"] else []
    return rep


def _snake(name):
    from ariadne_codegen.utils import str_to_snake_case
    return str_to_snake_case(name)


def check_method_templates():
    """static replay for the template contracts: in every generated method the name passed as `query=` is the one bound
    from gql(...) in the same body (also for a subscription with a variable called $query)"""
    rep = dict(inputs={"operation": "subscription Watch($query: String) / query Find($query: String!)"}, failed=[], undetermined=[], pre_ok=True, outcome={}, error=None)
    g = None
    try:
        g = generate_client(SCHEMA, "subscription Watch($query: String) { ticks(query: $query) }\nquery Find($query: String!, $variables: String) { search(text: $query, opts: $variables) { __typename } }")
        tree = ast.parse(g.read("client.py"))
        for fn in [n for n in ast.walk(tree) if isinstance(n, (ast.FunctionDef, ast.AsyncFunctionDef)) and n.name in ("watch", "find")]:
            bound = [t.id for st in fn.body if isinstance(st, ast.Assign) and isinstance(st.value, ast.Call) and getattr(st.value.func, "id", "") == "gql" for t in st.targets]
            used = [k.value.id for c in ast.walk(fn) if isinstance(c, ast.Call) and isinstance(c.func, ast.Attribute) and c.func.attr in ("execute", "execute_ws")
                    for k in c.keywords if k.arg == "query" and isinstance(k.value, ast.Name)]
            rep["outcome"][fn.name] = dict(bound=bound, passed=used)
            if not bound or used != bound[:1]:
                rep["failed"].append(f"post.query-text-variable[{fn.name}]")
    except Exception as e:   # noqa
        rep["outcome"]["error"] = f"{type(e).__name__}: {str(e)[:300]}"
        rep["failed"].append("generation")
    finally:
        if g is not None:
            g.cleanup()
    return rep


def bounded_documents(tier, seed):
    fails = []
    extract = "ariadne_codegen.contrib.extract_operations.ExtractOperationsPlugin"
    runs = [(n, ()) for n in list(SCENARIOS) + list(KNOWN)] + [(n, (extract,)) for n in ("fragment-chain-depth-4", "string-literal-double-quote-escape", "aliases-arguments-directives-defaults",
                                                                                              "several-operations-not-in-alphabetical-order", "fragments-shared-by-two-operations",
                                                                                              "mixin-on-inline-fragment-and-fragment-spread")]
    for n, plugins in runs:
        r = check_scenario(n, plugins)
        if r["failed"]:
            fails.append(r)
    t = check_method_templates()
    if t["failed"]:
        t["inputs"]["scenario"] = "method-templates"
        fails.append(t)
    return dict(function="ariadne_codegen.client_generators.result_types:ResultTypesGenerator.get_operation_as_str", name="bounded.documents",
                kind="bounded stand-in (scenario list, end to end)", domain=f"{len(runs)} operation sets (fragment graphs, literals, directives; with/without ExtractOperations) + method templates",
                cases=len(runs) + 1, failed=len(fails), failures=fails)


def is_known_case(rep):
    return rep.get("inputs", {}).get("scenario") in KNOWN


def witness(name):
    return check_scenario(name)


def witness_literals():
    rep = dict(inputs={}, failed=[], cases=[], outcome={})
    for n in KNOWN:
        r = check_scenario(n)
        rep["outcome"][n] = r["outcome"]
        if r["failed"]:
            rep["cases"].append(n)
    if rep["cases"]:
        rep["failed"].append("bounded.documents")
    return rep
