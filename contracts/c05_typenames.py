"""C01 / C05 - `at every abstract-typed position it is an instance of the generated class whose __typename literal contains the
runtime type` / `an object whose __typename is not a possible type of its position is rejected`: the table of __typename values.

ResultTypesGenerator._get_typename_values(field_context) maps the type name of every class generated for one field to the list of
__typename values its Literal accepts.  Contract, for arbitrary names W and T (sets and dict keys compared by membership):

  keys        W is a key of the result            <=>  W is the type name of a related class
  concrete    when no related class is on an abstract type: the list of every key is exactly [key]
  abstract    when A is the abstract type picked among the related classes (A.name is then a key):
                the list of every other key is exactly [key], and
                T is in the list of A.name   <=>   T == A.name  or  (T names a possible type of A  and  T has no class of its own)

so every possible type of A is accepted by the class of its own name when there is one and by A's class otherwise, and a name
accepted by some class is a related type's name or names a possible type of A.  `next(filter(p, xs), None)` is read as "some
element of xs that satisfies p, None when there is none" (the real code takes the first one - the clauses hold for each choice).
schema.get_possible_types is graphql-core's (an uninterpreted list of named types per abstract type); the type map binds every
name to a type of that name (graphql-core's invariant, a precondition here)."""
import z3
import graphql as G
from pyvc import val as V
from pyvc import models
from pyvc.val import SV, Obj
from pyvc.contract import Contract
from pyvc.spec import *   # noqa
from . import lib_graphql as GQ
from . import lib_generator as LG     # noqa: F401
from . import c01_subtype as CS
from .c09_pruning import FakeSchema
from ariadne_codegen.client_generators import result_types as RT
from ariadne_codegen.client_generators import result_fields as RF

TARGET = "ariadne_codegen.client_generators.result_types:ResultTypesGenerator._get_typename_values"
W = z3.Const("any_name_w", V.Val)
T = z3.Const("any_name_t", V.Val)
POSSIBLE = z3.Function("graphql_possible_types", V.Val, V.VL)       # schema.get_possible_types(abstract type) -> list of types

if RF.FieldContext not in V.REG.by_cls:
    V.REG.register(RF.FieldContext, ["definitions", "enums", "custom_scalars", "related_classes", "abstract_type"])
if RF.RelatedClassData not in V.REG.by_cls:
    V.REG.register(RF.RelatedClassData, ["class_name", "type_name"])

TYPE_NAMES = SpecMap("related_type_names", lambda rc: V.attr_of(rc, RF.RelatedClassData, "type_name"))
NAMED_TYPE = OneOf(Cls(G.GraphQLObjectType, name=GQ.NAME), Cls(G.GraphQLInterfaceType, name=GQ.NAME), Cls(G.GraphQLUnionType, name=GQ.NAME))
POSSIBLE_NAMES = SpecMap("possible_type_names", lambda t: type_name(t))
SCHEMA_TYPES = SpecMap("related_schema_types", lambda rc, tm: get(tm, V.attr_of(rc, RF.RelatedClassData, "type_name")), param_sorts=(V.Val,))


def type_name(t):
    return z3.If(V.is_instance(t, G.GraphQLObjectType), V.attr_of(t, G.GraphQLObjectType, "name"),
                 z3.If(V.is_instance(t, G.GraphQLInterfaceType), V.attr_of(t, G.GraphQLInterfaceType, "name"),
                       z3.If(V.is_instance(t, G.GraphQLUnionType), V.attr_of(t, G.GraphQLUnionType, "name"),
                             z3.If(V.is_instance(t, G.GraphQLScalarType), V.attr_of(t, G.GraphQLScalarType, "name"),
                                   V.attr_of(t, G.GraphQLEnumType, "name")))))


POSSIBLE_SHAPE = ListOf(Cls(G.GraphQLObjectType, name=GQ.NAME), name="possible_types_tv")


def _get_possible_types(I, o, a, k):
    models._used("graphql-core: schema.get_possible_types(abstract_type) is a list of object types (uninterpreted)")
    r = V.VList(POSSIBLE(V.lower(a[0])))
    I.p.assume(POSSIBLE_SHAPE.pred(r))
    POSSIBLE_SHAPE.on_assume(I.ctx, r)
    return SV(r)


FakeSchema.__pyvc_methods__["get_possible_types"] = _get_possible_types


class GetTypenameValues(Contract):
    props = ("C01", "C05")
    target = TARGET
    frame_args = False
    use_at_calls = False          # _parse_field_selection_set_types has its own stand-in for this call
    trusted = ["graphql-core: schema.get_possible_types(abstract type) is a list of object types (uninterpreted); is_abstract_type = interface or union; "
               "the type map binds every name to a type of that name",
               "next(filter(p, xs), None) is read as: some element of xs that satisfies p, None when no element does",
               "{x: f(x) for x in xs}: has(d, k) <=> k in xs and d[k] = f(k) are used as lemma instances (induction on xs, not machine-checked)",
               "lemma instances (induction on the list, not machine-checked): x in a ++ b <=> x in a or x in b;  x in map(f, xs) => g(x) in map(g . f, xs);  "
               "e in xs => f(e) in map(f, xs)"]

    def setup(self, E):
        tm = E.sym("type_map", DictOf(GQ.NAME, CS.SCHEMA_TYPE, name="type_map_tv"))
        known = Pred(lambda t: z3.And(V.is_VStr(t), has(tm.t, t), type_name(get(tm.t, t)) == t), "name of a type of the schema (bound to a type of that name)")
        related = E.sym("related_classes", ListOf(Cls(RF.RelatedClassData, class_name=GQ.NAME, type_name=known), name="related_classes_tv"))
        s = Obj(RT.ResultTypesGenerator, {"schema": Obj(FakeSchema, {"type_map": tm})})
        fc = Obj(RF.FieldContext, {"related_classes": related})
        E.ctx.inputs["any_name_w"], E.ctx.inputs["any_name_t"] = W, T
        self._tm, self._related = tm.t, related.t
        return [s, fc], {}

    def ensures(self, A, res):
        p = A["__path__"]
        rel, tm = V.vl(self._related), self._tm
        ap = lambda m, xs: m.apply(p, xs) if p is not None else m(xs)      # noqa: E731
        names = ap(TYPE_NAMES, rel)
        d = V.vd(res)
        own = get(tm, W)                                         # the schema type of the key W
        possible = ap(POSSIBLE_NAMES, POSSIBLE(own))           # names of the possible types of W's type
        if p is not None:
            for k in (W, T):
                for lem in models.comp_dict_lemmas(res, k):
                    p.assume(lem)
            # the code's comprehension over the possible types of the picked type is the spec's map of the same list
            for m in list(p.maps_used.values()):
                xs = z3.simplify(m["xs"])
                if z3.is_app(xs) and xs.decl().name() == POSSIBLE.name():
                    POSSIBLE_NAMES.apply(p, xs)
            # membership in an updated entry ([key] ++ enumeration of a set difference): instance of  x in a ++ b <=> x in a or x in b
            l = z3.simplify(d)
            while z3.is_app(l) and l.decl().name() == "d_set":
                v = V.vl(l.arg(2))
                p.assume(V.vl_contains(v, T) == V.vcontains(v, T))
                l = l.arg(0)
            # a related type's name W has its schema type among the schema types looked up for the related classes
            # (instance of: x in map(f, xs) => g(x) in map(g . f, xs))
            types = SCHEMA_TYPES.apply(p, rel, tm)
            p.assume(z3.Implies(V.vl_contains(names, W), V.vl_contains(types, own)))
        lst = V.vl(V.dlookup(d, W))
        is_key = V.dhas(d, W)
        n = z3.Const("any_related_name", V.Val)
        only_abstract = z3.ForAll([n], z3.Implies(z3.And(V.vl_contains(names, n), CS.is_abstract(get(tm, n))), n == W), patterns=[V.vl_contains(names, n)])
        return {"keys-are-the-related-type-names": is_key == V.vcontains(names, W),
                "every-list-starts-with-its-own-key": z3.Implies(is_key, z3.And(V.is_VList(V.dlookup(d, W)), z3.Not(V.is_VNil(lst)), V.hd(lst) == W)),
                "class-of-a-concrete-type-accepts-exactly-its-own-name": z3.Implies(z3.And(is_key, z3.Not(CS.is_abstract(own))), lst == V.VCons(W, V.VNil)),
                "only-its-own-name-and-possible-types-without-a-class-are-accepted":
                    z3.Implies(z3.And(is_key, V.vcontains(lst, T)), z3.Or(T == W, z3.And(CS.is_abstract(own), V.vcontains(possible, T), z3.Not(V.vcontains(names, T))))),
                "class-of-the-abstract-type-accepts-every-possible-type-without-a-class":
                    z3.Implies(z3.And(is_key, CS.is_abstract(own), only_abstract, V.vcontains(possible, T), z3.Not(V.vcontains(names, T))), V.vcontains(lst, T))}


    def replay_custom(self, inputs):
        return replay_typename_values()

    def samples(self, tier):
        return [dict(case="interfaces, unions, concrete types")]


def replay_typename_values():
    """native cross-check on a real schema: every choice of related classes over an interface, a union and object types"""
    import itertools
    schema = G.build_schema("""
        interface Node { id: ID }
        type A implements Node { id: ID }  type B implements Node { id: ID }  type C implements Node { id: ID }  type D { id: ID }
        union U = A | B | D
        type Query { n: Node u: U d: D }
    """)
    g = RT.ResultTypesGenerator.__new__(RT.ResultTypesGenerator)
    g.schema = schema
    rep = dict(inputs={"schema": "interface Node (A, B, C), union U (A, B, D)", "related": "the abstract type with every subset of its members; concrete types alone"},
               failed=[], undetermined=[], pre_ok=True, outcome={}, error=None)
    cases = [["D"], ["A"], ["A", "B"]]
    for abstract, members in (("Node", ["A", "B", "C"]), ("U", ["A", "B", "D"])):
        for n in range(len(members) + 1):
            for sub in itertools.permutations(members, n):
                cases.append([abstract] + list(sub))
        cases.append([members[0], abstract])
    for names in cases:
        fc = RF.FieldContext(definitions=[], related_classes=[RF.RelatedClassData(class_name="Cls" + n, type_name=n) for n in names])
        try:
            got = g._get_typename_values(fc)
        except Exception as e:   # noqa
            rep["failed"].append("no exception may escape")
            rep["outcome"][str(names)] = repr(e)
            continue
        bad = []
        if set(got) != set(names):
            bad.append("post.keys-are-the-related-type-names")
        for k, lst in got.items():
            t = schema.type_map[k]
            if not isinstance(lst, list) or lst[:1] != [k]:
                bad.append("post.every-list-starts-with-its-own-key")
            if not G.is_abstract_type(t) and lst != [k]:
                bad.append("post.class-of-a-concrete-type-accepts-exactly-its-own-name")
            if G.is_abstract_type(t):
                want = {p.name for p in schema.get_possible_types(t)} - set(names)
                if set(lst[1:]) - want - {k}:
                    bad.append("post.only-its-own-name-and-possible-types-without-a-class-are-accepted")
                if want - set(lst):
                    bad.append("post.class-of-the-abstract-type-accepts-every-possible-type-without-a-class")
        if bad:
            rep["failed"] += bad
            rep["outcome"][str(names)] = {k: v for k, v in got.items()}
    rep["failed"] = sorted(set(rep["failed"]))
    return rep


CONTRACTS = [GetTypenameValues()]
