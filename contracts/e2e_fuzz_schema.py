"""Bounded stand-in for C16 with *generated* schemas: a seeded generator writes SDL with every kind of named type
(interfaces implementing interfaces, unions, enums with deprecated values, input objects with defaults of every literal
kind, custom scalars with specifiedBy), descriptions (quotes, backslashes, several lines, leading blanks), deprecations,
arguments with defaults, directives (repeatable, several locations, arguments), custom root type names, type extensions;
each is pushed through the round trip of e2e_schema (every accepted target spelling, file and directory source)."""
import random
import graphql as G
from . import e2e_schema as S
from .e2e_fuzz_inputs import SchemaGen

DESCRIPTIONS = ['plain', 'with "quotes"', 'back\\\\slash', 'two\\nlines', '  leading blanks', 'unicode é', "it's", '# hash', 'tab\\there']


class FullSchemaGen(SchemaGen):
    def desc(self, p=0.3):
        if self.r.random() >= p:
            return ""
        d = self.r.choice(DESCRIPTIONS)
        if self.r.random() < 0.3:
            return '"""' + d.replace("\\n", "\n").replace('"""', '\\"""') + '\n  second line"""\n'
        return '"' + d.replace('"', '\\"') + '" '

    def build_full(self):
        sdl_inputs, _, _ = self.build()
        sdl_inputs = sdl_inputs[:sdl_inputs.index("type Query")]
        r = self.r
        inputs = list(self.inputs)
        scalars = ["Stamp", "Blob"]
        out = []
        out.append(f'{self.desc()}scalar Stamp' + (' @specifiedBy(url: "https://example.com/stamp")' if r.random() < 0.5 else ""))
        out.append("scalar Blob")
        n_if = r.randint(1, 3)
        ifaces = [f"Face{i}" for i in range(n_if)]
        objs = [f"Obj{i}" for i in range(r.randint(2, 4))]

        def out_type():
            base = r.choice(["Int", "String", "Float", "Boolean", "ID"] + scalars + list(self.enums) + objs + ifaces + ["Uni"])
            return self.wrap(base)

        def args():
            if r.random() < 0.5:
                return ""
            parts = []
            for i in range(r.randint(1, 3)):
                base = r.choice(["Int", "String", "Boolean", "ID"] + list(self.enums) + inputs + scalars)
                ts = self.wrap(base)
                d = self.literal(ts) if base not in scalars and r.random() < 0.5 else None
                parts.append(f"{self.desc(0.15)}a{i}: {ts}" + (f" = {d}" if d is not None and "None" not in d else "")
                             + (' @deprecated(reason: "old arg")' if r.random() < 0.1 and not ts.endswith("!") else ""))
            return "(" + ", ".join(parts) + ")"

        face_fields = {}
        for i, f in enumerate(ifaces):
            parents = [p for p in ifaces[:i] if r.random() < 0.5]
            fields = {f"f{i}": "ID!"}
            for p in parents:
                fields.update(face_fields[p])
            face_fields[f] = fields
            impl = (" implements " + " & ".join(parents)) if parents else ""
            out.append(f"{self.desc()}interface {f}{impl} {{ " + " ".join(f"{n}: {t}" for n, t in fields.items()) + " }")
        for o in objs:
            faces = [f for f in ifaces if r.random() < 0.5]
            closure = set(faces)
            fields = {}
            for f in faces:
                fields.update(face_fields[f])
            for f in ifaces:      # an object implementing an interface implements its parents, too
                if any(set(face_fields[f]) <= set(fields) and f not in closure for _ in [0]) and any(f in self_parents for self_parents in [[]]):
                    closure.add(f)
            # interfaces a chosen interface implements
            decl = list(faces)
            for f in list(faces):
                for p in ifaces:
                    if p != f and set(face_fields[p]) <= set(face_fields[f]) and p not in decl and face_fields[p] != face_fields[f] and _implements(out, f, p):
                        decl.append(p)
            impl = (" implements " + " & ".join(decl)) if decl else ""
            body = " ".join(f"{n}: {t}" for n, t in fields.items())
            for k in range(r.randint(1, 3)):
                dep = ' @deprecated(reason: "gone")' if r.random() < 0.15 else (" @deprecated" if r.random() < 0.05 else "")
                body += f" {self.desc(0.2)}x{k}{args()}: {out_type()}{dep}"
            out.append(f"{self.desc()}type {o}{impl} {{ {body} }}")
        out.append(f"{self.desc()}union Uni = " + " | ".join(r.sample(objs, r.randint(1, len(objs)))))
        root = r.choice(["Query", "RootQ"])
        mut = r.choice([None, "Mutation", "Mut"])
        out.append(f"type {root} {{ q{args()}: {out_type()} me: {objs[0]} }}")
        if mut:
            out.append(f"type {mut} {{ m{args()}: {r.choice(objs)} }}")
        header = ""
        if root != "Query" or (mut and mut != "Mutation") or r.random() < 0.3:
            header = self.desc(0.5) + "schema { query: " + root + (f" mutation: {mut}" if mut else "") + " }\n"
        for i in range(r.randint(0, 2)):
            locs = r.sample(["FIELD_DEFINITION", "OBJECT", "ENUM_VALUE", "ARGUMENT_DEFINITION", "INPUT_FIELD_DEFINITION", "FIELD", "QUERY"], r.randint(1, 3))
            a = ""
            if r.random() < 0.6:
                base = r.choice(["Int", "String"] + list(self.enums) + inputs)
                ts = self.wrap(base)
                d = self.literal(ts) if r.random() < 0.5 else None
                a = f"(arg: {ts}" + (f" = {d}" if d is not None and "None" not in d else "") + ")"
            out.append(f"{self.desc()}directive @dir{i}{a}" + (" repeatable" if r.random() < 0.4 else "") + " on " + " | ".join(locs))
        enums = ""
        for e, vals in self.enums.items():
            enums += f"{self.desc()}enum {e} {{ " + " ".join(f"{self.desc(0.15)}{v}" + (' @deprecated(reason: "no")' if r.random() < 0.15 else "") for v in vals) + " }\n"
        sdl = header + enums + sdl_inputs[sdl_inputs.index("input"):] + "\n".join(out) + "\n"
        if r.random() < 0.3:
            sdl += f"extend type {objs[-1]} {{ added: Int }}\n"
        return sdl


def _implements(out, child, parent):
    line = next((l for l in out if f"interface {child}" in l), "")
    return f" {parent}" in line.split("{")[0].split("implements")[-1] if "implements" in line else False


def schemas(n, seed0=5000):
    out, k = [], 0
    while len(out) < n and k < 40 * n:
        k += 1
        try:
            sdl = FullSchemaGen(seed0 + k).build_full()
            G.assert_valid_schema(G.build_schema(sdl))
        except Exception:      # noqa - the generator wrote something that is not a valid schema: skipped
            continue
        out.append((f"generated-schema-{seed0 + k}", sdl))
    return out


def bounded_generated_schemas(tier, seed):
    n = 25 if tier == "quick" else 200
    fails, cases = [], 0
    for name, sdl in schemas(n):
        S.SCHEMAS[name] = sdl
        try:
            r = S.check_round_trip(name)
        finally:
            S.SCHEMAS.pop(name, None)
        cases += 1
        if r["failed"]:
            r["inputs"]["sdl"] = sdl
            fails.append(r)
    return dict(function="ariadne_codegen.graphql_schema_generators.schema:generate_schema_module", name="bounded.generated-schemas",
                kind="bounded stand-in (seeded schema generator, round trip end to end)", domain=f"{cases} generated schemas (fixed seeds) x 6 targets / sources",
                cases=cases * 6, failed=len(fails), failures=fails)


if __name__ == "__main__":
    import sys
    r = bounded_generated_schemas(sys.argv[1] if len(sys.argv) > 1 else "quick", 0)
    print(r["cases"], r["failed"])
    for f in r["failures"][:4]:
        print(f["failed"], str(f["outcome"])[:600], "\n", f["inputs"]["sdl"][:1500])
