"""C01 / C05 / C08 - the classes generated for a field of interface type.

parse_interface_type decides, from the inline fragments of the field's selection set (get_inline_fragments_from_selection_set,
c01_inline) and the fragments on sub-types spread in it (get_fragments_on_subtype, c01_subtype), which classes the field
gets: without any of them ONE class for the interface; with them the class of the interface itself plus exactly one class per
distinct type condition, each registered for generation under class name = prefix + type name, and the annotation is the Union of
exactly these classes (Optional iff nullable).  An inline fragment without type condition narrows nothing and adds no class.
The position is marked abstract in both cases (the typename literal and the discriminator depend on it).

The two scans are the callees' own contracts; here they are call-site stand-ins that answer with arbitrary lists of inline
fragments / fragment definitions and record what they were asked for: the postcondition also says that both were asked about
THIS field's selection set, the operation's fragment definitions and THIS interface.  `sorted({...})` is the uninterpreted
py_sorted of the set of type-condition names (a duplicate-free ascending enumeration: assumed, CPython)."""
import ast
import z3
import graphql as G
from pyvc import val as V
from pyvc import models
from pyvc.val import SV, Obj
from pyvc.contract import Contract
from pyvc.spec import *   # noqa
from . import lib_graphql as GQ
from . import c03_arguments as _c03       # noqa: F401  (registers the type nodes)
from . import c01_inline as CI            # noqa: F401  (registers the selection node classes)
from .c06_input_types import name_, sub, opt, K
from .c05_result_fields import RF, quoted, ctx_field
from .c09_pruning import FakeSchema

MODRF = "ariadne_codegen.client_generators.result_fields:"
NAMED_TYPE_NODE = Cls(G.NamedTypeNode, name=GQ.NAME_NODE)
INLINE_SHAPE = Cls(G.InlineFragmentNode, type_condition=Opt(NAMED_TYPE_NODE))
FRAGDEF_SHAPE = Cls(G.FragmentDefinitionNode, type_condition=NAMED_TYPE_NODE)
INLINES = z3.Const("inline_fragments_found", V.Val)
ON_SUBTYPES = z3.Const("fragments_on_subtypes_found", V.Val)


def condition_of(f):
    """type_condition is the second field of an inline fragment and of a fragment definition alike? no: read it per class"""
    return z3.If(GQ.is_cls(f, V.REG.info(G.InlineFragmentNode)), V.attr_of(f, G.InlineFragmentNode, "type_condition"),
                 V.attr_of(f, G.FragmentDefinitionNode, "type_condition"))


def condition_name(f):
    return V.attr_of(V.attr_of(condition_of(f), G.NamedTypeNode, "name"), G.NameNode, "value")


condition_names = SpecMap("type_condition_names", lambda f: condition_name(f), keep_fn=lambda f: z3.Not(V.is_VNone(condition_of(f))))


def cls_name(prefix, type_name):
    return V.VStr(z3.Concat(V.vs(prefix), V.vs(type_name)))


member_anns = SpecMap("interface_member_annotations", lambda n, cn: name_(quoted(V.vs(cls_name(cn, n)))), param_sorts=(V.Val,))
member_related = SpecMap("interface_member_related", lambda n, cn: mk(RF.RelatedClassData, class_name=cls_name(cn, n), type_name=n), param_sorts=(V.Val,))


class InlineFragmentsAtCalls(Contract):
    """call-site stand-in for get_inline_fragments_from_selection_set (its own contract: c01_inline): some list of inline fragments"""
    target = MODRF + "get_inline_fragments_from_selection_set"
    assumed = True

    def apply_at_call(self, I, fn, args, kwargs):
        names = self.call_names(fn, args, kwargs, I)
        I.p.effect("call", ("inline_fragments", [V.lower(names["selection_set"]), V.lower(names["fragments_definitions"])]))
        models._used("contract:" + self.target)
        return SV(INLINES)


class FragmentsOnSubtypeAtCalls(Contract):
    """call-site stand-in for get_fragments_on_subtype (its own contract: c01_subtype): some list of fragment definitions"""
    target = MODRF + "get_fragments_on_subtype"
    assumed = True

    def apply_at_call(self, I, fn, args, kwargs):
        names = self.call_names(fn, args, kwargs, I)
        I.p.effect("call", ("fragments_on_subtype", [V.lower(names["schema"]), V.lower(names["selection_set"]), V.lower(names["fragments_definitions"]),
                                                      V.lower(names["root_type"])]))
        models._used("contract:" + self.target)
        return SV(ON_SUBTYPES)


def _inv(rest, xs, st, I, env):
    cn = V.lower(env.lookup("class_name"))
    types = V.vl(st["types"])
    rel = V.vl(st["context.related_classes"])
    t0, r0 = I.ctx.__dict__["pit_types0"](env), I.ctx.__dict__["pit_related0"](env)
    # the names iterated over are strings (NameNode.value of the type conditions; sorted() returns elements of its argument)
    I.ctx.__dict__.setdefault("elem_shapes", {}).setdefault(z3.simplify(xs).get_id(), lambda v: V.is_VStr(v))
    return z3.And(append_map_inv(types, rest, xs, member_anns, (cn,), init=t0), append_map_inv(rel, rest, xs, member_related, (cn,), init=r0))


_inv.extra_mutated = [("context", "related_classes"), ("types",)]


class ParseInterfaceType(Contract):
    props = ("C01", "C05", "C08")
    target = MODRF + "parse_interface_type"
    mutates = ("context",)
    use_at_calls = False
    frame_args = False
    assume_proved = True
    trusted = ["sorted(set): py_sorted of the set's members - a duplicate-free ascending enumeration (CPython; uninterpreted); its elements are the names (strings) of the type conditions",
               "the two scans of the selection set (inline fragments, fragments on sub-types) are call-site stand-ins here; their own contracts are c01_inline / c01_subtype"]
    loops = {"parse_interface_type": _inv}

    def setup(self, E):
        from pyvc.shapes import assume_shape
        assume_shape(E.p, ListOf(INLINE_SHAPE, name="inline_fragments_found_items"), INLINES)
        assume_shape(E.p, ListOf(FRAGDEF_SHAPE, name="fragments_on_subtypes_found_items"), ON_SUBTYPES)
        E.ctx.inputs["inline_fragments_found"] = INLINES
        E.ctx.inputs["fragments_on_subtypes_found"] = ON_SUBTYPES
        ss = E.sym("field_selection_set", Opt(Cls(G.SelectionSetNode)))
        fdefs = E.sym("fragments_definitions", DictOf(GQ.NAME, Cls(G.FragmentDefinitionNode), name="fragment_definitions_pit"))
        schema = Obj(FakeSchema, {"type_map": E.sym("type_map", DictOf(GQ.NAME, Any, name="type_map_pit"))})
        defs = Obj(RF.Definitions, dict(schema=schema, field_node=Obj(G.FieldNode, {"selection_set": ss}), custom_scalars={}, fragments_definitions=fdefs))
        ctx = Obj(RF.FieldContext, dict(definitions=defs, enums=E.mlist("enums0", Str), custom_scalars=E.mlist("scalars0", Str),
                                        related_classes=E.mlist("related0"), abstract_type=False))
        related0 = V.vl(ctx.attrs["related_classes"].t)
        type_ = E.sym("type_", Cls(G.GraphQLInterfaceType, name=GQ.NAME))
        cn = E.sym("class_name", Str)
        own = cls_name(cn.t, GQ.name_of(type_.t))
        E.ctx.pit_types0 = lambda env: V.VCons(name_(quoted(V.vs(own))), V.VNil)
        E.ctx.pit_related0 = lambda env: V.vconcat(related0, V.VCons(mk(RF.RelatedClassData, class_name=own, type_name=GQ.name_of(type_.t)), V.VNil))
        self._ss, self._fdefs, self._schema = ss, fdefs, schema
        return [], dict(type_=type_, nullable=E.sym_bool("nullable"), context=ctx, class_name=cn, add_type_name=E.sym_bool("add_type_name"))

    def ensures(self, A, res):
        tname = GQ.name_of(A.type_)
        cn = A.class_name
        both = V.vl_concat(V.vl(INLINES), V.vl(ON_SUBTYPES))
        p = A.get("__path__")
        names_unsorted = condition_names.apply(p, both) if p is not None else condition_names(both)
        names = models.PY_SORTED(names_unsorted)
        narrowed = z3.Or(V.is_VCons(V.vl(INLINES)), V.is_VCons(V.vl(ON_SUBTYPES)))
        own = cls_name(cn, tname)
        plain_name = z3.If(V.vb(A.add_type_name), own, cn)
        rel0 = V.vl(ctx_field(A.context, "related_classes"))
        rel1 = V.vl(ctx_field(A.final_context, "related_classes"))
        union = sub(name_(K.UNION), mk(ast.Tuple, elts=V.VList(V.VCons(name_(quoted(V.vs(own))), member_anns(names, cn)))))
        own_related = mk(RF.RelatedClassData, class_name=own, type_name=tname)
        m = member_related(names, cn)
        V.LEMMAS.append(V.vl_concat(V.vl_concat(rel0, V.VCons(own_related, V.VNil)), m) == V.vl_concat(rel0, V.VCons(own_related, m)))      # associativity instance
        calls = [pl for k, pl in A["__effects__"] if k == "call"]
        asked = {c[0]: c[1] for c in calls}
        ss = V.lower(self._ss)
        out = {
            "one-class-for-the-interface-plus-one-per-distinct-type-condition/optional-iff-nullable":
                res == z3.If(narrowed, opt(V.vb(A.nullable), union), opt(V.vb(A.nullable), name_(quoted(V.vs(plain_name))))),
            "exactly-these-classes-registered-for-generation-in-this-order":
                rel1 == z3.If(narrowed, V.vl_concat(rel0, V.VCons(own_related, member_related(names, cn))),
                              V.vl_concat(rel0, V.VCons(mk(RF.RelatedClassData, class_name=plain_name, type_name=tname), V.VNil))),
            "position-marked-abstract": ctx_field(A.final_context, "abstract_type") == V.VBool(z3.BoolVal(True)),
            "both-scans-asked-once-about-this-field": z3.BoolVal(sorted(c[0] for c in calls) == ["fragments_on_subtype", "inline_fragments"]),
        }
        if "inline_fragments" in asked and "fragments_on_subtype" in asked:
            out["scans-run-on-this-fields-selection-set/the-operations-fragments/this-interface"] = z3.And(
                asked["inline_fragments"][0] == ss, asked["inline_fragments"][1] == V.lower(self._fdefs),
                asked["fragments_on_subtype"][0] == V.lower(self._schema), asked["fragments_on_subtype"][1] == ss,
                asked["fragments_on_subtype"][2] == V.lower(self._fdefs), asked["fragments_on_subtype"][3] == tname)
        return out

    def replay_custom(self, inputs):
        return replay_interface_positions()

    def samples(self, tier):
        return [dict(case="documents")]


def replay_interface_positions():
    """native cross-check: the real function on real documents against a transcription of the statement"""
    from ariadne_codegen.client_generators import result_fields as R
    schema = G.build_schema("""
        interface Node { id: ID! }
        type User implements Node { id: ID! name: String }
        type Bot implements Node { id: ID! model: String }
        type Ghost implements Node { id: ID! }
        type Query { node: Node nodes: [Node] }
    """)
    doc = G.parse("""
        query Q { a: node { id } b: node { id ... on User { name } ... on Bot { model } ... on User { id } } c: node { ...OnBot ...OnNode ... { id } }
                  d: node { ... { id } } e: node { ...Wrapper } }
        fragment OnBot on Bot { model }
        fragment OnNode on Node { id }
        fragment Wrapper on Node { ...OnBot ... on Ghost { id } }
    """)
    defs = {d.name.value: d for d in doc.definitions if isinstance(d, G.FragmentDefinitionNode)}
    rep = dict(inputs={"document": "interface fields without / with inline fragments, fragments on sub-types, a typeless inline fragment, a wrapper fragment"},
               failed=[], undetermined=[], pre_ok=True, outcome={}, error=None)
    # field -> None (not narrowed: one class) | the member types that get their own class next to the interface's (sorted)
    want = {"a": None, "b": ["Bot", "User"], "c": ["Bot"], "d": [], "e": ["Bot", "Ghost"]}
    for fld in doc.definitions[0].selection_set.selections:
        key = fld.alias.value
        for nullable, add in ((True, False), (False, True)):
            ctx = R.FieldContext(definitions=R.Definitions(schema=schema, field_node=fld, custom_scalars={}, fragments_definitions=defs))
            try:
                ann = R.parse_interface_type(schema.type_map["Node"], nullable, ctx, "P", add)
            except Exception as e:   # noqa
                rep["outcome"][f"{key}:{nullable}:{add}"] = repr(e)
                rep["failed"].append("no exception may escape")
                continue
            got = [(c.class_name, c.type_name) for c in ctx.related_classes]
            text = ast.unparse(ann)
            if want[key] is None:
                expect = [("PNode" if add else "P", "Node")]
                inner = ast.Name(id=f'"{expect[0][0]}"')
            else:
                expect = [("PNode", "Node")] + [("P" + t, t) for t in want[key]]
                inner = ast.Subscript(value=ast.Name(id="Union"), slice=ast.Tuple(elts=[ast.Name(id=f'"{c}"') for c, _ in expect]))
            ann_want = ast.unparse(ast.Subscript(value=ast.Name(id="Optional"), slice=inner) if nullable else inner)
            rep["outcome"][f"{key}:{nullable}:{add}"] = dict(related=got, annotation=text)
            if got != expect:
                rep["failed"].append("post.exactly-these-classes-registered-for-generation-in-this-order")
            if text != ann_want:
                rep["failed"].append("post.one-class-for-the-interface-plus-one-per-distinct-type-condition/optional-iff-nullable")
                rep["outcome"][f"{key}:{nullable}:{add}"]["expected_annotation"] = ann_want
            if ctx.abstract_type is not True:
                rep["failed"].append("post.position-marked-abstract")
    rep["failed"] = sorted(set(rep["failed"]))
    return rep


CONTRACTS = [InlineFragmentsAtCalls(), FragmentsOnSubtypeAtCalls(), ParseInterfaceType()]
