"""C01 / C05 / C08 / C04 - selection-set resolution: which fields make up a generated class and which fragments become its bases.

ResultTypesGenerator._resolve_selection_set(selection_set, root_type) is the mechanism the anchors of C01 and C08 name: it
walks a selection set for the class generated for `root_type` and returns the fields of the class body (document order)
and the set of fragments that become base classes; on the way it records which fragments were unpacked (their fields
copied) and which were used as base classes.  Contract: the one-step unfolding equations

    per selection s, evaluated for root type r:
      field                      fields [s]
      ...Name, definition d      not unpack(d, r)                              ->  bases {Name}
                                 unpack(d, r) and d applies to r               ->  unpacked {Name}; everything of resolve(d.selection_set, r)
                                 unpack(d, r) and d does not apply             ->  nothing
                                 (d applies to r: its type condition is r, or is an abstract type of which r is a sub-type)
      ... on T { ss } / ... { ss }   r' = r when there is no type condition, else inline_root(T, r);
                                 r' given  -> everything of resolve(ss, r')     r' not given -> nothing

    fields            = concatenation of the pieces, in document order
    bases             = union of the pieces                (returned)
    unpacked'         = unpacked  U  union of the pieces   (self._unpacked_fragments)
    used as bases'    = used  U  bases  U  what the nested calls added   (self._fragments_used_as_mixins)

where resolve(...) of the nested selection sets are the results and effects of the recursive calls (partial correctness:
fragment definitions of a validated document are acyclic, which terminates the recursion and is not proved here), and
unpack / inline_root are the generator's own decisions (_unpack_fragment has its contract in c08_fragments;
_get_inline_fragment_root_type is under contract below).  Set-valued results are compared by membership of an arbitrary
name (the enumeration order of a set is not part of the contract); the field list is compared as a list.

The statement of C08 is read off directly: a fragment spread in the selection set that is not unpacked - no inline
fragments, declared on exactly this type, not a union - is in the returned bases, whatever else the selection set holds."""
import z3
import graphql as G
from pyvc import val as V
from pyvc import models
from pyvc.val import SV, Obj, MSet
from pyvc.contract import Contract, self_obj, Args, _lower_arg
from pyvc.spec import *   # noqa
from . import lib_graphql as GQ
from . import c03_arguments as _c03       # noqa: F401  (registers the type nodes, with their builders)
from . import c01_inline as CI
from . import c01_subtype as CS
from .c09_pruning import FakeSchema
from . import lib_generator as _lg      # noqa: F401  (registers ResultTypesGenerator)
from ariadne_codegen.client_generators import result_types as RT

MOD = "ariadne_codegen.client_generators.result_types:ResultTypesGenerator."
INLINE, SPREAD, FIELD = CI.INLINE, CI.SPREAD, CI.FIELD

# results and effects of a (recursive) call: (selection set, root type, definitions, type map) ->
NF = z3.Function("resolved_fields_of", V.Val, V.Val, V.Val, V.Val, V.VL)          # the field list
NS = z3.Function("resolved_bases_of", V.Val, V.Val, V.Val, V.Val, V.VL)           # an enumeration of the returned set
NU = z3.Function("resolved_unpacked_of", V.Val, V.Val, V.Val, V.Val, V.VL)        # what the call adds to self._unpacked_fragments
NM = z3.Function("resolved_used_as_bases_of", V.Val, V.Val, V.Val, V.Val, V.VL)   # what the call adds to self._fragments_used_as_mixins
UNPACK = z3.Function("unpack_fragment_decision", V.Val, V.Val, z3.BoolSort())      # self._unpack_fragment(definition, root type definition)
INLINE_ROOT = z3.Function("inline_fragment_root_type", V.Val, V.Val, V.Val)        # self._get_inline_fragment_root_type(type condition, root type)


def inline_condition(x):
    return V.attr_of(x, G.InlineFragmentNode, "type_condition")


def inline_root(x, r):
    tc = inline_condition(x)
    return z3.If(V.is_VNone(tc), r, INLINE_ROOT(V.attr_of(V.attr_of(tc, G.NamedTypeNode, "name"), G.NameNode, "value"), r))


def pieces(x, r, defs, tm):
    """(fields, bases, unpacked, used) contributed by selection x"""
    name = CI.spread_name(x)
    fd = get(defs, name)
    fss = V.attr_of(fd, G.FragmentDefinitionNode, "selection_set")
    tc = CS.type_condition(fd)
    root_def, frag_def = get(tm, r), get(tm, tc)
    unpack = UNPACK(fd, root_def)
    applies = z3.Or(tc == r, z3.And(CS.is_abstract(frag_def), CS.IS_SUB(frag_def, root_def)))
    take = z3.And(unpack, applies)
    r1 = inline_root(x, r)
    iss = V.attr_of(x, G.InlineFragmentNode, "selection_set")
    into = truthy(r1)
    nil = V.VNil
    one = V.VCons(name, nil)
    is_s, is_i, is_f = GQ.is_cls(x, SPREAD), GQ.is_cls(x, INLINE), GQ.is_cls(x, FIELD)

    def sel(spread, inline, field=nil):
        return z3.If(is_f, field, z3.If(is_s, spread, z3.If(is_i, inline, nil)))
    fields = sel(z3.If(take, NF(fss, r, defs, tm), nil), z3.If(into, NF(iss, r1, defs, tm), nil), V.VCons(x, nil))
    bases = sel(z3.If(z3.Not(unpack), one, z3.If(applies, NS(fss, r, defs, tm), nil)), z3.If(into, NS(iss, r1, defs, tm), nil))
    unpacked = sel(z3.If(take, V.VCons(name, NU(fss, r, defs, tm)), nil), z3.If(into, NU(iss, r1, defs, tm), nil))
    used = sel(z3.If(take, NM(fss, r, defs, tm), nil), z3.If(into, NM(iss, r1, defs, tm), nil))
    return fields, bases, unpacked, used


# The flat-maps over a selection list are *declared* (uninterpreted) and constrained only by instances of their defining
# equations  f(nil) = nil,  f(x :: l) = piece(x) ++ f(l)  - true of the recursively defined functions, so whatever is proved
# holds for them; the solver is spared unfolding four large recursive definitions.  (Induction is the loop rule's.)
F_FLAT, S_FLAT, U_FLAT, M_FLAT = (z3.Function(n, V.VL, V.Val, V.Val, V.Val, V.VL)
                                  for n in ("resolved_fields_flat", "resolved_bases_flat", "resolved_unpacked_flat", "resolved_used_flat"))
FLATS = (F_FLAT, S_FLAT, U_FLAT, M_FLAT)


def piece_members(x, r, defs, tm, w):
    """membership of w in the bases / unpacked / used pieces of selection x, written out (ite distributed, one unfolding of `in`)"""
    name = CI.spread_name(x)
    fd = get(defs, name)
    fss = V.attr_of(fd, G.FragmentDefinitionNode, "selection_set")
    tc = CS.type_condition(fd)
    root_def, frag_def = get(tm, r), get(tm, tc)
    unpack = UNPACK(fd, root_def)
    applies = z3.Or(tc == r, z3.And(CS.is_abstract(frag_def), CS.IS_SUB(frag_def, root_def)))
    take = z3.And(unpack, applies)
    r1 = inline_root(x, r)
    iss = V.attr_of(x, G.InlineFragmentNode, "selection_set")
    into = truthy(r1)
    is_s, is_i, is_f = GQ.is_cls(x, SPREAD), GQ.is_cls(x, INLINE), GQ.is_cls(x, FIELD)

    def sel(spread, inline):
        return z3.And(z3.Not(is_f), z3.If(is_s, spread, z3.And(is_i, inline)))

    def inn(f, ss, root):
        return V.vl_contains(f(ss, root, defs, tm), w)
    return (sel(z3.If(z3.Not(unpack), name == w, z3.And(applies, inn(NS, fss, r))), z3.And(into, inn(NS, iss, r1))),
            sel(z3.And(take, z3.Or(name == w, inn(NU, fss, r))), z3.And(into, inn(NU, iss, r1))),
            sel(z3.And(take, inn(NM, fss, r)), z3.And(into, inn(NM, iss, r1))))


SCHEMA_TYPE = CS.SCHEMA_TYPE
NAMED_TYPE_NODE = CS.NAMED_TYPE_NODE
W = z3.Const("any_fragment_name", V.Val)          # the arbitrary name membership is compared for


def member(l, w):
    return V.vcontains(l, w)


def _gen_self(E, tm, defs):
    from pyvc.interp import ModelMethod
    s = self_obj(RT.ResultTypesGenerator, dict(schema=Obj(FakeSchema, {"type_map": tm}), fragments_definitions=defs,
                                               _unpacked_fragments=E.mset("unpacked0", GQ.NAME), _fragments_used_as_mixins=E.mset("used0", GQ.NAME)))

    def unpack(I, o, a, k):
        models._used("stand-in: self._unpack_fragment(definition, root type definition) - its own contract is in c08_fragments")
        rd = a[1] if len(a) > 1 else k.get("root_type_def")
        return SV(V.VBool(UNPACK(V.lower(a[0]), V.lower(rd))))

    def iroot(I, o, a, k):
        models._used("stand-in: self._get_inline_fragment_root_type(type condition, root type): None or the name of a schema type (its own contract is in c01_resolve)")
        r = INLINE_ROOT(V.lower(a[0]), V.lower(a[1]))
        I.p.assume(z3.Or(V.is_VNone(r), z3.And(V.is_VStr(r), has(tm.t, r), z3.Length(V.vs(r)) > 0)))
        return SV(r)
    s.attrs["_unpack_fragment"] = ModelMethod(s, unpack, "_unpack_fragment")
    s.attrs["_get_inline_fragment_root_type"] = ModelMethod(s, iroot, "_get_inline_fragment_root_type")
    return s


def _shapes(E):
    tm = E.sym("type_map", DictOf(GQ.NAME, SCHEMA_TYPE, name="type_map_rs"))
    known_type = Pred(lambda t: has(tm.t, t), "name of a schema type")                      # validated document: KnownTypeNames
    tnode = Cls(G.NamedTypeNode, name=Cls(G.NameNode, value=known_type))
    defs = E.sym("fragments_definitions", DictOf(GQ.NAME, Cls(G.FragmentDefinitionNode, type_condition=tnode, selection_set=Cls(G.SelectionSetNode)),
                                                 name="fragment_definitions_rs"))
    defined = Pred(lambda t: has(defs.t, t), "name of a defined fragment")                  # validated document: KnownFragmentNames
    sel = OneOf(Cls(G.FieldNode), Cls(G.InlineFragmentNode, type_condition=Opt(tnode), selection_set=Cls(G.SelectionSetNode)),
                Cls(G.FragmentSpreadNode, name=Cls(G.NameNode, value=defined)))
    ss = E.sym("selection_set", Cls(G.SelectionSetNode, selections=TupleOf(sel, name="the_selections_rs")))
    return tm, defs, ss


def _inv(rest, xs, st, I, env):
    s = env.lookup("self")
    defs, tm = V.lower(s.attrs["fragments_definitions"]), V.lower(s.attrs["schema"].attrs["type_map"])
    r = V.lower(env.lookup("root_type"))
    cur = (V.vl(st["fields"]), V.set_elems(st["fragments"]), V.set_elems(st["self._unpacked_fragments"]), V.set_elems(st["self._fragments_used_as_mixins"]))
    u0, m0 = I.ctx.__dict__["rs_unpacked0"], I.ctx.__dict__["rs_used0"]
    rs = z3.simplify(rest)
    if z3.is_app(rs) and rs.decl().name() == "VCons":
        x, r1 = rs.arg(0), rs.arg(1)
        ps = pieces(x, r, defs, tm)
        for f, p in zip(FLATS, ps):
            V.LEMMAS.append(f(rs, r, defs, tm) == V.vl_concat(p, f(r1, r, defs, tm)))              # defining equation at x :: rest'
        p, t = ps[0], F_FLAT(r1, r, defs, tm)
        V.LEMMAS.append(V.vl_concat(V.vl_concat(cur[0], p), t) == V.vl_concat(cur[0], V.vl_concat(p, t)))           # associativity instances
        V.LEMMAS.append(V.vl_concat(V.vl_concat(cur[0], V.VCons(x, V.VNil)), t) == V.vl_concat(cur[0], V.VCons(x, t)))
        V.LEMMAS.append(V.vl_concat(V.VNil, t) == t)
        V.LEMMAS.append(V.vl_concat(V.VCons(x, V.VNil), t) == V.VCons(x, t))
        fss = V.attr_of(get(defs, CI.spread_name(x)), G.FragmentDefinitionNode, "selection_set")
        iss = V.attr_of(x, G.InlineFragmentNode, "selection_set")
        tcn = V.attr_of(V.attr_of(inline_condition(x), G.NamedTypeNode, "name"), G.NameNode, "value")
        for nested in (NF(fss, r, defs, tm), NF(iss, inline_root(x, r), defs, tm), NF(iss, r, defs, tm), NF(iss, INLINE_ROOT(tcn, r), defs, tm)):
            V.LEMMAS.append(V.vl_concat(V.vl_concat(cur[0], nested), t) == V.vl_concat(cur[0], V.vl_concat(nested, t)))
        # membership in a concatenation, and in the piece of x (instances for the arbitrary name W)
        for f, p, m in zip(FLATS[1:], ps[1:], piece_members(x, r, defs, tm, W)):
            tl_ = f(r1, r, defs, tm)
            V.LEMMAS.append(V.vl_contains(V.vl_concat(p, tl_), W) == z3.Or(V.vl_contains(p, W), V.vl_contains(tl_, W)))
            V.LEMMAS.append(V.vl_contains(p, W) == m)
    if z3.is_app(rs) and rs.decl().name() == "VNil":
        for f in FLATS:
            V.LEMMAS.append(f(V.VNil, r, defs, tm) == V.VNil)                                      # defining equation at nil
    fields_ok = V.vl_concat(cur[0], F_FLAT(rest, r, defs, tm)) == F_FLAT(xs, r, defs, tm) if not (z3.is_app(rs) and rs.decl().name() == "VNil") \
        else cur[0] == F_FLAT(xs, r, defs, tm)

    def mem(l):
        return member(l, W)
    bases_ok = z3.Or(mem(cur[1]), mem(S_FLAT(rest, r, defs, tm))) == mem(S_FLAT(xs, r, defs, tm))
    unpacked_ok = z3.Or(mem(cur[2]), mem(U_FLAT(rest, r, defs, tm))) == z3.Or(mem(u0), mem(U_FLAT(xs, r, defs, tm)))
    used_ok = z3.Or(mem(cur[3]), mem(M_FLAT(rest, r, defs, tm))) == z3.Or(mem(m0), mem(M_FLAT(xs, r, defs, tm)))
    return z3.And(fields_ok, bases_ok, unpacked_ok, used_ok)


_inv.extra_mutated = [("self", "_unpacked_fragments"), ("self", "_fragments_used_as_mixins"), ("fields",), ("fragments",)]


class ResolveSelectionSet(Contract):
    props = ("C01", "C05", "C08", "C04")
    target = MOD + "_resolve_selection_set"
    partial_correctness = True
    frame_args = False
    assume_proved = True
    mutates = ("self",)
    trusted = ["termination of the recursion through the fragment definitions is not proved (acyclic by graphql-core's NoFragmentCycles validation rule)",
               "graphql-core: schema.type_map is a dict of the named types; schema.is_sub_type is a relation over (abstract type, type); is_abstract_type = interface or union",
               "validated document: every fragment spread names a defined fragment, every type condition names a schema type (KnownFragmentNames, KnownTypeNames)",
               "a set is an enumeration of its members; results that are sets are compared by membership of an arbitrary name",
               "associativity of list concatenation and membership in a concatenation, used as lemma instances"]
    loops = {"ResultTypesGenerator._resolve_selection_set": _inv}

    def setup(self, E):
        tm, defs, ss = _shapes(E)
        s = _gen_self(E, tm, defs)
        root = E.sym("root_type", GQ.NAME)
        E.assume(has(tm.t, root.t))                    # call sites pass the name of the schema type the class is generated for
        E.ctx.rs_unpacked0 = s.attrs["_unpacked_fragments"].elems
        E.ctx.rs_used0 = s.attrs["_fragments_used_as_mixins"].elems
        E.ctx.inputs["any_fragment_name"] = W
        return [s, ss, root], {}

    def requires(self, A):
        return z3.BoolVal(True)

    def _terms(self, A):
        tm = V.attr_of(V.attr_of(A.self, RT.ResultTypesGenerator, "schema"), FakeSchema, "type_map")
        defs = V.attr_of(A.self, RT.ResultTypesGenerator, "fragments_definitions")
        return defs, tm

    def apply_at_call(self, I, fn, args, kwargs):
        """recursive call: the pre-state must satisfy the precondition (root type is a schema type); result and effects are
        the uninterpreted nested results"""
        if getattr(I.p, "in_comprehension", False):
            from pyvc.interp import Unsupported
            raise Unsupported("a call that changes the bookkeeping state inside a comprehension (the comprehension rule covers pure element expressions)")
        names = self.call_names(fn, args, kwargs, I)
        s = names["self"]
        ss, r = V.lower(names["selection_set"]), V.lower(names["root_type"])
        defs, tm = V.lower(s.attrs["fragments_definitions"]), V.lower(s.attrs["schema"].attrs["type_map"])
        I.p.oblige("pre@_resolve_selection_set.root-type-is-a-schema-type", z3.And(V.is_VStr(r), has(tm, r)), "pre@call")
        for attr, f in (("_unpacked_fragments", NU), ("_fragments_used_as_mixins", NM)):
            cur = s.attrs[attr]
            if not isinstance(cur, MSet):
                from pyvc.interp import Unsupported
                raise Unsupported(f"self.{attr} is not a set any more")
            s.attrs[attr] = MSet(V.vconcat(cur.elems, f(ss, r, defs, tm)))
        models._used(f"contract:{self.target}")
        I.ctx.__dict__.setdefault("contracts_used", set()).add(self.target)
        return (SV(V.VList(NF(ss, r, defs, tm))), MSet(NS(ss, r, defs, tm)))

    def ensures(self, A, res):
        defs, tm = self._terms(A)
        r = A.root_type
        sels = V.vt(V.attr_of(A.selection_set, G.SelectionSetNode, "selections"))
        for f in FLATS:
            V.LEMMAS.append(z3.Implies(V.is_VNil(sels), f(sels, r, defs, tm) == V.VNil))        # defining equation at the empty selection list
        fields, bases = V.nth(V.vt(res), 0), V.nth(V.vt(res), 1)
        fin = A.final_self
        u0 = V.set_elems(V.attr_of(A.self, RT.ResultTypesGenerator, "_unpacked_fragments"))
        m0 = V.set_elems(V.attr_of(A.self, RT.ResultTypesGenerator, "_fragments_used_as_mixins"))
        u1 = V.set_elems(V.attr_of(fin, RT.ResultTypesGenerator, "_unpacked_fragments"))
        m1 = V.set_elems(V.attr_of(fin, RT.ResultTypesGenerator, "_fragments_used_as_mixins"))
        out = {"fields-of-the-class-in-document-order": fields == V.VList(F_FLAT(sels, r, defs, tm)),
               "bases-are-the-spread-fragments-that-are-not-unpacked-and-those-of-the-unpacked-parts":
                   member(V.set_elems(bases), W) == member(S_FLAT(sels, r, defs, tm), W),
               "unpacked-fragments-recorded": member(u1, W) == z3.Or(member(u0, W), member(U_FLAT(sels, r, defs, tm), W)),
               "fragments-used-as-bases-recorded": member(m1, W) == z3.Or(member(m0, W), member(M_FLAT(sels, r, defs, tm), W), member(S_FLAT(sels, r, defs, tm), W))}
        return out

    def replay_custom(self, inputs):
        return replay_resolution()

    def samples(self, tier):
        return [dict(case="documents")]


def replay_resolution():
    """native cross-check on a real schema and documents: the real method against a direct transcription of the equations"""
    schema = G.build_schema("""
        interface Node { id: ID! }
        interface Named { name: String }
        type User implements Node & Named { id: ID! name: String friend: User }
        type Bot implements Node { id: ID! model: String }
        union Actor = User | Bot
        type Query { node: Node actor: Actor me: User }
    """)
    doc = G.parse("""
        query Q { me { id ...UserBase ...OnNode ... on Named { name ...NamedName } ... { friend { id } } ...OnBot ...WithInline }
                  node { id ...OnNode ...OnBot ... on User { ...UserBase } }
                  actor { ...OnActor ... on Bot { model } } }
        fragment UserBase on User { name ...UserMore }
        fragment UserMore on User { friend { id } }
        fragment OnNode on Node { id }
        fragment NamedName on Named { name }
        fragment OnBot on Bot { model }
        fragment WithInline on User { id ... on Node { id } ...UserMore }
        fragment OnActor on Actor { ... on User { name } }
    """)
    defs = {d.name.value: d for d in doc.definitions if isinstance(d, G.FragmentDefinitionNode)}
    op = doc.definitions[0]
    rep = dict(inputs={"document": "fields, spreads on the same / an implemented / an unrelated type, inline fragments with and without type condition"},
               failed=[], undetermined=[], pre_ok=True, outcome={}, error=None)

    def fresh():
        g = RT.ResultTypesGenerator.__new__(RT.ResultTypesGenerator)
        g.schema, g.fragments_definitions = schema, defs
        g._unpacked_fragments, g._fragments_used_as_mixins = {"Earlier"}, {"EarlierBase"}
        return g

    def spec(g, ss, r):
        fields, bases, unpacked, used = [], set(), set(), set()
        for s in ss.selections:
            if isinstance(s, G.FieldNode):
                fields.append(s)
            elif isinstance(s, G.FragmentSpreadNode):
                d = defs[s.name.value]
                tc = d.type_condition.name.value
                if not g._unpack_fragment(d, schema.type_map[r]):
                    bases.add(s.name.value)
                elif tc == r or (G.is_abstract_type(schema.type_map[tc]) and schema.is_sub_type(schema.type_map[tc], schema.type_map[r])):
                    f2, b2, u2, m2 = spec(g, d.selection_set, r)
                    fields += f2; bases |= b2; unpacked |= {s.name.value} | u2; used |= m2
            elif isinstance(s, G.InlineFragmentNode):
                r1 = r if s.type_condition is None else g._get_inline_fragment_root_type(s.type_condition.name.value, r)
                if r1:
                    f2, b2, u2, m2 = spec(g, s.selection_set, r1)
                    fields += f2; bases |= b2; unpacked |= u2; used |= m2
        return fields, bases, unpacked, used | bases
    for fld, roots in zip(op.selection_set.selections, (["User"], ["Node", "User", "Bot"], ["Actor", "User", "Bot"])):
        for r in roots:
            g = fresh()
            try:
                got_fields, got_bases = g._resolve_selection_set(fld.selection_set, r)
            except Exception as e:   # noqa
                rep["outcome"][f"{fld.name.value}@{r}"] = repr(e)
                rep["failed"].append("no exception may escape")
                continue
            wf, wb, wu, wm = spec(fresh(), fld.selection_set, r)
            rep["outcome"][f"{fld.name.value}@{r}"] = dict(fields=[f.name.value for f in got_fields], bases=sorted(got_bases),
                                                          unpacked=sorted(g._unpacked_fragments), used=sorted(g._fragments_used_as_mixins))
            if [id(f) for f in got_fields] != [id(f) for f in wf]:
                rep["failed"].append("post.fields-of-the-class-in-document-order")
            if set(got_bases) != wb:
                rep["failed"].append("post.bases-are-the-spread-fragments-that-are-not-unpacked-and-those-of-the-unpacked-parts")
            if g._unpacked_fragments != {"Earlier"} | wu:
                rep["failed"].append("post.unpacked-fragments-recorded")
            if g._fragments_used_as_mixins != {"EarlierBase"} | wm:
                rep["failed"].append("post.fragments-used-as-bases-recorded")
    rep["failed"] = sorted(set(rep["failed"]))
    return rep


CONTRACTS = [ResolveSelectionSet()]


# ------------------------------------------------------------------------------------------ _get_inline_fragment_root_type
INTERFACES = ListOf(Cls(G.GraphQLInterfaceType, name=GQ.NAME), name="implemented_interfaces")
ROOT_TYPE = OneOf(Cls(G.GraphQLObjectType, name=GQ.NAME, interfaces=INTERFACES), Cls(G.GraphQLInterfaceType, name=GQ.NAME), Cls(G.GraphQLUnionType, name=GQ.NAME))
interface_names = SpecMap("implemented_interface_names", lambda t: GQ.name_of(t))


class FakeTypeMap:
    """schema.type_map of which one lookup is observed: get(key) answers with the symbolic entry the setup provides and
    records the key"""

    def _get(I, o, a, k):
        I.p.effect("type_map.get", V.lower(a[0]))
        return o.attrs["entry"]

    __pyvc_methods__ = {"get": _get}


V.REG.register(FakeTypeMap, ["entry"])


class GetInlineFragmentRootType(Contract):
    """for which type the fields of `... on T { }` are resolved when the class of `root_type` is built: T itself when the class's
    type is an object type implementing T, the root type when T is the root type, otherwise the inline fragment contributes
    nothing (None) - also when the root type is unknown.  The type map is observed through its one lookup: the entry found for
    the key (None when absent) is an input, the key must be the root type."""
    props = ("C01", "C05", "C08")
    target = MOD + "_get_inline_fragment_root_type"
    use_at_calls = False
    frame_args = False

    def setup(self, E):
        entry = E.sym("type_of_root", Opt(ROOT_TYPE))
        s = self_obj(RT.ResultTypesGenerator, dict(schema=Obj(FakeSchema, {"type_map": Obj(FakeTypeMap, {"entry": entry})})))
        return [s, E.sym("selection_value", GQ.NAME), E.sym("root_type", Str)], {}

    def ensures(self, A, res):
        t = V.attr_of(V.attr_of(V.attr_of(A.self, RT.ResultTypesGenerator, "schema"), FakeSchema, "type_map"), FakeTypeMap, "entry")
        ifaces = V.vl(V.attr_of(t, G.GraphQLObjectType, "interfaces"))
        names = interface_names.apply(A["__path__"], ifaces) if "__path__" in A else interface_names(ifaces)
        implemented = z3.And(GQ.is_cls(t, V.REG.info(G.GraphQLObjectType)), V.vl_contains(names, A.selection_value))
        looked_up = [p for k, p in A["__effects__"] if k == "type_map.get"]
        return {"the-implemented-interface/the-root-type-itself/else-nothing":
                res == z3.If(V.is_VNone(t), V.VNone,
                             z3.If(implemented, A.selection_value, z3.If(A.selection_value == A.root_type, A.root_type, V.VNone))),
                "the-type-looked-up-is-the-root-type": z3.And(z3.BoolVal(len(looked_up) == 1), *[k == A.root_type for k in looked_up])}

    def native_self(self):
        g = RT.ResultTypesGenerator.__new__(RT.ResultTypesGenerator)
        g.schema = G.build_schema("""
            interface Node { id: ID! } interface Named { name: String }
            type User implements Node & Named { id: ID! name: String } type Bot implements Node { id: ID! }
            union Actor = User | Bot  type Query { node: Node actor: Actor }""")
        return g

    def replay_custom(self, inputs):
        g = self.native_self()
        rep = dict(inputs={"schema": "User implements Node & Named, Bot implements Node, union Actor"}, failed=[], undetermined=[], pre_ok=True, outcome={}, error=None)
        want = {("Node", "User"): "Node", ("Named", "User"): "Named", ("Named", "Bot"): None, ("User", "User"): "User", ("User", "Node"): None, ("Node", "Node"): "Node",
                ("User", "Actor"): None, ("Actor", "Actor"): "Actor", ("Node", "Missing"): None, ("Node", ""): None}
        for (sv, rt), w in want.items():
            got = g._get_inline_fragment_root_type(sv, rt)
            rep["outcome"][f"{sv}@{rt}"] = got
            if got != w:
                rep["failed"].append("post.the-implemented-interface/the-root-type-itself/else-nothing")
        rep["failed"] = sorted(set(rep["failed"]))
        return rep

    def samples(self, tier):
        return [dict(case="schema")]


CONTRACTS.append(GetInlineFragmentRootType())
