"""Replay vehicle / bounded stand-in for C16: run the real graphqlschema strategy, execute the generated module and
compare print_schema with the source; also the .graphql target."""
import contextlib
import io
import os
import re
import shutil
import tempfile
import graphql as G

SCHEMAS = {
    "everything": '''
        """Schema description"""
        schema { query: RootQ mutation: RootM }
        directive @tag(name: String = "x", weight: Int = null) repeatable on FIELD_DEFINITION | OBJECT
        "directive with arguments of schema-defined types"
        directive @role(r: Role = USER, at: DateTime, f: Nested = {depth: 2.0}, many: [Role!]) on FIELD_DEFINITION | ENUM_VALUE
        scalar DateTime @specifiedBy(url: "https://example.com/dt")
        interface Node { id: ID! }
        interface Named implements Node { id: ID! name: String }
        """A user
        with two lines"""
        type User implements Node & Named { id: ID! name: String @deprecated(reason: "old") role: Role created: DateTime
          friends(first: Int = 10, after: String = null, filter: Filter = {role: ADMIN, tags: ["a", "b"], nested: {depth: 1.5e300}}): [User!]! }
        "Summary line\\n  - item one (indented)\\n    - nested item\\n  - item two"
        type Bot implements Node { id: ID! legacy: String @deprecated lists: [[Int!]]! opt: [Int!] req: [Int]! args(a: [Int!], b: [Int]!, c: [[ID!]!]): Int }
        "  leading and trailing blanks  "
        type Zed implements Named & Node { id: ID! name: String "  indented field description\\n    second line" z: Int }
        union Reversed = Zed | User | Bot
        union Actor = User | Bot
        enum Role { ADMIN @deprecated(reason: "no") USER OLD @deprecated }
        input Wrappers { a: [Int!] b: [Int]! c: [[String!]]! d: [[ID]!] old: Int @deprecated }
        input Nested { depth: Float = 0.5 note: String = "quote\\"d" }
        input Filter { role: Role = USER tags: [String!] = [] nested: Nested limit: Int = null flag: Boolean = false }
        type RootQ { node(id: ID!): Node actors: [Actor] }
        type RootM { touch(at: DateTime): Boolean }
    ''',
    "minimal": "type Query { a: Int }",
    "extensions": '''
        schema { query: Q }
        type Q { a: Int }
        type M { set(v: Mode = SLOW): Int }
        type S { ticks: Int }
        enum Mode { SLOW }
        input In { a: Int }
        extend schema { mutation: M subscription: S }
        extend type Q { b(i: In): Mode }
        extend enum Mode { FAST }
        extend input In { b: Mode = FAST }
    ''',
    "multi-line-schema-and-directive-descriptions": '''
        """First line of the schema description
        second line: with "quotes", a # hash and a \\ backslash

          indented paragraph"""
        schema { query: Query }
        """directive description
        over two lines"""
        directive @note(text: String = "a\\nb") on FIELD_DEFINITION
        type Query { a: Int }
    ''',
    # descriptions are text: lines that start with a hash (markdown headings, hashtags), with a quote, with a brace stay in them
    "descriptions-with-lines-that-look-like-comments-or-sdl": '''
        """
        # Query root
        The entry point.
          # indented heading
        #hashtag
        type Fake { x: Int }
        """
        type Query {
          """
          # field
          }
          """
          a(
            "# argument description"
            n: Int
          ): Mode
        }
        """
        # An enum
        """
        enum Mode {
          """
          #1 value
          """
          FAST
          SLOW
        }
    ''',
}


def check_round_trip(name="everything", extra_type_names=()):
    from ariadne_codegen.main import graphql_schema
    rep = dict(inputs={"schema": name, "extra_type_names": list(extra_type_names)}, failed=[], undetermined=[], pre_ok=True, outcome={}, error=None, cases=[])
    sdl = SCHEMAS[name]
    for n in extra_type_names:
        if re.fullmatch(r"[_A-Za-z][_0-9A-Za-z]*", n) and not n.startswith("__") and n not in ("ID", "Boolean", "Float", "Int", "String") and f" {n} " not in sdl:
            sdl += f"\ntype {n} {{ x: Int }}\n"
    d = tempfile.mkdtemp(prefix="pyvc_schema_")
    try:
        open(os.path.join(d, "schema.graphql"), "w").write(sdl)
        source = G.build_schema(sdl)
        # the same schema as a directory of files: the first ends in a comment without a newline, the second adds a documented type
        os.makedirs(os.path.join(d, "schema_dir", "sub"))
        extra = '"""described in the second file"""\ntype FromSecondFile { note: String }'
        open(os.path.join(d, "schema_dir", "a_main.graphql"), "w").write(sdl.rstrip() + "\n# end of the first file")
        open(os.path.join(d, "schema_dir", "sub", "b_more.graphqls"), "w").write(extra)
        # a third file whose name has several dots, a file that is not a schema file, a directory named like a schema file
        extra2 = 'type FromDottedFile { n: Int }'
        open(os.path.join(d, "schema_dir", "sub", "c.types.v2.gql"), "w").write(extra2)
        open(os.path.join(d, "schema_dir", "notes.graphql.txt"), "w").write("this is not SDL {")
        os.makedirs(os.path.join(d, "schema_dir", "empty.graphql"))
        extra_first = extra
        extra = extra + "\n" + extra2
        source_dir = G.build_schema(sdl + "\n" + extra)
        # every accepted file type, in the spellings the settings accept (the type is case-insensitive)
        single = source
        for target, var, tmv in (("out.py", "mySchema", "TYPES_map"), ("out.graphql", "schema", "type_map"), ("UPPER.PY", "schema", "type_map"),
                                 ("Mixed.Gql", "schema", "type_map"), ("from_dir.py", "schema", "type_map"), ("from_dir.graphql", "schema", "type_map")):
            from_dir = target.startswith("from_dir")
            source = source_dir if from_dir else single
            cfg = dict(schema_path=os.path.join(d, "schema_dir" if from_dir else "schema.graphql"), target_file_path=os.path.join(d, target),
                       schema_variable_name=var, type_map_variable_name=tmv, plugins=[])
            try:
                with contextlib.redirect_stdout(io.StringIO()):
                    graphql_schema({"tool": {"ariadne-codegen": cfg}})
                if target.lower().endswith(".py"):
                    ns = {}
                    exec(compile(open(os.path.join(d, target)).read(), target, "exec"), ns)
                    rebuilt = ns[var]
                    if tmv not in ns:
                        rep["failed"].append("variable-names-used")
                else:
                    rebuilt = G.build_schema(open(os.path.join(d, target)).read())
                if sorted(d.name for d in rebuilt.directives) != sorted(d.name for d in source.directives):
                    rep["failed"].append(f"directives[{target}]")
                    rep["outcome"][target + ":directives"] = sorted(d.name for d in rebuilt.directives)
                probe = G.parse("query P($c: Boolean!) { __typename @include(if: $c) }")
                if [e.message for e in G.validate(rebuilt, probe)] != [e.message for e in G.validate(source, probe)]:
                    rep["failed"].append(f"same-operations-valid[{target}]")
                if G.print_schema(rebuilt) != G.print_schema(source):
                    rep["failed"].append(f"round-trip[{target}]")
                    rep["cases"].append(target)
            except Exception as e:   # noqa
                rep["outcome"][target] = f"{type(e).__name__}: {str(e)[:200]}"
                rep["failed"].append(f"round-trip[{target}]")
        # history: the schema source is edited in place (a file inside the directory; the single file) and the command is run
        # again over its earlier output, with other variable names: the output is the one of the inputs as they are NOW
        try:
            import time
            extra3 = "type AddedLater { n: Int }"
            time.sleep(0.02)
            with open(os.path.join(d, "schema_dir", "sub", "b_more.graphqls"), "a") as f:
                f.write("\n" + extra3)
            with open(os.path.join(d, "schema.graphql"), "a") as f:
                f.write("\n" + extra3)
            now_dir, now_single = G.build_schema("\n".join([sdl, extra_first, extra3, extra2])), G.build_schema(sdl + "\n" + extra3)      # (files in sorted order)
            for target, from_dir, var, tmv in (("from_dir.py", True, "laterSchema", "later_map"), ("from_dir.graphql", True, "schema", "type_map"),
                                               ("out.py", False, "laterSchema", "later_map"), ("out.graphql", False, "schema", "type_map")):
                cfg = dict(schema_path=os.path.join(d, "schema_dir" if from_dir else "schema.graphql"), target_file_path=os.path.join(d, target),
                           schema_variable_name=var, type_map_variable_name=tmv, plugins=[])
                with contextlib.redirect_stdout(io.StringIO()):
                    graphql_schema({"tool": {"ariadne-codegen": cfg}})
                if target.endswith(".py"):
                    ns = {}
                    exec(compile(open(os.path.join(d, target)).read(), target, "exec"), ns)
                    if var not in ns or tmv not in ns:
                        rep["failed"].append(f"regenerated-with-the-chosen-variable-names[{target}]")
                        continue
                    rebuilt = ns[var]
                else:
                    rebuilt = G.build_schema(open(os.path.join(d, target)).read())
                if G.print_schema(rebuilt) != G.print_schema(now_dir if from_dir else now_single):
                    rep["failed"].append(f"regenerated-from-the-edited-source[{target}]")
                    rep["cases"].append("regenerated:" + target)
        except Exception as e:   # noqa
            rep["outcome"]["regeneration"] = f"{type(e).__name__}: {str(e)[:200]}"
            rep["failed"].append("regenerated-from-the-edited-source")
    finally:
        shutil.rmtree(d, ignore_errors=True)
    return rep


def bounded_round_trip(tier, seed):
    fails = []
    cases = 0
    for name in SCHEMAS:
        for extra in ((), ("_Entity", "_Any")):
            cases += 1
            r = check_round_trip(name, extra)
            if r["failed"]:
                fails.append(r)
    return dict(function="ariadne_codegen.graphql_schema_generators.schema:generate_schema_module", name="bounded.schema-round-trip",
                kind="bounded stand-in (schema list, end to end)", domain=f"{cases} schemas x {{py, graphql}} targets", cases=cases * 2,
                failed=len(fails), failures=fails)
