"""C01 / C05 / C08 - which inline fragments belong to a selection set.

get_inline_fragments_from_selection_set decides for which runtime types a field gets its own class: it must return every
inline fragment of the selection set itself and of every named fragment spread in it, *at any depth* of named fragments,
in document order.  Contract: the one-step unfolding equation

    result(selection_set) = concat over its selections of   [s]                          if s is an inline fragment
                                                            result(definition(s.name))   if s is a fragment spread
                                                            []                           otherwise

where the nested results are those of the recursive calls (partial correctness: for every terminating call; fragment
definitions of a validated document are acyclic - graphql-core's NoFragmentCycles - which is what terminates the
recursion and is not proved here)."""
import z3
import graphql as G
from pyvc import val as V
from pyvc.contract import Contract
from pyvc.spec import *   # noqa
from . import lib_graphql as GQ

# the selection node classes with the keys the contracts speak about (the same lists as in c08_fragments)
for _c, _f in ((G.FragmentDefinitionNode, ["name", "type_condition", "selection_set", "directives"]), (G.SelectionSetNode, ["selections"]),
               (G.InlineFragmentNode, ["type_condition", "selection_set", "directives"]), (G.FragmentSpreadNode, ["name", "directives"]),
               (G.FieldNode, ["alias", "name", "arguments", "directives", "selection_set"])):
    if _c not in V.REG.by_cls:
        V.REG.register(_c, _f)

TARGET = "ariadne_codegen.client_generators.result_fields:get_inline_fragments_from_selection_set"
NESTED = z3.Function("inline_fragments_of", V.Val, V.Val, V.VL)      # result of a (recursive) call: (selection set, definitions) -> list

INLINE, SPREAD, FIELD = (V.REG.info(c) for c in (G.InlineFragmentNode, G.FragmentSpreadNode, G.FieldNode))


def spread_name(x):
    return V.attr_of(V.attr_of(x, G.FragmentSpreadNode, "name"), G.NameNode, "value")


def piece(x, defs):
    target = V.attr_of(get(defs, spread_name(x)), G.FragmentDefinitionNode, "selection_set")
    return z3.If(GQ.is_cls(x, INLINE), V.VCons(x, V.VNil), z3.If(GQ.is_cls(x, SPREAD), NESTED(target, defs), V.VNil))


flat = z3.RecFunction("inline_fragments_flat", V.VL, V.Val, V.VL)
_l, _d = z3.Const("if_l", V.VL), z3.Const("if_d", V.Val)
z3.RecAddDefinition(flat, [_l, _d], z3.If(V.is_VNil(_l), V.VNil, V.vl_concat(piece(V.hd(_l), _d), flat(V.tl(_l), _d))))


class GetInlineFragments(Contract):
    props = ("C01", "C05", "C08")
    target = TARGET
    partial_correctness = True
    frame_args = False
    trusted = ["termination of the recursion through the fragment definitions is not proved (acyclic by graphql-core's NoFragmentCycles validation rule)",
               "associativity of list concatenation, used as lemma instances ((a ++ p) ++ t == a ++ (p ++ t))"]

    def setup(self, E):
        defs = E.sym("fragments_definitions", DictOf(GQ.NAME, Cls(G.FragmentDefinitionNode), name="fragment_definitions"))
        defined = Pred(lambda t: has(defs.t, t), "name of a defined fragment")      # validated document: KnownFragmentNames
        sel = OneOf(Cls(G.FieldNode), Cls(G.InlineFragmentNode), Cls(G.FragmentSpreadNode, name=Cls(G.NameNode, value=defined)))
        ss = E.sym("selection_set", Opt(Cls(G.SelectionSetNode, selections=TupleOf(sel, name="the_selections"))))
        return [ss, defs], {}

    @property
    def loops(self):
        def inv(rest, xs, st, I, env):
            defs = V.lower(env.lookup("fragments_definitions"))
            cur = V.vl(st["inline_fragments"]) if "inline_fragments" in st else V.VNil
            rs = z3.simplify(rest)
            if z3.is_app(rs) and rs.decl().name() == "VNil":
                return cur == flat(xs, defs)
            if z3.is_app(rs) and rs.decl().name() == "VCons":
                x, r1 = rs.arg(0), rs.arg(1)
                p, t = piece(x, defs), flat(r1, defs)
                V.LEMMAS.append(flat(rs, defs) == V.vl_concat(p, t))                                           # unfolding
                V.LEMMAS.append(V.vl_concat(V.vl_concat(cur, p), t) == V.vl_concat(cur, V.vl_concat(p, t)))   # associativity instance
                V.LEMMAS.append(V.vl_concat(V.vl_concat(cur, V.VCons(x, V.VNil)), t) == V.vl_concat(cur, V.VCons(x, t)))
                V.LEMMAS.append(V.vl_concat(V.VNil, t) == t)
                V.LEMMAS.append(V.vl_concat(V.VCons(x, V.VNil), t) == V.VCons(x, t))
            return V.vl_concat(cur, flat(rest, defs)) == flat(xs, defs)
        return {"get_inline_fragments_from_selection_set": inv}

    def result_term(self, A):
        return V.VList(NESTED(A.selection_set, A.fragments_definitions))

    def ensures(self, A, res):
        ss, defs = A.selection_set, A.fragments_definitions
        sels = V.vt(V.attr_of(ss, G.SelectionSetNode, "selections"))
        return {"own-inline-fragments-and-those-of-every-spread-fragment-at-any-depth-in-document-order":
                res == V.VList(z3.If(V.is_VNone(ss), V.VNil, flat(sels, defs)))}

    def replay_custom(self, inputs):
        return replay_nested()

    def samples(self, tier):
        return [dict(case="nested")]


def replay_nested():
    """native cross-check on real documents: 0, 1, 2 and 3 levels of named fragments, mixed order"""
    from ariadne_codegen.client_generators.result_fields import get_inline_fragments_from_selection_set as real
    doc = G.parse("""
        query Q { a { id ... on A { x } ...F1 ... on B { y } } b { ...F3 } c { id } }
        fragment F1 on N { ... on C { z } ...F2 name }
        fragment F2 on N { ...Leaf ... on D { w } }
        fragment Leaf on N { id }
        fragment F3 on N { ...F1 ... on E { v } }
    """)
    defs = {d.name.value: d for d in doc.definitions if isinstance(d, G.FragmentDefinitionNode)}
    op = doc.definitions[0]
    rep = dict(inputs={"document": "0-3 levels of named fragments"}, failed=[], undetermined=[], pre_ok=True, outcome={}, error=None)

    def spec(ss):
        out = []
        for s in (ss.selections if ss else ()):
            if isinstance(s, G.InlineFragmentNode):
                out.append(s)
            elif isinstance(s, G.FragmentSpreadNode):
                out += spec(defs[s.name.value].selection_set)
        return out
    for fld in op.selection_set.selections:
        got = real(fld.selection_set, defs)
        want = spec(fld.selection_set)
        rep["outcome"][fld.name.value] = [g.type_condition.name.value for g in got]
        if [id(x) for x in got] != [id(x) for x in want]:
            rep["failed"].append("post.own-inline-fragments-and-those-of-every-spread-fragment-at-any-depth-in-document-order")
    if real(None, defs) != [] or real(op.selection_set.selections[2].selection_set, None) != []:
        rep["failed"].append("post.own-inline-fragments-and-those-of-every-spread-fragment-at-any-depth-in-document-order")
    return rep


CONTRACTS = [GetInlineFragments()]
