"""C02 - `the operation followed by exactly the fragment definitions reachable from it`: which fragments a selection set reaches.

ResultTypesGenerator._get_fragments_names(selection_set) collects the names of the fragments spread in the selection set, in the
selection sets nested in it (fields, inline fragments) and - through the definitions - in the fragments those spread, to any depth.
Contract, for an arbitrary fragment name W (the result is a set: compared by membership): the one-step unfolding equation

    W in result(selection_set)   <=>   for some selection s of it:
                                          s spreads a fragment named N  and  ( W = N  or  W in result(definition(N).selection_set) )
                                       or s is a field / inline fragment with a selection set  and  W in result(s.selection_set)

where the nested results are those of the recursive calls (partial correctness: the recursion through the definitions terminates
because fragment definitions of a validated document are acyclic; not proved here).  The existential fold over the selections is a
declared function constrained by instances of its defining equations."""
import z3
import graphql as G
from pyvc import val as V
from pyvc import models
from pyvc.val import SV, Obj, MSet
from pyvc.contract import Contract, self_obj
from pyvc.spec import *   # noqa
from . import lib_graphql as GQ
from . import c03_arguments as _c03       # noqa: F401
from . import c01_inline as CI
from . import lib_generator as _lg        # noqa: F401
from ariadne_codegen.client_generators import result_types as RT

MOD = "ariadne_codegen.client_generators.result_types:ResultTypesGenerator."
W = z3.Const("any_reachable_fragment_name", V.Val)
NESTED = z3.Function("fragments_reached_from", V.Val, V.Val, V.VL)           # (selection set, definitions) -> an enumeration of the result set
ANY = z3.Function("some_selection_reaches", V.VL, V.Val, V.Val, z3.BoolSort())   # (selections, definitions, name)
SPREAD, INLINE, FIELD = CI.SPREAD, CI.INLINE, CI.FIELD


def nested_selection(x):
    return z3.If(GQ.is_cls(x, FIELD), V.attr_of(x, G.FieldNode, "selection_set"), V.attr_of(x, G.InlineFragmentNode, "selection_set"))


def piece(x, defs, w):
    name = CI.spread_name(x)
    target = V.attr_of(get(defs, name), G.FragmentDefinitionNode, "selection_set")
    ss = nested_selection(x)
    return z3.If(GQ.is_cls(x, SPREAD), z3.Or(name == w, V.vl_contains(NESTED(target, defs), w)),
                 z3.And(z3.Or(GQ.is_cls(x, FIELD), GQ.is_cls(x, INLINE)), truthy(ss), V.vl_contains(NESTED(ss, defs), w)))


def _inv(rest, xs, st, I, env):
    defs = V.lower(env.lookup("self").attrs["fragments_definitions"])
    cur = V.set_elems(st["names"])
    rs = z3.simplify(rest)
    if z3.is_app(rs) and rs.decl().name() == "VCons":
        x, r1 = rs.arg(0), rs.arg(1)
        V.LEMMAS.append(ANY(rs, defs, W) == z3.Or(piece(x, defs, W), ANY(r1, defs, W)))           # defining equation at x :: rest'
    if z3.is_app(rs) and rs.decl().name() == "VNil":
        V.LEMMAS.append(z3.Not(ANY(V.VNil, defs, W)))                                              # defining equation at nil
    return z3.Or(V.vcontains(cur, W), ANY(rest, defs, W)) == ANY(xs, defs, W)


_inv.extra_mutated = [("names",)]


class GetFragmentsNames(Contract):
    props = ("C02",)
    target = MOD + "_get_fragments_names"
    partial_correctness = True
    frame_args = False
    assume_proved = True
    trusted = ["termination of the recursion through the fragment definitions is not proved (acyclic by graphql-core's NoFragmentCycles validation rule)",
               "validated document: every fragment spread names a defined fragment (KnownFragmentNames)",
               "a set is an enumeration of its members; the result is compared by membership of an arbitrary name"]
    loops = {"ResultTypesGenerator._get_fragments_names": _inv}

    def setup(self, E):
        sel_set = Cls(G.SelectionSetNode)
        defs = E.sym("fragments_definitions", DictOf(GQ.NAME, Cls(G.FragmentDefinitionNode, selection_set=sel_set), name="fragment_definitions_gfn"))
        defined = Pred(lambda t: has(defs.t, t), "name of a defined fragment")
        sel = OneOf(Cls(G.FieldNode, selection_set=Opt(sel_set)), Cls(G.InlineFragmentNode, selection_set=sel_set),
                    Cls(G.FragmentSpreadNode, name=Cls(G.NameNode, value=defined)))
        ss = E.sym("selection_set", Cls(G.SelectionSetNode, selections=TupleOf(sel, name="the_selections_gfn")))
        E.ctx.inputs["any_reachable_fragment_name"] = W
        return [self_obj(RT.ResultTypesGenerator, dict(fragments_definitions=defs)), ss], {}

    def apply_at_call(self, I, fn, args, kwargs):
        if getattr(I.p, "in_comprehension", False):
            from pyvc.interp import Unsupported
            raise Unsupported("recursive call inside a comprehension")
        names = self.call_names(fn, args, kwargs, I)
        defs = V.lower(names["self"].attrs["fragments_definitions"])
        models._used(f"contract:{self.target}")
        return MSet(NESTED(V.lower(names["selection_set"]), defs))

    def ensures(self, A, res):
        defs = V.attr_of(A.self, RT.ResultTypesGenerator, "fragments_definitions")
        sels = V.vt(V.attr_of(A.selection_set, G.SelectionSetNode, "selections"))
        V.LEMMAS.append(z3.Implies(V.is_VNil(sels), z3.Not(ANY(sels, defs, W))))
        return {"exactly-the-fragments-reachable-through-spreads-and-nested-selection-sets": V.vcontains(V.set_elems(res), W) == ANY(sels, defs, W)}

    def replay_custom(self, inputs):
        return replay_reachable()

    def samples(self, tier):
        return [dict(case="documents")]


def replay_reachable():
    doc = G.parse("""
        query Q { a { id ...F1 b { ...F2 } ... on T { c { ...F3 } } } d }
        fragment F1 on T { x ...F4 }
        fragment F2 on T { y }
        fragment F3 on T { z { ...F2 } }
        fragment F4 on T { w { ... on U { ...F5 } } }
        fragment F5 on U { v }
        fragment Unused on T { u }
    """)
    defs = {d.name.value: d for d in doc.definitions if isinstance(d, G.FragmentDefinitionNode)}
    g = RT.ResultTypesGenerator.__new__(RT.ResultTypesGenerator)
    g.fragments_definitions = defs
    rep = dict(inputs={"document": "spreads at depth 0-2, through fields, inline fragments and definitions"}, failed=[], undetermined=[], pre_ok=True, outcome={}, error=None)
    want = {"Q": {"F1", "F2", "F3", "F4", "F5"}, "F1": {"F4", "F5"}, "F3": {"F2"}, "F5": set()}
    nodes = {"Q": doc.definitions[0], **defs}
    for k, w in want.items():
        got = g._get_fragments_names(nodes[k].selection_set)
        rep["outcome"][k] = sorted(got)
        if set(got) != w:
            rep["failed"].append("post.exactly-the-fragments-reachable-through-spreads-and-nested-selection-sets")
    rep["failed"] = sorted(set(rep["failed"]))
    return rep


CONTRACTS = [GetFragmentsNames()]


# ------------------------------------------------------------------------------------------ the fragments sent with an operation
REACHED = z3.Function("fragments_reached_from_selection_set", V.Val, V.VL)        # what _get_fragments_names returns for a selection set
ANY_OF = z3.Function("some_used_fragment_reaches", V.VL, V.Val, V.Val, z3.BoolSort())    # (names, definitions, name)


def reached_from(defs, n):
    return REACHED(V.attr_of(get(defs, n), G.FragmentDefinitionNode, "selection_set"))


def _all_inv(rest, xs, st, I, env):
    defs = V.lower(env.lookup("self").attrs["fragments_definitions"])
    base = I.ctx.__dict__["garf_base"]
    cur = V.set_elems(st["fragments_names"])
    rs = z3.simplify(rest)
    if z3.is_app(rs) and rs.decl().name() == "VCons":
        x, r1 = rs.arg(0), rs.arg(1)
        V.LEMMAS.append(ANY_OF(rs, defs, W) == z3.Or(V.vl_contains(reached_from(defs, x), W), ANY_OF(r1, defs, W)))       # defining equation at x :: rest'
        V.LEMMAS.append(V.vl_contains(xs, x) == V.vcontains(base, x))                                                      # sorted(set) has exactly the set's elements
        V.LEMMAS.append(z3.Implies(V.vcontains(base, x), has(defs, x)))                                                    # (instance of the assumption: recorded fragments are defined)
    if z3.is_app(rs) and rs.decl().name() == "VNil":
        V.LEMMAS.append(z3.Not(ANY_OF(V.VNil, defs, W)))
    return z3.Or(V.vcontains(cur, W), ANY_OF(rest, defs, W)) == z3.Or(V.vcontains(base, W), ANY_OF(xs, defs, W))


_all_inv.extra_mutated = [("fragments_names",)]


class GetAllRelatedFragments(Contract):
    """which fragment definitions are sent with the operation: the fragments used as base classes, the unpacked ones, and everything
    reachable from the definitions of those (for an arbitrary name W, by membership).  _get_fragments_names is a stand-in here (its
    contract is above); the definitions dictionary has an entry for every used / unpacked fragment (they were looked up before)."""
    props = ("C02",)
    target = MOD + "_get_all_related_fragments"
    use_at_calls = False
    frame_args = False
    assume_proved = True
    trusted = ["_get_fragments_names is an uninterpreted stand-in here (own contract above); sorted(set) = py_sorted with exactly the set's elements (instances)",
               "every fragment recorded as used or unpacked has a definition (it was looked up by name when it was recorded)"]
    loops = {"ResultTypesGenerator._get_all_related_fragments": _all_inv}

    def setup(self, E):
        from pyvc.interp import ModelMethod
        defs = E.sym("fragments_definitions", DictOf(GQ.NAME, Cls(G.FragmentDefinitionNode, selection_set=Cls(G.SelectionSetNode)), name="fragment_definitions_garf"))
        used, unpacked = E.mset("used_as_mixins0", GQ.NAME), E.mset("unpacked0", GQ.NAME)
        s = self_obj(RT.ResultTypesGenerator, dict(fragments_definitions=defs, _fragments_used_as_mixins=used, _unpacked_fragments=unpacked))
        base = V.vl_concat(used.elems, unpacked.elems)
        E.ctx.garf_base = base
        E.ctx.inputs["any_reachable_fragment_name"] = W
        self._base, self._defs = base, defs
        q = z3.Const("garf_q", V.Val)
        E.assume(z3.ForAll([q], z3.Implies(V.vl_contains(base, q), has(defs.t, q))))

        def gfn(I, o, a, k):
            ss = V.lower(a[0]) if a else V.lower(k["selection_set"])
            return MSet(REACHED(ss))
        s.attrs["_get_fragments_names"] = ModelMethod(s, gfn, "_get_fragments_names")
        return [s], {}

    def ensures(self, A, res):
        defs = V.lower(self._defs)
        return {"used-and-unpacked-fragments-and-everything-reachable-from-their-definitions":
                V.vcontains(V.set_elems(res), W) == z3.Or(V.vcontains(self._base, W), ANY_OF(models.PY_SORTED(self._base), defs, W))}

    def replay_custom(self, inputs):
        doc = G.parse("""
            query Q { a { ...Used } }
            fragment Used on T { x ...Inner }  fragment Inner on T { y { ...Deep } }  fragment Deep on T { z }
            fragment Unpacked on T { ... on U { ...OnlyHere } }  fragment OnlyHere on U { v }  fragment Other on T { w }
        """)
        defs = {d.name.value: d for d in doc.definitions if isinstance(d, G.FragmentDefinitionNode)}
        g = RT.ResultTypesGenerator.__new__(RT.ResultTypesGenerator)
        g.fragments_definitions, g._fragments_used_as_mixins, g._unpacked_fragments = defs, {"Used"}, {"Unpacked"}
        got = g._get_all_related_fragments()
        ok = set(got) == {"Used", "Inner", "Deep", "Unpacked", "OnlyHere"}
        return dict(inputs={"document": "one used and one unpacked fragment with nested spreads"}, failed=[] if ok else ["post.used-and-unpacked-fragments-and-everything-reachable-from-their-definitions"],
                    undetermined=[], pre_ok=True, outcome=sorted(got), error=None)

    def samples(self, tier):
        return [dict(case="document")]


CONTRACTS.append(GetAllRelatedFragments())
