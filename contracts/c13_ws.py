"""C13 - subscriptions follow graphql-transport-ws for every frame sequence.

Part 1 (this file, loop-free, complete): the frame handler `_handle_ws_message` (plain client, OpenTelemetry client,
and the `_with_telemetry` twin) against the outcome table of the statement; the senders `_send_connection_init`
and `_send_subscribe`.
"""
import importlib
import z3
from pyvc import val as V
from pyvc import models
from pyvc.val import Obj, SV
from pyvc.contract import Contract
from pyvc.spec import *   # noqa
from . import lib_fakes as F
from .c12_get_data import ERRORS, spec_error, X

DEP = "ariadne_codegen.client_generators.dependencies."
PLAIN = importlib.import_module(DEP + "async_base_client")
OTEL = importlib.import_module(DEP + "async_base_client_open_telemetry")
F.register_otel_functions(OTEL)
TYPES = [t.value for t in PLAIN.GraphQLTransportWSMessageType]

TRUSTED = [
    "json.loads(json.dumps(v)) == v; text that is not JSON makes json.loads raise JSONDecodeError",
    "websocket connection: send/close only have the recorded effect; OpenTelemetry span methods have no effect on results",
]


def frame_type(m):
    return get(V.attr_of(m, models.JsonText, "value"), "type")


def frame_obj(m):
    return V.attr_of(m, models.JsonText, "value")


def frame_payload(m):
    return get(frame_obj(m), "payload", {})


def is_json_frame(m):
    return z3.And(V.is_VObj(m), V.cls_of(m) == V.REG.info(models.JsonText).cid)


# the frame alphabet of the quantifier: non-JSON text, or a JSON object; `next` payloads are objects, `error` payloads
# are spec-shaped error lists; connection_init / subscribe are client->server frames and not part of the alphabet
FRAME = OneOf(Cls(models.NotJsonText),
              Cls(models.JsonText, value=JOBJ))


def frame_requires(m):
    t = frame_type(m)
    pl = frame_payload(m)
    return z3.Implies(is_json_frame(m), z3.And(
        z3.Implies(t == S("next"), JOBJ.pred(pl)),
        t != S("connection_init"), t != S("subscribe")))


class HandleWsMessage(Contract):
    props = ("C13",)
    trusted = TRUSTED

    def __init__(self, mod, klass, method):
        self.mod, self.klass, self.method = mod, klass, method
        self.target = f"{mod.__name__}:{klass}.{method}"
        self.telemetry = method.endswith("_with_telemetry")

    def setup(self, E):
        cls = getattr(self.mod, self.klass)
        attrs = {}
        if self.klass.endswith("OpenTelemetry"):
            attrs["tracer"] = Obj(F.FakeTracer, {})
        self_ = Obj(cls, attrs)
        msg = E.sym("message", FRAME)
        E.assume(frame_requires(msg.t))
        E.assume_shape_if(z3.And(is_json_frame(msg.t), frame_type(msg.t) == S("error")), ERRORS, frame_payload(msg.t))
        ws = Obj(F.FakeWS, {})
        expected = self.mod.GraphQLTransportWSMessageType.CONNECTION_ACK if E.fork("expect_ack") else None
        kw = dict(message=msg, websocket=ws, expected_type=expected)
        if self.telemetry:
            kw["root_span"] = Obj(F.FakeSpan, {})
        return [self_], kw

    # outcome table ------------------------------------------------------------------------
    def _table(self, A):
        m = A.message
        t = frame_type(m)
        js = is_json_frame(m)
        known = z3.And(js, truthy(t), in_strs(t, TYPES))
        exp = A.expected_type
        mismatch = z3.And(known, z3.Not(V.is_VNone(exp)), exp != t)
        ok = z3.And(known, z3.Not(mismatch))
        pl = frame_payload(m)
        return dict(js=js, t=t, known=known, mismatch=mismatch, ok=ok, pl=pl,
                    next_data=z3.And(ok, t == S("next"), has(pl, "data")),
                    next_nodata=z3.And(ok, t == S("next"), z3.Not(has(pl, "data"))),
                    complete=z3.And(ok, t == S("complete")), ping=z3.And(ok, t == S("ping")),
                    error=z3.And(ok, t == S("error")),
                    quiet=z3.And(ok, z3.Or(t == S("pong"), t == S("connection_ack"))))

    def ensures(self, A, res):
        T = self._table(A)
        eff = F.effects_term(A["__effects__"])
        pong = tup("ws_send", Obj(models.JsonText, {"value": {"type": "pong"}}))
        return {
            "returns-only-for-next/complete/ping/pong/ack": z3.Or(T["next_data"], T["complete"], T["ping"], T["quiet"]),
            "next-yields-its-data": z3.Implies(T["next_data"], z3.And(res == get(T["pl"], "data"), eff == lst())),
            "complete-closes": z3.Implies(T["complete"], z3.And(res == V.VNone, eff == lst(tup("ws_close", None)))),
            "ping-answered-by-one-pong": z3.Implies(T["ping"], z3.And(res == V.VNone, eff == lst(pong))),
            "pong/ack-ignored": z3.Implies(T["quiet"], z3.And(res == V.VNone, eff == lst())),
        }

    def on_raise(self, A, exc_cls, exc):
        T = self._table(A)
        eff = F.effects_term(A["__effects__"])
        if exc_cls is X.GraphQLClientInvalidMessageFormat:
            bad = z3.Or(z3.Not(T["js"]), z3.Not(T["known"]), T["next_nodata"])
            return {"invalid-message-only-for-nonjson/unknown/missing/unexpected/next-without-data":
                        z3.Or(bad, T["mismatch"]),
                    "carries-the-frame": z3.Implies(bad, exc == mk(X.GraphQLClientInvalidMessageFormat, message=A.message)),
                    "nothing-sent": eff == lst()}
        if exc_cls is X.GraphQLClientGraphQLMultiError:
            expected = mk(X.GraphQLClientGraphQLMultiError,
                          errors=spec_map(A["__path__"], V.vl(T["pl"]), spec_error, "spec_errors"),
                          data=frame_obj(A.message))
            return {"multi-error-only-on-error-frame": T["error"], "carries-every-error": exc == expected,
                    "nothing-sent": eff == lst()}
        return {"no-other-exception-type": z3.BoolVal(False)}

    # native replay -------------------------------------------------------------------------
    def native_self(self):
        cls = getattr(self.mod, self.klass)
        if self.klass.endswith("OpenTelemetry"):
            return cls(ws_url="ws://localhost/graphql", tracer=None if not self.telemetry else _native_tracer())
        return cls(ws_url="ws://localhost/graphql")

    def native_args(self, inputs):
        self._ws = F.NativeWS()
        kw = dict(message=inputs["message"], websocket=self._ws,
                  expected_type=self.mod.GraphQLTransportWSMessageType.CONNECTION_ACK if inputs.get("expect_ack") else None)
        if self.telemetry:
            kw["root_span"] = _native_span()
        return [], kw

    def native_names(self, inputs, args, kwargs):
        return dict(message=F.abstract_text(inputs["message"]), expected_type=kwargs["expected_type"])

    def native_effects(self, inputs):
        return [(k, F.abstract_text(v)) for k, v in self._ws.log]

    def native_lower(self, v, inputs):
        if isinstance(v, X.GraphQLClientInvalidMessageFormat) and v.message == inputs["message"]:
            return mk(X.GraphQLClientInvalidMessageFormat, message=F.abstract_text(v.message))
        return None

    def samples(self, tier):
        import json
        out = []
        frames = ["not json", json.dumps({"type": "connection_ack"}), json.dumps({"type": "next", "payload": {"data": {"a": 1}}}),
                  json.dumps({"type": "next", "payload": {"data": {}}}), json.dumps({"type": "next", "payload": {}}),
                  json.dumps({"type": "next"}), json.dumps({"type": "ping"}), json.dumps({"type": "pong"}),
                  json.dumps({"type": "complete"}), json.dumps({"type": "error", "payload": [{"message": "boom", "path": ["a"]}]}),
                  json.dumps({"type": "bogus"}), json.dumps({}), json.dumps({"type": ""}), json.dumps({"type": None})]
        for f in frames:
            for ack in (False, True):
                out.append(dict(message=f, expect_ack=ack))
        return out


def _native_tracer():
    from opentelemetry import trace
    return trace.get_tracer("pyvc-replay")


def _native_span():
    from opentelemetry import trace
    return trace.INVALID_SPAN


CONTRACTS = [
    HandleWsMessage(PLAIN, "AsyncBaseClient", "_handle_ws_message"),
    HandleWsMessage(OTEL, "AsyncBaseClientOpenTelemetry", "_handle_ws_message"),
    HandleWsMessage(OTEL, "AsyncBaseClientOpenTelemetry", "_handle_ws_message_with_telemetry"),
]
for c in CONTRACTS:
    c.use_at_calls = False
