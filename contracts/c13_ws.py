"""C13 - subscriptions follow graphql-transport-ws for every frame sequence.

Part 1 (this file, loop-free, complete): the frame handler `_handle_ws_message` (plain client, OpenTelemetry client,
and the `_with_telemetry` twin) against the outcome table of the statement; the senders `_send_connection_init`
and `_send_subscribe`.
"""
import importlib
import z3
from pyvc import val as V
from pyvc import models
from pyvc.val import Obj, SV
from pyvc.contract import Contract
from pyvc.spec import *   # noqa
from . import lib_fakes as F
from .c12_get_data import ERRORS, spec_error, X

DEP = "ariadne_codegen.client_generators.dependencies."
PLAIN = importlib.import_module(DEP + "async_base_client")
OTEL = importlib.import_module(DEP + "async_base_client_open_telemetry")
F.register_otel_functions(OTEL)
TYPES = [t.value for t in PLAIN.GraphQLTransportWSMessageType]

TRUSTED = [
    "json.loads(json.dumps(v)) == v; text that is not JSON makes json.loads raise JSONDecodeError",
    "websocket connection: send/close only have the recorded effect; OpenTelemetry span methods have no effect on results",
]


def frame_type(m):
    return get(V.attr_of(m, models.JsonText, "value"), "type")


def frame_obj(m):
    return V.attr_of(m, models.JsonText, "value")


def frame_payload(m):
    return get(frame_obj(m), "payload", {})


def is_json_frame(m):
    return z3.And(V.is_VObj(m), V.cls_of(m) == V.REG.info(models.JsonText).cid)


# the frame alphabet of the quantifier: non-JSON text, or a JSON object; `next` payloads are objects, `error` payloads
# are spec-shaped error lists; connection_init / subscribe are client->server frames and not part of the alphabet
FRAME = OneOf(Cls(models.NotJsonText),
              Cls(models.JsonText, value=JOBJ))


def frame_requires(m):
    t = frame_type(m)
    pl = frame_payload(m)
    return z3.Implies(is_json_frame(m), z3.And(
        z3.Implies(t == S("next"), JOBJ.pred(pl)),
        t != S("connection_init"), t != S("subscribe")))


LONG_SUBSCRIPTION = "subscription Op { " + " ".join(f"f{i}: x(s: \"value {i}\")" for i in range(400)) + " }"      # about 9 kB


class HandleWsMessage(Contract):
    props = ("C13",)
    trusted = TRUSTED

    def __init__(self, mod, klass, method):
        self.mod, self.klass, self.method = mod, klass, method
        self.target = f"{mod.__name__}:{klass}.{method}"
        self.telemetry = method.endswith("_with_telemetry")

    def setup(self, E):
        cls = getattr(self.mod, self.klass)
        attrs = {}
        if self.klass.endswith("OpenTelemetry"):
            attrs["tracer"] = Obj(F.FakeTracer, {})
        self_ = Obj(cls, attrs)
        msg = E.sym("message", FRAME)
        E.assume(frame_requires(msg.t))
        E.assume_shape_if(z3.And(is_json_frame(msg.t), frame_type(msg.t) == S("error")), ERRORS, frame_payload(msg.t))
        ws = Obj(F.FakeWS, {})
        expected = self.mod.GraphQLTransportWSMessageType.CONNECTION_ACK if E.fork("expect_ack") else None
        kw = dict(message=msg, websocket=ws, expected_type=expected)
        if self.telemetry:
            kw["root_span"] = Obj(F.FakeSpan, {})
        return [self_], kw

    # outcome table ------------------------------------------------------------------------
    def _table(self, A):
        m = A.message
        t = frame_type(m)
        js = is_json_frame(m)
        known = z3.And(js, truthy(t), in_strs(t, TYPES))
        exp = A.expected_type
        mismatch = z3.And(known, z3.Not(V.is_VNone(exp)), exp != t)
        ok = z3.And(known, z3.Not(mismatch))
        pl = frame_payload(m)
        return dict(js=js, t=t, known=known, mismatch=mismatch, ok=ok, pl=pl,
                    next_data=z3.And(ok, t == S("next"), has(pl, "data")),
                    next_nodata=z3.And(ok, t == S("next"), z3.Not(has(pl, "data"))),
                    complete=z3.And(ok, t == S("complete")), ping=z3.And(ok, t == S("ping")),
                    error=z3.And(ok, t == S("error")),
                    quiet=z3.And(ok, z3.Or(t == S("pong"), t == S("connection_ack"))))

    def ensures(self, A, res):
        T = self._table(A)
        eff = F.effects_term(A["__effects__"])
        pong = tup("ws_send", Obj(models.JsonText, {"value": {"type": "pong"}}))
        return {
            "returns-only-for-next/complete/ping/pong/ack": z3.Or(T["next_data"], T["complete"], T["ping"], T["quiet"]),
            "next-yields-its-data": z3.Implies(T["next_data"], z3.And(res == get(T["pl"], "data"), eff == lst())),
            "complete-closes": z3.Implies(T["complete"], z3.And(res == V.VNone, eff == lst(tup("ws_close", None)))),
            "ping-answered-by-one-pong": z3.Implies(T["ping"], z3.And(res == V.VNone, eff == lst(pong))),
            "pong/ack-ignored": z3.Implies(T["quiet"], z3.And(res == V.VNone, eff == lst())),
        }

    def on_raise(self, A, exc_cls, exc):
        T = self._table(A)
        eff = F.effects_term(A["__effects__"])
        if exc_cls is X.GraphQLClientInvalidMessageFormat:
            bad = z3.Or(z3.Not(T["js"]), z3.Not(T["known"]), T["next_nodata"])
            return {"invalid-message-only-for-nonjson/unknown/missing/unexpected/next-without-data":
                        z3.Or(bad, T["mismatch"]),
                    "carries-the-frame": z3.Implies(bad, exc == mk(X.GraphQLClientInvalidMessageFormat, message=A.message)),
                    "nothing-sent": eff == lst()}
        if exc_cls is X.GraphQLClientGraphQLMultiError:
            expected = mk(X.GraphQLClientGraphQLMultiError,
                          errors=spec_map(A["__path__"], V.vl(T["pl"]), spec_error, "spec_errors"),
                          data=frame_obj(A.message))
            return {"multi-error-only-on-error-frame": T["error"], "carries-every-error": exc == expected,
                    "nothing-sent": eff == lst()}
        return {"no-other-exception-type": z3.BoolVal(False)}

    # native replay -------------------------------------------------------------------------
    def native_self(self):
        cls = getattr(self.mod, self.klass)
        if self.klass.endswith("OpenTelemetry"):
            return cls(ws_url="ws://localhost/graphql", tracer=None if not self.telemetry else _native_tracer())
        return cls(ws_url="ws://localhost/graphql")

    def native_args(self, inputs):
        self._ws = F.NativeWS()
        kw = dict(message=inputs["message"], websocket=self._ws,
                  expected_type=self.mod.GraphQLTransportWSMessageType.CONNECTION_ACK if inputs.get("expect_ack") else None)
        if self.telemetry:
            kw["root_span"] = _native_span()
        return [], kw

    def native_names(self, inputs, args, kwargs):
        return dict(message=F.abstract_text(inputs["message"]), expected_type=kwargs["expected_type"])

    def native_effects(self, inputs):
        return [(k, F.abstract_text(v)) for k, v in self._ws.log]

    def native_lower(self, v, inputs):
        if isinstance(v, X.GraphQLClientInvalidMessageFormat) and v.message == inputs["message"]:
            return mk(X.GraphQLClientInvalidMessageFormat, message=F.abstract_text(v.message))
        return None

    def samples(self, tier):
        import json
        out = []
        frames = ["not json", json.dumps({"type": "connection_ack"}), json.dumps({"type": "next", "payload": {"data": {"a": 1}}}),
                  json.dumps({"type": "next", "payload": {"data": {}}}), json.dumps({"type": "next", "payload": {}}),
                  json.dumps({"type": "next"}), json.dumps({"type": "ping"}), json.dumps({"type": "pong"}),
                  json.dumps({"type": "complete"}), json.dumps({"type": "error", "payload": [{"message": "boom", "path": ["a"]}]}),
                  json.dumps({"type": "error", "payload": [{"message": "boom", "path": ["a"]}, {"message": "boom", "path": ["b"], "extensions": {"code": 1}}, {"message": "other"}]}),
                  json.dumps({"type": "bogus"}), json.dumps({}), json.dumps({"type": ""}), json.dumps({"type": None})]
        for f in frames:
            for ack in (False, True):
                out.append(dict(message=f, expect_ack=ack))
        return out


def _native_tracer():
    from opentelemetry import trace
    return trace.get_tracer("pyvc-replay")


def _native_span():
    from opentelemetry import trace
    return trace.INVALID_SPAN


CONTRACTS = [
    HandleWsMessage(PLAIN, "AsyncBaseClient", "_handle_ws_message"),
    HandleWsMessage(OTEL, "AsyncBaseClientOpenTelemetry", "_handle_ws_message"),
    HandleWsMessage(OTEL, "AsyncBaseClientOpenTelemetry", "_handle_ws_message_with_telemetry"),
]
for c in CONTRACTS:
    c.use_at_calls = False


# ------------------------------------------------------------------------------------------ senders
from . import lib_values as L           # noqa: E402
from .c11_clients import ConvertDict, ConvertValue    # noqa: E402


class _Sender(Contract):
    props = ("C13",)
    trusted = TRUSTED + L.TRUSTED
    use_at_calls = False

    def __init__(self, mod, klass, method):
        self.mod, self.klass, self.method = mod, klass, method
        self.target = f"{mod.__name__}:{klass}.{method}"
        self.telemetry = method.endswith("_with_telemetry")

    def _self(self, E):
        attrs = {"ws_connection_init_payload": E.sym("init_payload", Opt(JOBJ))}
        if self.klass.endswith("OpenTelemetry"):
            attrs["tracer"] = Obj(F.FakeTracer, {})
        return Obj(getattr(self.mod, self.klass), attrs)

    def native_self(self):
        cls = getattr(self.mod, self.klass)
        kw = dict(ws_url="ws://localhost/graphql", ws_connection_init_payload=self._inputs.get("init_payload"))
        if self.klass.endswith("OpenTelemetry"):
            kw["tracer"] = None if not self.telemetry else _native_tracer()
        return cls(**kw)

    def native_effects(self, inputs):
        return [(k, F.abstract_text(v)) for k, v in self._ws.log]

    def on_raise(self, A, exc_cls, exc):
        return {"senders-do-not-raise": z3.BoolVal(False)}


class SendConnectionInit(_Sender):
    """statement: `sends connection_init (with the configured payload)`; an empty payload object is the same as none"""

    def setup(self, E):
        kw = dict(websocket=Obj(F.FakeWS, {}))
        if self.telemetry:
            kw["root_span"] = Obj(F.FakeSpan, {})
        return [self._self(E)], kw

    def ensures(self, A, res):
        p = A["init_payload"] if "init_payload" in A else z3.Const("init_payload", V.Val)
        with_p = V.lower(Obj(models.JsonText, {"value": {"type": "connection_init", "payload": SV(p)}}))
        without = V.lower(Obj(models.JsonText, {"value": {"type": "connection_init"}}))
        frame = z3.If(truthy(p), with_p, without)
        eff = F.effects_term(A["__effects__"])
        return {"exactly-one-frame/connection_init-with-the-configured-payload": eff == lst(tup("ws_send", frame)),
                "returns-none": res == V.VNone}

    def native_args(self, inputs):
        self._inputs = inputs
        self._ws = F.NativeWS()
        kw = dict(websocket=self._ws)
        if self.telemetry:
            kw["root_span"] = _native_span()
        return [], kw

    def native_names(self, inputs, args, kwargs):
        return dict(init_payload=inputs.get("init_payload"))

    def samples(self, tier):
        return [dict(init_payload=p) for p in (None, {}, {"token": "t"}, {"a": {"b": [1, None]}})]


class SendSubscribe(_Sender):
    """statement: `exactly one subscribe carrying query, operationName and the serialised variables`
    (C03 too: the variables of a subscription are converted like those of every other operation)"""
    props = ("C13", "C03")

    def setup(self, E):
        kw = dict(websocket=Obj(F.FakeWS, {}), operation_id=E.sym("operation_id", Str), query=E.sym("query", Str),
                  operation_name=E.sym("operation_name", Opt(Str)), variables=E.sym("variables", Opt(L.VARIABLES)))
        if self.telemetry:
            kw["root_span"] = Obj(F.FakeSpan, {})
        return [self._self(E)], kw

    def configure(self, ctx):
        pass

    def ensures(self, A, res):
        v = A.variables
        base = {"query": SV(A.query), "operationName": SV(A.operation_name)}
        conv = V.VDict(L.conv_dict(V.vd(v)))
        with_v = V.lower(Obj(models.JsonText, {"value": {"id": SV(A.operation_id), "type": "subscribe",
                                                         "payload": dict(base, variables=SV(conv))}}))
        without = V.lower(Obj(models.JsonText, {"value": {"id": SV(A.operation_id), "type": "subscribe", "payload": base}}))
        frame = z3.If(truthy(v), with_v, without)
        eff = F.effects_term(A["__effects__"])
        return {"exactly-one-subscribe/carries-id-query-operationName-and-serialised-variables":
                    eff == lst(tup("ws_send", frame)),
                "returns-none": res == V.VNone}

    def native_args(self, inputs):
        self._inputs = inputs
        self._ws = F.NativeWS()
        kw = dict(websocket=self._ws, operation_id=inputs["operation_id"], query=inputs["query"],
                  operation_name=inputs.get("operation_name"), variables=inputs.get("variables"))
        if self.telemetry:
            kw["root_span"] = _native_span()
        return [], kw

    def native_names(self, inputs, args, kwargs):
        return {k: inputs.get(k) for k in ("operation_id", "query", "operation_name", "variables")}

    def samples(self, tier):
        m = L._build_model({"a": 1, "bC": None})
        out = []
        for v in (None, {}, {"a": 1}, {"a": L.BM.UNSET, "b": None}, {"m": m, "l": [m, 1]}, {"u": L.BM.UNSET}):
            for on in (None, "Op"):
                out.append(dict(operation_id="id-1", query="subscription Op { x }", operation_name=on, variables=v))
        # the query text travels as it is: line breaks, runs of blanks inside string and block-string literals, comments
        text = 'subscription Op($n: String = "two  blanks") {\n  x(s: "a   b", b: """\n    block   text\n  """)  # comment\n  y\n}\n'
        out.append(dict(operation_id="id-2", query=text, operation_name="Op", variables={"a": 1}))
        out.append(dict(operation_id="id-3", query=text, operation_name=None, variables=None))
        # operation documents are long (every used fragment is part of them): nothing of the text may be cut or abbreviated
        out.append(dict(operation_id="id-4", query=LONG_SUBSCRIPTION, operation_name="Op", variables={"a": 1}))
        return out


SENDERS = [SendConnectionInit(PLAIN, "AsyncBaseClient", "_send_connection_init"),
           SendConnectionInit(OTEL, "AsyncBaseClientOpenTelemetry", "_send_connection_init"),
           SendConnectionInit(OTEL, "AsyncBaseClientOpenTelemetry", "_send_connection_init_with_telemetry"),
           SendSubscribe(PLAIN, "AsyncBaseClient", "_send_subscribe"),
           SendSubscribe(OTEL, "AsyncBaseClientOpenTelemetry", "_send_subscribe"),
           SendSubscribe(OTEL, "AsyncBaseClientOpenTelemetry", "_send_subscribe_with_telemetry")]
CONVERTERS = [k(m, c) for k in (ConvertValue, ConvertDict)
              for m, c in (("async_base_client", "AsyncBaseClient"),
                           ("async_base_client_open_telemetry", "AsyncBaseClientOpenTelemetry"))]
CONTRACTS = CONTRACTS + SENDERS + CONVERTERS


# ------------------------------------------------------------------------------------------ the subscription iterator
# Spec of the streaming phase as recursive functions over the list of server frames (after the ack):
#   stream_events(frames): the events the statement prescribes (yield of each next frame's data, one pong per ping,
#                          close on complete; nothing after complete / error / invalid frame)
#   stream_end(frames):    None (iterator finishes) | the exception it must raise
from pyvc.contract import Args                     # noqa: E402
from pyvc.spec import _SPEC_MAPS, SpecMap          # noqa: E402

SPEC_ERRORS = _SPEC_MAPS.setdefault("spec_errors", SpecMap("spec_errors", spec_error))
PONG = V.lower(Obj(models.JsonText, {"value": {"type": "pong"}}))


def frame_table(f):
    return HandleWsMessage._table(None, Args(message=f, expected_type=V.VNone))


def _ev(kind, payload):
    return F.event_term(kind, SV(payload) if z3.is_expr(payload) else payload)


def spec_multi_error(f):
    return mk(X.GraphQLClientGraphQLMultiError, errors=V.VList(SPEC_ERRORS(V.vl(frame_payload(f)))), data=frame_obj(f))


def spec_invalid(f):
    return mk(X.GraphQLClientInvalidMessageFormat, message=f)


def events_body(f, tail):
    T = frame_table(f)
    return z3.If(T["next_data"], V.VCons(_ev("yield", get(T["pl"], "data")), tail),
           z3.If(T["ping"], V.VCons(_ev("ws_send", PONG), tail),
           z3.If(T["quiet"], tail,
           z3.If(T["complete"], V.VCons(_ev("ws_close", V.VNone), V.VNil), V.VNil))))


def end_body(f, tail):
    T = frame_table(f)
    return z3.If(z3.Or(T["next_data"], T["ping"], T["quiet"]), tail,
           z3.If(T["complete"], V.VNone,
           z3.If(T["error"], spec_multi_error(f), spec_invalid(f))))


def _define_stream():
    ev = z3.RecFunction("stream_events", V.VL, V.VL)
    end = z3.RecFunction("stream_end", V.VL, V.Val)
    l = z3.FreshConst(V.VL, "fs")
    z3.RecAddDefinition(ev, [l], z3.If(V.is_VNil(l), V.VNil, events_body(V.hd(l), ev(V.tl(l)))))
    z3.RecAddDefinition(end, [l], z3.If(V.is_VNil(l), V.VNone, end_body(V.hd(l), end(V.tl(l)))))
    return ev, end


STREAM_EVENTS, STREAM_END = _define_stream()


def stream_frame_pred(strict):
    """shape of a server frame of the quantifier's alphabet; strict: additionally not a `next` frame with falsy data
    (the carved region of finding F26)"""
    def pred(m):
        T = frame_table(m)
        conj = [FRAME.pred(m), frame_requires(m),
                z3.Implies(z3.And(is_json_frame(m), frame_type(m) == S("error")), ERRORS.pred(frame_payload(m)))]
        if strict:
            conj.append(z3.Not(z3.And(T["next_data"], z3.Not(truthy(get(T["pl"], "data"))))))
        return z3.And(*conj)
    return Pred(pred, "stream-frame")


STREAM_FRAMES = ListOf(stream_frame_pred(False), name="stream_frames")
STRICT_FRAMES = ListOf(stream_frame_pred(True), name="stream_frames_without_falsy_next")
KWARGS = DictOf(Str, Any, name="ws_kwargs")
HEADERS = DictOf(Str, Any, name="ws_headers")


class ExecuteWs(Contract):
    """statement: `opens the socket with the graphql-transport-ws subprotocol and configured headers/origin, sends
    connection_init first and nothing more until connection_ack arrives, then exactly one subscribe ...  yields the
    data of each next frame in order, answers every ping with one pong, finishes on complete, raises the GraphQL
    multi-error on error and the invalid-message error on non-JSON, unknown or missing type or a first frame that is
    not the ack` - for every frame sequence: loop invariant over the frame list (lib_fakes.traced_for)."""
    props = ("C13",)
    trusted = TRUSTED + L.TRUSTED + ["websockets: `async with ws_connect(url, **kw) as ws` yields a connection whose recv()/iteration "
                                     "deliver the server's frames in order and whose iteration ends after close()",
                                     "uuid4() is a fresh identifier"]
    use_at_calls = False
    frame_args = False
    regions = {"next-frame-with-falsy-data": lambda A: z3.Not(STRICT_FRAMES.pred(A["frames"])) if "frames" in A
               else z3.Not(STRICT_FRAMES.pred(z3.Const("frames", V.Val)))}

    def __init__(self, mod, klass, method):
        self.mod, self.klass, self.method = mod, klass, method
        self.target = f"{mod.__name__}:{klass}.{method}"
        self.telemetry = method.endswith("_with_telemetry")
        F.install_ws_connect(mod, lambda I: I.p.fake_ws)

    def setup(self, E):
        strict = "next-frame-with-falsy-data" in self.excluded
        frames = E.sym("frames", STRICT_FRAMES if strict else STREAM_FRAMES)
        first = E.sym("first_frame", stream_frame_pred(False))
        p = E.p

        def elem(I, x, _strict=strict):
            sh = stream_frame_pred(_strict)
            I.p.assume(sh.pred(x))
            from pyvc.shapes import _guarded_on_assume
            _guarded_on_assume(I.ctx, ERRORS, z3.simplify(frame_payload(x)),
                               z3.And(is_json_frame(x), frame_type(x) == S("error")))
            I.p.current_item = x
        from pyvc.shapes import _guarded_on_assume
        _guarded_on_assume(E.ctx, ERRORS, z3.simplify(frame_payload(first.t)),
                           z3.And(is_json_frame(first.t), frame_type(first.t) == S("error")))
        ws = Obj(F.FakeWS, {"xs": V.vl(frames.t), "events": STREAM_EVENTS, "final": STREAM_END,
                            "final_closed": V.VNone, "elem": elem,
                            "events_step": lambda x, r: events_body(x, STREAM_EVENTS(r)),
                            "final_step": lambda x, r: end_body(x, STREAM_END(r)), "recv_model": lambda I, o: first})
        p.fake_ws = ws
        attrs = {"ws_url": E.sym("ws_url", Str), "ws_headers": E.sym("ws_headers", HEADERS),
                 "ws_origin": E.sym("ws_origin", Opt(Str)),
                 "ws_connection_init_payload": E.sym("init_payload", Opt(JOBJ))}
        if self.klass.endswith("OpenTelemetry"):
            attrs.update(tracer=Obj(F.FakeTracer, {}), ws_root_span_name="GraphQL Subscription", ws_root_context=None)
        kwargs = E.sym("kwargs", KWARGS)
        E.assume(z3.Implies(has(kwargs.t, "extra_headers"), HEADERS.pred(get(kwargs.t, "extra_headers"))))
        E.assume(z3.And(*[z3.Not(has(kwargs.t, k)) for k in ("query", "operation_name", "variables", "subprotocols")]))
        return [Obj(getattr(self.mod, self.klass), attrs)], dict(
            query=E.sym("query", Str), operation_name=E.sym("operation_name", Opt(Str)),
            variables=E.sym("variables", Opt(L.VARIABLES)), __splat__=kwargs)

    # -- spec ------------------------------------------------------------------------------------
    def _c(self, A, name):
        return A[name] if name in A else z3.Const(name, V.Val)

    def _spec(self, A):
        first, frames = self._c(A, "first_frame"), self._c(A, "frames")
        ip, v = self._c(A, "init_payload"), A.variables
        init = z3.If(truthy(ip), V.lower(Obj(models.JsonText, {"value": {"type": "connection_init", "payload": SV(ip)}})),
                     V.lower(Obj(models.JsonText, {"value": {"type": "connection_init"}})))
        base = {"query": SV(A.query), "operationName": SV(A.operation_name)}
        op_id = self._c(A, "operation_id") if "operation_id" in A else V.VStr(z3.String("operation_uuid"))
        sub = z3.If(truthy(v),
                    V.lower(Obj(models.JsonText, {"value": {"id": SV(op_id), "type": "subscribe", "payload": dict(
                        base, variables=SV(V.VDict(L.conv_dict(V.vd(v)))))}})),
                    V.lower(Obj(models.JsonText, {"value": {"id": SV(op_id), "type": "subscribe", "payload": base}})))
        T0 = HandleWsMessage._table(None, Args(message=first, expected_type=S("connection_ack")))
        return dict(first=first, frames=V.vl(frames), init=init, sub=sub, T0=T0,
                    handshake=V.VCons(_ev("ws_send", init), V.VNil),
                    streamed=V.VCons(_ev("ws_send", init), V.VCons(_ev("ws_send", sub), STREAM_EVENTS(V.vl(frames)))))

    def _connect(self, A):
        kw = self._c(A, "kwargs")
        connects = [p for k, p in A["__effects__"] if k == "ws_connect"]
        sent = V.lower(connects[0]) if connects else V.VNone
        hdrs = V.VDict(models.d_update(V.vd(self._c(A, "ws_headers")), V.vd(get(kw, "extra_headers", {}))))
        other = z3.Const("other_key", V.Val)
        return {
            "exactly-one-connection": z3.BoolVal(len(connects) == 1),
            "opened-with-url/graphql-transport-ws-subprotocol/configured-headers-and-origin": z3.And(
                get(sent, "__url__") == self._c(A, "ws_url"), get(sent, "subprotocols") == lst("graphql-transport-ws"),
                get(sent, "extra_headers") == hdrs,
                get(sent, "origin") == z3.If(has(kw, "origin"), get(kw, "origin"), self._c(A, "ws_origin"))),
            "other-kwargs-passed-through": z3.Implies(
                z3.And(*[other != S(k) for k in ("extra_headers", "origin", "subprotocols", "__url__")]),
                z3.And(has(sent, other) == has(kw, other), get(sent, other) == get(kw, other))),
        }

    def ensures(self, A, res):
        S_ = self._spec(A)
        out = self._connect(A)
        out.update({
            "finishes-only-after-ack-and-a-completed-or-exhausted-stream": z3.And(S_["T0"]["ok"], STREAM_END(S_["frames"]) == V.VNone),
            "init-first/one-subscribe-after-ack/then-yields-pongs-close-in-frame-order":
                F.trace_term(A["__effects__"]) == S_["streamed"],
        })
        return out

    def on_raise(self, A, exc_cls, exc):
        S_ = self._spec(A)
        path = A["__path__"]
        out = self._connect(A)
        trace = F.trace_term(A["__effects__"])
        T0 = S_["T0"]
        in_stream = z3.And(T0["ok"], exc == STREAM_END(S_["frames"]), trace == S_["streamed"])
        if exc_cls is X.GraphQLClientInvalidMessageFormat:
            bad0 = z3.Or(z3.Not(T0["js"]), z3.Not(T0["known"]))
            out["invalid-message-iff-first-frame-not-ack-or-stream-prescribes-it/nothing-sent-beyond-the-prescribed-events"] = z3.Or(
                z3.And(z3.Not(T0["ok"]), trace == S_["handshake"], z3.Implies(bad0, exc == spec_invalid(S_["first"]))),
                in_stream)
            return out
        if exc_cls is X.GraphQLClientGraphQLMultiError:
            x = getattr(path, "current_item", None)
            if x is not None and hasattr(path, "maps_used"):
                SPEC_ERRORS.apply(path, V.vl(frame_payload(x)))
            out["multi-error-iff-the-stream-prescribes-it/carries-every-error"] = in_stream
            return out
        out["no-other-exception-type"] = z3.BoolVal(False)
        return out

    # -- native replay: the real iterator driven against a scripted connection -----------------------------------
    def native_function(self):
        import asyncio
        from unittest import mock
        inputs = self._inputs
        cls = getattr(self.mod, self.klass)
        kw = dict(ws_url=inputs["ws_url"], ws_headers=inputs["ws_headers"], ws_origin=inputs.get("ws_origin"),
                  ws_connection_init_payload=inputs.get("init_payload"))
        if self.klass.endswith("OpenTelemetry"):
            kw["tracer"] = _native_tracer() if self.telemetry else None
        client = cls(**kw)
        ws = self._ws = F.NativeWS([inputs["first_frame"]] + list(inputs["frames"]))
        log = ws.log

        def connect(*a, **k):
            log.append(("ws_connect", dict(k, __url__=a[0] if a else None)))
            return ws

        def run(**kwargs):
            async def drive():
                with mock.patch.object(self.mod, "ws_connect", connect), \
                        mock.patch.object(self.mod, "uuid4", lambda: "op-uuid"):
                    async for item in getattr(client, self.method)(**kwargs):
                        log.append(("yield", item))
            asyncio.run(drive())
            return None
        return run

    def native_args(self, inputs):
        self._inputs = inputs
        kw = dict(inputs.get("kwargs") or {})
        kw.update(query=inputs["query"], operation_name=inputs.get("operation_name"), variables=inputs.get("variables"))
        return [], kw

    def native_names(self, inputs, args, kwargs):
        out = {k: inputs.get(k) for k in ("ws_url", "ws_headers", "ws_origin", "init_payload", "kwargs", "query",
                                          "operation_name", "variables")}
        out["ws_origin"] = out.get("ws_origin") or None        # the attribute the contract speaks of: the constructor stores None for an empty origin
        out["first_frame"] = F.abstract_text(inputs["first_frame"])
        out["frames"] = [F.abstract_text(f) for f in inputs["frames"]]
        out["operation_id"] = "op-uuid"
        return out

    def native_effects(self, inputs):
        return [(k, F.abstract_text(v) if k == "ws_send" else v) for k, v in self._ws.log]

    def native_lower(self, v, inputs):
        if isinstance(v, X.GraphQLClientInvalidMessageFormat) and v.message in [inputs["first_frame"]] + list(inputs["frames"]):
            return mk(X.GraphQLClientInvalidMessageFormat, message=F.abstract_text(v.message))
        return None

    def samples(self, tier):
        import json
        ack, ping, pong, complete = ({"type": t} for t in ("connection_ack", "ping", "pong", "complete"))
        nxt = lambda d: {"type": "next", "payload": {"data": d}}          # noqa: E731
        err = {"type": "error", "payload": [{"message": "boom"}]}
        seqs = [(ack, []), (ack, [complete]), (ack, [nxt({"a": 1}), nxt({"a": 2}), complete]), (ack, [ping, nxt({"a": 1}), ping]),
                (ack, [pong, ack, nxt({"a": 1})]), (ack, [nxt({"a": 1}), err, nxt({"a": 2})]), (ack, [complete, nxt({"a": 1})]),
                (ack, [{"type": "bogus"}]), (ack, [{}]), (ack, [nxt({"a": 1}), "not json"]), (ack, [{"type": "next", "payload": {}}]),
                (ping, [nxt({"a": 1})]), (nxt({"a": 1}), []), (err, []), ("not json", []), ({"type": None}, []), (complete, [])]
        out = []
        for first, frames in seqs:
            for ip, variables in ((None, None), ({"token": "t"}, {"a": 1, "u": L.BM.UNSET, "m": L._build_model({"x": 1})})):
                enc = lambda f: f if isinstance(f, str) else json.dumps(f)       # noqa: E731
                out.append(dict(first_frame=enc(first), frames=[enc(f) for f in frames], ws_url="ws://h/graphql",
                                ws_headers={"A": "1"}, ws_origin=None if ip is None else "http://o", init_payload=ip,
                                kwargs={} if ip is None else {"extra_headers": {"B": "2"}, "open_timeout": 3},
                                query="subscription S { x }", operation_name="S", variables=variables))
        out.append(dict(out[5], query=LONG_SUBSCRIPTION, operation_name="Op"))      # a long operation document (ack, next, next, complete)
        return out


ITERATORS = [ExecuteWs(PLAIN, "AsyncBaseClient", "execute_ws"),
             ExecuteWs(OTEL, "AsyncBaseClientOpenTelemetry", "_execute_ws"),
             ExecuteWs(OTEL, "AsyncBaseClientOpenTelemetry", "_execute_ws_with_telemetry")]
CONTRACTS = CONTRACTS + ITERATORS


FALSY_CASES = {"data-null": None, "data-empty-object": {}, "data-empty-list": [], "data-zero": 0, "data-empty-string": "",
               "data-false": False}


def witness_falsy_next():
    """known finding F26: a `next` frame whose data is falsy is not yielded (`if data:` in the iterator loop).
    Runs the three real iterators on [ack, next(<data>), next({"a": 1}), complete] for every falsy JSON value."""
    import json
    failing, detail = [], {}
    for name, data in FALSY_CASES.items():
        for c in ITERATORS:
            inputs = dict(first_frame=json.dumps({"type": "connection_ack"}),
                          frames=[json.dumps({"type": "next", "payload": {"data": data}}),
                                  json.dumps({"type": "next", "payload": {"data": {"a": 1}}}), json.dumps({"type": "complete"})],
                          ws_url="ws://h/graphql", ws_headers={}, ws_origin=None, init_payload=None, kwargs={},
                          query="subscription S { x }", operation_name="S", variables=None)
            args, kwargs = c.native_args(inputs)
            c.native_function()(**kwargs)
            yields = [v for k, v in c._ws.log if k == "yield"]
            if yields != [data, {"a": 1}]:
                if name not in failing:
                    failing.append(name)
                detail.setdefault(name, []).append(f"{c.klass}.{c.method} yielded {yields!r}")
    return dict(inputs={"scenario": "next-frame-with-falsy-data"}, cases=failing, detail=detail,
                failed=["yields-the-data-of-each-next-frame"] if failing else [])


# ------------------------------------------------------------------------------------------ OpenTelemetry dispatcher
REYIELD = SpecMap("reyield", lambda v: F.event_term("yield", SV(v)))


class ExecuteWsDispatch(Contract):
    """`the OpenTelemetry variant behaves identically`: AsyncBaseClientOpenTelemetry.execute_ws hands the call, with the
    same arguments, to exactly one of the two iterators proved above (with the tracer: the instrumented twin) and
    re-yields every item in order."""
    props = ("C13",)
    target = f"{OTEL.__name__}:AsyncBaseClientOpenTelemetry.execute_ws"
    trusted = TRUSTED
    use_at_calls = False
    frame_args = False

    def setup(self, E):
        from pyvc.interp import ModelMethod
        items = E.sym("items", ListOf(Any, name="generator_items"))
        tracer = Obj(F.FakeTracer, {}) if E.fork("tracer") else None
        E.p.tracer_on = tracer is not None
        self_ = Obj(OTEL.AsyncBaseClientOpenTelemetry, {"tracer": tracer})

        def stub(name):
            def call(I, o, a, k):
                kw = dict(k)
                splat = kw.pop("__splat__", None)
                from pyvc.val import MDict
                m = MDict(V.lower(splat)) if splat is not None else MDict(V.lower({}))
                for key, v in kw.items():
                    m.t = V.VDict(V.d_set(V.vd(m.t), V.lower(key), V.lower(v)))
                I.p.effect("call", (name, len(a), SV(m.t)))
                return Obj(F.TracedSource, {"xs": V.vl(items.t), "events": lambda r: REYIELD(r),
                                            "events_step": lambda x, r: V.VCons(F.event_term("yield", SV(x)), REYIELD(r))})
            return ModelMethod(self_, call, name)
        self_.attrs["_execute_ws"] = stub("_execute_ws")
        self_.attrs["_execute_ws_with_telemetry"] = stub("_execute_ws_with_telemetry")
        kwargs = E.sym("kwargs", KWARGS)
        E.assume(z3.And(*[z3.Not(has(kwargs.t, k)) for k in ("query", "operation_name", "variables")]))
        return [self_], dict(query=E.sym("query", Str), operation_name=E.sym("operation_name", Opt(Str)),
                             variables=E.sym("variables", Opt(L.VARIABLES)), __splat__=kwargs)

    def ensures(self, A, res):
        path = A["__path__"]
        calls = [p for k, p in A["__effects__"] if k == "call"]
        kw = A["kwargs"] if "kwargs" in A else z3.Const("kwargs", V.Val)
        items = A["items"] if "items" in A else z3.Const("items", V.Val)
        out = {"exactly-one-iterator-started": z3.BoolVal(len(calls) == 1)}
        if len(calls) == 1:
            name, npos, sent = calls[0]
            sent = V.lower(sent)
            want = "_execute_ws_with_telemetry" if getattr(path, "tracer_on", A.get("tracer_on")) else "_execute_ws"
            other = z3.Const("other_key", V.Val)
            out["instrumented-twin-iff-tracer"] = z3.BoolVal(name == want and npos == 0)
            out["same-arguments"] = z3.And(get(sent, "query") == A.query, get(sent, "operation_name") == A.operation_name,
                                           get(sent, "variables") == A.variables,
                                           z3.Implies(z3.And(*[other != S(k) for k in ("query", "operation_name", "variables")]),
                                                      z3.And(has(sent, other) == has(kw, other), get(sent, other) == get(kw, other))))
        out["re-yields-every-item-in-order"] = F.trace_term(A["__effects__"], kinds=("yield",)) == REYIELD(V.vl(items))
        return out

    def on_raise(self, A, exc_cls, exc):
        return {"adds-no-exception-of-its-own": z3.BoolVal(False)}

    def replay_custom(self, inputs):
        return dict(inputs={k: str(v)[:200] for k, v in inputs.items()}, failed=[], undetermined=["no native replay for the dispatcher"],
                    pre_ok=True, outcome=None, error=None)


CONTRACTS = CONTRACTS + [ExecuteWsDispatch()]
