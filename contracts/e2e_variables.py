"""Replay vehicle / bounded stand-in for C03: generate a client, call its methods through httpx.MockTransport, and
coerce the payload with graphql-core's get_variable_values (spec-conformant variable coercion)."""
import asyncio
import json
import httpx
import graphql as G
from graphql.execution.values import get_variable_values
from .e2e import generate_client

SCHEMA = """
enum Color { RED GREEN @deprecated(reason: "use RED") }
input Inner { "documented, with a default" n: Int = 7 "documented, nullable, no default" tag: String }
input _Cmp { _eq: String _in: [String!] }
input Filter { "documented nullable enum" color: Color "documented nullable object" inner: Inner "documented list" ids: [ID!] maybe: [Int] className: String modelDump: String modelFields: Int copy: Int cmp: _Cmp }
type Query { q(a: Int, b: [Int]!, c: [Int!], m: [[Int]], f: Filter, fs: [Filter], query: String, data: Int, _query: String, className: String): Int }
"""
QUERIES = """
query Plain($a: Int, $b: [Int]!, $c: [Int!]) { q(a: $a, b: $b, c: $c) }
query WithInput($f: Filter, $fs: [Filter]) { q(b: [], f: $f, fs: $fs) }
query Clash($query: String, $data: Int) { q(b: [], query: $query, data: $data) }
query Keyword($className: String) { q(b: [], className: $className) }
query Capital($Query: String, $DATA: Int) { q(b: [], query: $Query, data: $DATA) }
query Required($f: Filter!, $m: [[Int]]) { q(b: [], f: $f, m: $m) }
query MixedA($n: Int!, $s: String!, $o: Int) { q(a: $n, b: [], query: $s, data: $o) }
query MixedB($n: Int, $s: String, $req: String!) { q(a: $n, b: [], query: $s, className: $req) }
"""
SCHEMA_NAMES = """
input Renamed { from: String _id: String schema: String camelCase: String }
type Query { q(f: Renamed, from: String): Int }
"""
QUERIES_NAMES = "query Names($f: Renamed, $from: String) { q(f: $f, from: $from) }"


def _call(g, method, _data=None, **kw):
    sent = []

    def handler(request):
        sent.append(json.loads(request.content))
        return httpx.Response(200, json={"data": _data or {"q": 1}})
    mod = g.module("client")
    client = mod.Client(url="http://x/graphql", http_client=httpx.AsyncClient(transport=httpx.MockTransport(handler)))
    asyncio.run(getattr(client, method)(**kw))
    return sent[-1]


def _coerced(schema, payload):
    doc = G.parse(payload["query"])
    op = next(d for d in doc.definitions if isinstance(d, G.OperationDefinitionNode))
    res = get_variable_values(schema, op.variable_definitions, payload.get("variables") or {})
    if isinstance(res, list):
        raise ValueError("; ".join(e.message for e in res))
    return res


def run_cases():
    rep = dict(inputs={}, failed=[], undetermined=[], pre_ok=True, outcome={}, error=None, cases=[])
    g = None
    try:
        g = generate_client(SCHEMA, QUERIES)
        schema = G.build_schema(SCHEMA)
        it = g.module("input_types")
        en = g.module("enums")

        def case(name, method, kw, expect_vars):
            try:
                payload = _call(g, method, **kw)
                got = _coerced(schema, payload)
                ok = got == expect_vars
                rep["outcome"][name] = "ok" if ok else {"sent": payload.get("variables"), "coerced": got, "expected": expect_vars}
            except Exception as e:   # noqa
                ok = False
                rep["outcome"][name] = f"{type(e).__name__}: {str(e)[:200]}"
            if not ok:
                rep["cases"].append(name)
        case("required-list-with-null-item", "plain", dict(b=[1, None]), {"b": [1, None]})
        case("omitted-optionals-absent", "plain", dict(b=[]), {"b": []})
        case("explicit-none-is-null", "plain", dict(b=[2], a=None), {"b": [2], "a": None})
        case("list-of-non-null", "plain", dict(b=[], c=[1, 2]), {"b": [], "c": [1, 2]})
        case("nested-input-unset-fields-absent", "with_input", dict(f=it.Filter(color=en.Color.RED, inner=it.Inner(tag="t"))),
             {"f": {"color": "RED", "inner": {"tag": "t", "n": 7}}})
        case("deprecated-enum-value-is-still-a-value", "with_input", dict(f=it.Filter(color=en.Color.GREEN)), {"f": {"color": "GREEN"}})
        case("list-of-inputs-with-none", "with_input", dict(fs=[None, it.Filter(ids=["1"])]), {"fs": [None, {"ids": ["1"]}]})
        case("keyword-field-name-travels-by-graphql-name", "with_input", dict(f=it.Filter(class_name="x")), {"f": {"className": "x"}})
        case("fields-named-like-BaseModel-attributes-travel-by-graphql-name", "with_input",
             dict(f=it.Filter(**{"modelDump": "d", "modelFields": 2, "copy": 3})), {"f": {"modelDump": "d", "modelFields": 2, "copy": 3}})
        case("strings-inside-input-objects-travel-unchanged", "with_input",
             dict(f=it.Filter(class_name="  padded note\n", inner=it.Inner(tag="  ")), fs=[it.Filter(class_name="\ttab ")]),
             {"f": {"className": "  padded note\n", "inner": {"tag": "  ", "n": 7}}, "fs": [{"className": "\ttab "}]})
        case("all-values-falsy-are-still-sent", "plain", dict(b=[], a=0, c=[]), {"b": [], "a": 0, "c": []})
        case("input-type-named-with-a-leading-underscore", "with_input", dict(f=it.Filter(cmp=getattr(it, "_Cmp")(**{"_eq": "x", "_in": ["a"]}))),
             {"f": {"cmp": {"_eq": "x", "_in": ["a"]}}})
        case("argument-named-like-a-method-local", "clash", dict(query="needle", data=3), {"query": "needle", "data": 3})
        case("camel-case-variable", "keyword", dict(class_name="c"), {"className": "c"})
        case("variable-that-becomes-a-method-local-after-snake-casing", "capital", dict(query="needle", data=4), {"Query": "needle", "DATA": 4})

        def refuse(name, method, kw):
            """a required variable cannot be omitted: the call is refused before anything is sent"""
            try:
                payload = _call(g, method, **kw)
                rep["outcome"][name] = {"sent-without-required-variable": payload.get("variables")}
                rep["cases"].append(name)
            except TypeError:
                rep["outcome"][name] = "ok"
            except Exception as e:   # noqa
                rep["outcome"][name] = f"{type(e).__name__}: {str(e)[:200]}"
                rep["cases"].append(name)
        refuse("required-list-of-nullable-items-cannot-be-omitted", "plain", dict(a=1))
        refuse("required-input-cannot-be-omitted", "required", dict())
        # one scalar, different nullability in different operations (and within one): each variable keeps its own
        refuse("required-scalar-after-the-same-scalar-was-nullable-elsewhere", "mixed_a", dict(s="x"))
        refuse("required-scalar-after-the-same-scalar-was-nullable-elsewhere-2", "mixed_a", dict(n=1))
        case("nullable-and-required-uses-of-one-scalar-in-one-operation", "mixed_a", dict(n=1, s="x"), {"n": 1, "s": "x"})
        case("nullable-scalar-after-the-same-scalar-was-required-elsewhere", "mixed_b", dict(req="r"), {"req": "r"})
        refuse("required-scalar-next-to-nullable-ones", "mixed_b", dict(n=1, s="x"))
        case("required-input-and-list-of-lists", "required", dict(f=it.Filter(maybe=[None, 1]), m=[[1, None], None]),
             {"f": {"maybe": [None, 1]}, "m": [[1, None], None]})
    except Exception as e:   # noqa
        rep["outcome"]["generation"] = f"{type(e).__name__}: {str(e)[:300]}"
        rep["cases"].append("generation")
    finally:
        if g is not None:
            g.cleanup()
    # names that are renamed for other reasons than snake-casing still travel under their GraphQL name
    g = None
    try:
        g = generate_client(SCHEMA_NAMES, QUERIES_NAMES, convert_to_snake_case=False)
        schema = G.build_schema(SCHEMA_NAMES)
        it = g.module("input_types")
        for name, kw, expect in (
                ("no-snake-case:keyword/underscore/reserved-input-fields-travel-by-graphql-name",
                 dict(f=it.Renamed(**{"from": "a", "_id": "b", "schema": "c", "camelCase": "d"})),
                 {"f": {"from": "a", "_id": "b", "schema": "c", "camelCase": "d"}}),
                ("no-snake-case:keyword-variable", {"f": None, "from_": "x"}, {"f": None, "from": "x"})):
            try:
                payload = _call(g, "names", **kw)
                got = _coerced(schema, payload)
                ok = got == expect
                rep["outcome"][name] = "ok" if ok else {"sent": payload.get("variables"), "coerced": got, "expected": expect}
            except Exception as e:   # noqa
                ok = False
                rep["outcome"][name] = f"{type(e).__name__}: {str(e)[:200]}"
            if not ok:
                rep["cases"].append(name)
    except Exception as e:   # noqa
        rep["outcome"]["generation-no-snake-case"] = f"{type(e).__name__}: {str(e)[:300]}"
        rep["cases"].append("generation-no-snake-case")
    finally:
        if g is not None:
            g.cleanup()
    # type extensions are part of the schema: extended input fields (required / with default) and enum values
    g = None
    try:
        g = generate_client(SCHEMA_EXT, QUERIES_EXT)
        schema = G.build_schema(SCHEMA_EXT)
        it, en = g.module("input_types"), g.module("enums")
        try:
            payload = _call(g, "ext", _data={"q": 1, "p": 2}, f=it.Filter(must=1, color=en.Color.BLUE), c=en.Color.BLUE)
            got = _coerced(schema, payload)
            expect = {"f": {"must": 1, "color": "BLUE", "extra": "dflt"}, "c": "BLUE"}
            if got != expect:
                rep["outcome"]["extended-types"] = {"sent": payload.get("variables"), "coerced": got, "expected": expect}
                rep["cases"].append("extended-types")
        except Exception as e:   # noqa
            rep["outcome"]["extended-types"] = f"{type(e).__name__}: {str(e)[:200]}"
            rep["cases"].append("extended-types")
        try:
            it.Filter(color=en.Color.RED)
            rep["outcome"]["extended-required-field-enforced"] = "a Filter without the required extension field `must` was accepted"
            rep["cases"].append("extended-required-field-enforced")
        except Exception:   # noqa  (pydantic ValidationError / AttributeError on a missing enum member both mean: not accepted)
            pass
    except Exception as e:   # noqa
        rep["outcome"]["generation-extended-types"] = f"{type(e).__name__}: {str(e)[:300]}"
        rep["cases"].append("generation-extended-types")
    finally:
        if g is not None:
            g.cleanup()
    # every bundled client variant (sync/async x plain/OpenTelemetry with a tracer) delivers the caller's values - also when the fields
    # are named like things a client might want to treat specially (credentials), at any depth, in lists, next to an upload
    for variant, opts in (("async", {}), ("sync", dict(async_client=False)), ("async-opentelemetry-with-tracer", dict(opentelemetry_client=True)),
                          ("sync-opentelemetry-with-tracer", dict(async_client=False, opentelemetry_client=True))):
        g = None
        name = f"client-variant:{variant}:nested-inputs-with-credential-like-field-names"
        try:
            g = generate_client(SCHEMA_CRED, QUERIES_CRED, **opts)
            schema = G.build_schema(SCHEMA_CRED)
            it = g.module("input_types")
            sent = []

            def handler(request):
                sent.append(json.loads(request.content))
                return httpx.Response(200, json={"data": {"login": 1}})
            mod = g.module("client")
            kw = dict(tracer="pyvc") if "opentelemetry" in variant else {}
            cred = it.Credentials(user="u", password="p1", api_token="t1", secret="s1", next=it.Credentials(password="p2", otp_token="o2"))
            args = dict(cred=cred, creds=[it.Credentials(password="p3"), it.Credentials(user="v", api_key="k4")], password="top")
            for call_no in (1, 2):          # the same argument objects are used for a second call (a retry)
                if variant.startswith("sync"):
                    client = mod.Client(url="http://x/graphql", http_client=httpx.Client(transport=httpx.MockTransport(handler)), **kw)
                    client.login(**args)
                else:
                    client = mod.Client(url="http://x/graphql", http_client=httpx.AsyncClient(transport=httpx.MockTransport(handler)), **kw)
                    asyncio.run(client.login(**args))
                got = _coerced(schema, sent[-1])
                expect = {"cred": {"user": "u", "password": "p1", "apiToken": "t1", "secret": "s1", "next": {"password": "p2", "otpToken": "o2"}},
                          "creds": [{"password": "p3"}, {"user": "v", "apiKey": "k4"}], "password": "top"}
                if got != expect:
                    rep["outcome"][name] = {"call": call_no, "sent": sent[-1].get("variables"), "expected": expect}
                    rep["cases"].append(name)
                    break
            else:
                rep["outcome"][name] = "ok"
        except Exception as e:   # noqa
            rep["outcome"][name] = f"{type(e).__name__}: {str(e)[:300]}"
            rep["cases"].append(name)
        finally:
            if g is not None:
                g.cleanup()
    if rep["cases"]:
        rep["failed"].append("bounded.variables")
    return rep


SCHEMA_CRED = """
input Credentials { user: String password: String apiToken: String apiKey: String secret: String otpToken: String next: Credentials }
type Query { login(cred: Credentials, creds: [Credentials!], password: String): Int }
"""
QUERIES_CRED = "query Login($cred: Credentials, $creds: [Credentials!], $password: String) { login(cred: $cred, creds: $creds, password: $password) }"
SCHEMA_EXT = """
enum Color { RED }
input Filter { color: Color }
type Query { q(f: Filter): Int }
extend enum Color { BLUE }
extend input Filter { must: Int! extra: String = "dflt" }
extend type Query { p(c: Color): Int }
"""
QUERIES_EXT = "query Ext($f: Filter, $c: Color) { q(f: $f) p(c: $c) }"


def bounded_variables(tier, seed):
    r = run_cases()
    fails = [dict(inputs={"scenario": c}, outcome=r["outcome"].get(c), failed=["bounded.variables"]) for c in r["cases"]]
    return dict(function="ariadne_codegen.client_generators.arguments:ArgumentsGenerator.generate", name="bounded.variables",
                kind="bounded stand-in (scenario list, end to end)", domain=f"{len(r['outcome'])} calls of generated methods, payload coerced by graphql-core",
                cases=len(r["outcome"]), failed=len(fails), failures=fails)


def check_variable_annotation(node, nullable=True):
    """replay for _parse_type_node: a list variable whose items are nullable must accept a null item"""
    rep = dict(inputs={"type": G.print_ast(node) if node is not None else None}, failed=[], undetermined=[], pre_ok=True, outcome={}, error=None)
    if node is None:
        rep["pre_ok"] = False
        return rep
    t = G.print_ast(node)
    import re
    t = re.sub(r"[_A-Za-z][_0-9A-Za-z]*", "Int", t)
    sdl = f"type Query {{ q(v: {t}): Int }}"
    g = None
    try:
        g = generate_client(sdl, f"query Q($v: {t}) {{ q(v: $v) }}")
        src = g.read("client.py")
        rep["outcome"]["signature"] = [l.strip() for l in src.splitlines() if "v:" in l][:2]
        schema = G.build_schema(sdl)

        def values(tn, depth=0):
            if isinstance(tn, G.NonNullTypeNode):
                return [v for v in values(tn.type, depth) if v is not None]
            if isinstance(tn, G.ListTypeNode):
                inner = values(tn.type, depth + 1)
                return [None, [], inner[:2], [inner[-1]]]
            return [None, 5]
        import typing
        mod = g.module("client")
        hints = typing.get_type_hints(mod.Client.q, {**vars(mod), **vars(typing)})
        import pydantic
        adapter = pydantic.TypeAdapter(hints["v"])
        for v in values(node):
            try:
                adapter.validate_python(v, strict=True)
            except pydantic.ValidationError:
                rep["failed"].append("post.annotation-is-image-of-the-declared-type(list-items-keep-their-own-nullability)")
                rep["outcome"]["rejected_valid_value"] = repr(v)
                break
    except Exception as e:   # noqa
        rep["outcome"]["error"] = f"{type(e).__name__}: {str(e)[:200]}"
    finally:
        if g is not None:
            g.cleanup()
    return rep


def check_local_name_clash(names):
    rep = dict(inputs={"argument_names": names}, failed=[], undetermined=[], pre_ok=True, outcome={}, error=None)
    r = run_cases()
    rep["outcome"] = {k: v for k, v in r["outcome"].items() if "local" in k}
    rep["cases"] = [c for c in r["cases"] if "local" in c]
    if rep["cases"]:
        rep["failed"].append("post.local-query-does-not-collide-with-an-argument")
    return rep


def witness_escaped_local():
    """known finding F18: $query together with $_query"""
    rep = dict(inputs={"operation": "query Clash2($query: String, $_query: String)"}, failed=[], cases=[], outcome={})
    g = None
    try:
        g = generate_client(SCHEMA, "query Clash2($query: String, $_query: String) { q(b: [], query: $query, _query: $_query) }")
        payload = _call(g, "clash_2", query="a")
        if (payload.get("variables") or {}).get("query") != "a":
            rep["cases"].append("argument-named-like-the-escaped-local")
    except Exception as e:   # noqa
        rep["outcome"]["error"] = f"{type(e).__name__}: {str(e)[:200]}"
        rep["cases"].append("argument-named-like-the-escaped-local")
    finally:
        if g is not None:
            g.cleanup()
    if rep["cases"]:
        rep["failed"].append("post.local-query-does-not-collide-with-an-argument")
    return rep


# ------------------------------------------------------------------------------------------ arguments named like method locals
SCHEMA_LOCALS = """
type Query { q(query: String, variables: String, data: String, response: String, operation_name: String): String }
type Subscription { s(query: String, variables: String, data: String): String }
"""
QUERIES_LOCALS = """
query lowerCamel($data: String) { q(data: $data) }
query Clash($query: String, $variables: String, $data: String, $response: String, $operation_name: String) {
  q(query: $query, variables: $variables, data: $data, response: $response, operation_name: $operation_name) }
subscription Sub($query: String, $variables: String, $data: String) { s(query: $query, variables: $variables, data: $data) }
subscription NoVars { s }
subscription lower_snake { s }
"""


def bounded_method_locals(tier, seed):
    """generated methods whose arguments are named like the method's own locals (query, variables, data, response):
    the operation document, the caller's variables and the validated RESPONSE data must each end up where they belong -
    sync client, async client and the subscription iterator (scripted connection)"""
    from unittest import mock
    from . import lib_fakes as F
    cases, fails = 0, []
    args = dict(query="Q-arg", variables="V-arg", data="D-arg", response="R-arg", operation_name="O-arg")
    for async_ in (True, False):
        g = None
        try:
            g = generate_client(SCHEMA_LOCALS, QUERIES_LOCALS if async_ else QUERIES_LOCALS.split("subscription")[0], async_client=async_)
            sent = []

            def handler(request):
                sent.append(json.loads(request.content))
                return httpx.Response(200, json={"data": {"q": "from-the-server"}})
            mod = g.module("client")
            cases += 1
            bad = []
            try:
                if async_:
                    client = mod.Client(url="http://x/graphql", http_client=httpx.AsyncClient(transport=httpx.MockTransport(handler)))
                    out = asyncio.run(client.clash(**args))
                else:
                    client = mod.Client(url="http://x/graphql", http_client=httpx.Client(transport=httpx.MockTransport(handler)))
                    out = client.clash(**args)
                if getattr(out, "q", None) != "from-the-server":
                    bad.append("returns-the-validated-response-data")
                if not sent or sent[-1].get("variables") != args or "query Clash" not in sent[-1].get("query", "") or sent[-1].get("operationName") != "Clash":
                    bad.append("sends-the-operation-document-and-the-callers-variables")
            except Exception as e:      # noqa
                bad.append(f"raises-{type(e).__name__}: {str(e)[:100]}")
            if bad:
                fails.append(dict(inputs=dict(scenario=f"{'async' if async_ else 'sync'}-query"), failed=bad, outcome=sent[-1:] if sent else None))
            # the operation name that travels is the authored one, whatever its spelling
            cases += 1
            bad = []
            try:
                call = client.lower_camel(data="d")
                out = asyncio.run(call) if async_ else call
                if sent[-1].get("operationName") != "lowerCamel" or "query lowerCamel" not in sent[-1].get("query", ""):
                    bad.append(f"operationName-is-the-authored-name: {sent[-1].get('operationName')!r}")
            except Exception as e:      # noqa
                bad.append(f"raises-{type(e).__name__}: {str(e)[:100]}")
            if bad:
                fails.append(dict(inputs=dict(scenario=f"{'async' if async_ else 'sync'}-query-lower-case-name"), failed=bad, outcome=None))
            if async_:
                cases += 1
                bad = []
                sub_args = {k: args[k] for k in ("query", "variables", "data")}
                ws = F.NativeWS([json.dumps({"type": "connection_ack"}), json.dumps({"type": "next", "payload": {"data": {"s": "pushed"}}}),
                                 json.dumps({"type": "complete"})])
                base = __import__(mod.__name__.rsplit(".", 1)[0] + ".async_base_client", fromlist=["x"])

                async def drive():
                    items = []
                    client = mod.Client(url="http://x/graphql", ws_url="ws://x/graphql")
                    with mock.patch.object(base, "ws_connect", lambda *a, **k: ws):
                        async for item in client.sub(**sub_args):
                            items.append(item)
                    return items
                try:
                    items = asyncio.run(drive())
                    frames = [json.loads(v) for k, v in ws.log if k == "ws_send"]
                    subs = [f for f in frames if f.get("type") == "subscribe"]
                    if len(subs) != 1 or "subscription Sub" not in subs[0]["payload"].get("query", "") or subs[0]["payload"].get("variables") != sub_args \
                            or subs[0]["payload"].get("operationName") != "Sub":
                        bad.append("subscribe-carries-the-operation-document-and-the-callers-variables")
                    if [getattr(i, "s", None) for i in items] != ["pushed"]:
                        bad.append("yields-the-validated-data-of-each-next-frame")
                except Exception as e:      # noqa
                    bad.append(f"raises-{type(e).__name__}: {str(e)[:100]}")
                if bad:
                    fails.append(dict(inputs=dict(scenario="async-subscription"), failed=bad, outcome=[v for k, v in ws.log][:3]))
                cases += 1
                bad = []
                ws2 = F.NativeWS([json.dumps({"type": "connection_ack"}), json.dumps({"type": "next", "payload": {"data": {"s": "p2"}}}), json.dumps({"type": "complete"})])

                async def drive2():
                    items = []
                    client = mod.Client(url="http://x/graphql", ws_url="ws://x/graphql")
                    with mock.patch.object(base, "ws_connect", lambda *a, **k: ws2):
                        async for item in client.no_vars():
                            items.append(item)
                    return items
                try:
                    items = asyncio.run(drive2())
                    subs = [f for f in (json.loads(v) for k, v in ws2.log if k == "ws_send") if f.get("type") == "subscribe"]
                    if len(subs) != 1 or "subscription NoVars" not in subs[0]["payload"].get("query", "") or subs[0]["payload"].get("operationName") != "NoVars" \
                            or subs[0]["payload"].get("variables") not in (None, {}):
                        bad.append("subscribe-without-variables-carries-document-and-operationName")
                    if [getattr(i, "s", None) for i in items] != ["p2"]:
                        bad.append("yields-the-validated-data-of-each-next-frame")
                except Exception as e:      # noqa
                    bad.append(f"raises-{type(e).__name__}: {str(e)[:100]}")
                if bad:
                    fails.append(dict(inputs=dict(scenario="async-subscription-without-variables"), failed=bad, outcome=[v for k, v in ws2.log][:3]))
                cases += 1
                bad = []
                ws3 = F.NativeWS([json.dumps({"type": "connection_ack"}), json.dumps({"type": "complete"})])

                async def drive3():
                    client = mod.Client(url="http://x/graphql", ws_url="ws://x/graphql")
                    with mock.patch.object(base, "ws_connect", lambda *a, **k: ws3):
                        async for _ in client.lower_snake():
                            pass
                try:
                    asyncio.run(drive3())
                    subs = [f for f in (json.loads(v) for k, v in ws3.log if k == "ws_send") if f.get("type") == "subscribe"]
                    if len(subs) != 1 or subs[0]["payload"].get("operationName") != "lower_snake":
                        bad.append(f"operationName-is-the-authored-name: {subs[0]['payload'].get('operationName') if subs else None!r}")
                except Exception as e:      # noqa
                    bad.append(f"raises-{type(e).__name__}: {str(e)[:100]}")
                if bad:
                    fails.append(dict(inputs=dict(scenario="async-subscription-lower-case-name"), failed=bad, outcome=None))
        except Exception as e:      # noqa
            cases += 1
            fails.append(dict(inputs=dict(scenario=f"generation-async={async_}"), failed=["generation"], outcome=f"{type(e).__name__}: {str(e)[:200]}"))
        finally:
            if g is not None:
                g.cleanup()
    return dict(function="ariadne_codegen.client_generators.client:ClientGenerator.add_method", name="bounded.method-locals",
                kind="bounded stand-in (end to end, native)",
                domain="query (sync and async client) and subscription whose variables are named query / variables / data / response / "
                       "operation_name; request through httpx.MockTransport, subscription through a scripted connection",
                cases=cases, failed=len(fails), failures=fails)
