"""Replay vehicle / bounded stand-in for C03: generate a client, call its methods through httpx.MockTransport, and
coerce the payload with graphql-core's get_variable_values (spec-conformant variable coercion)."""
import asyncio
import json
import httpx
import graphql as G
from graphql.execution.values import get_variable_values
from .e2e import generate_client

SCHEMA = """
enum Color { RED GREEN }
input Inner { n: Int = 7 tag: String }
input Filter { color: Color inner: Inner ids: [ID!] maybe: [Int] className: String }
type Query { q(a: Int, b: [Int]!, c: [Int!], f: Filter, fs: [Filter], query: String, data: Int, _query: String, className: String): Int }
"""
QUERIES = """
query Plain($a: Int, $b: [Int]!, $c: [Int!]) { q(a: $a, b: $b, c: $c) }
query WithInput($f: Filter, $fs: [Filter]) { q(b: [], f: $f, fs: $fs) }
query Clash($query: String, $data: Int) { q(b: [], query: $query, data: $data) }
query Keyword($className: String) { q(b: [], className: $className) }
query Capital($Query: String, $DATA: Int) { q(b: [], query: $Query, data: $DATA) }
"""


def _call(g, method, **kw):
    sent = []

    def handler(request):
        sent.append(json.loads(request.content))
        return httpx.Response(200, json={"data": {"q": 1}})
    mod = g.module("client")
    client = mod.Client(url="http://x/graphql", http_client=httpx.AsyncClient(transport=httpx.MockTransport(handler)))
    asyncio.run(getattr(client, method)(**kw))
    return sent[-1]


def _coerced(schema, payload):
    doc = G.parse(payload["query"])
    op = next(d for d in doc.definitions if isinstance(d, G.OperationDefinitionNode))
    res = get_variable_values(schema, op.variable_definitions, payload.get("variables") or {})
    if isinstance(res, list):
        raise ValueError("; ".join(e.message for e in res))
    return res


def run_cases():
    rep = dict(inputs={}, failed=[], undetermined=[], pre_ok=True, outcome={}, error=None, cases=[])
    g = None
    try:
        g = generate_client(SCHEMA, QUERIES)
        schema = G.build_schema(SCHEMA)
        it = g.module("input_types")
        en = g.module("enums")

        def case(name, method, kw, expect_vars):
            try:
                payload = _call(g, method, **kw)
                got = _coerced(schema, payload)
                ok = got == expect_vars
                rep["outcome"][name] = "ok" if ok else {"sent": payload.get("variables"), "coerced": got, "expected": expect_vars}
            except Exception as e:   # noqa
                ok = False
                rep["outcome"][name] = f"{type(e).__name__}: {str(e)[:200]}"
            if not ok:
                rep["cases"].append(name)
        case("required-list-with-null-item", "plain", dict(b=[1, None]), {"b": [1, None]})
        case("omitted-optionals-absent", "plain", dict(b=[]), {"b": []})
        case("explicit-none-is-null", "plain", dict(b=[2], a=None), {"b": [2], "a": None})
        case("list-of-non-null", "plain", dict(b=[], c=[1, 2]), {"b": [], "c": [1, 2]})
        case("nested-input-unset-fields-absent", "with_input", dict(f=it.Filter(color=en.Color.RED, inner=it.Inner(tag="t"))),
             {"f": {"color": "RED", "inner": {"tag": "t", "n": 7}}})
        case("list-of-inputs-with-none", "with_input", dict(fs=[None, it.Filter(ids=["1"])]), {"fs": [None, {"ids": ["1"]}]})
        case("keyword-field-name-travels-by-graphql-name", "with_input", dict(f=it.Filter(class_name="x")), {"f": {"className": "x"}})
        case("argument-named-like-a-method-local", "clash", dict(query="needle", data=3), {"query": "needle", "data": 3})
        case("camel-case-variable", "keyword", dict(class_name="c"), {"className": "c"})
        case("variable-that-becomes-a-method-local-after-snake-casing", "capital", dict(query="needle", data=4), {"Query": "needle", "DATA": 4})
    except Exception as e:   # noqa
        rep["outcome"]["generation"] = f"{type(e).__name__}: {str(e)[:300]}"
        rep["cases"].append("generation")
    finally:
        if g is not None:
            g.cleanup()
    if rep["cases"]:
        rep["failed"].append("bounded.variables")
    return rep


def bounded_variables(tier, seed):
    r = run_cases()
    fails = [dict(inputs={"scenario": c}, outcome=r["outcome"].get(c), failed=["bounded.variables"]) for c in r["cases"]]
    return dict(function="ariadne_codegen.client_generators.arguments:ArgumentsGenerator.generate", name="bounded.variables",
                kind="bounded stand-in (scenario list, end to end)", domain=f"{len(r['outcome'])} calls of generated methods, payload coerced by graphql-core",
                cases=len(r["outcome"]), failed=len(fails), failures=fails)


def check_variable_annotation(node, nullable=True):
    """replay for _parse_type_node: a list variable whose items are nullable must accept a null item"""
    rep = dict(inputs={"type": G.print_ast(node) if node is not None else None}, failed=[], undetermined=[], pre_ok=True, outcome={}, error=None)
    if node is None:
        rep["pre_ok"] = False
        return rep
    t = G.print_ast(node)
    import re
    t = re.sub(r"[_A-Za-z][_0-9A-Za-z]*", "Int", t)
    sdl = f"type Query {{ q(v: {t}): Int }}"
    g = None
    try:
        g = generate_client(sdl, f"query Q($v: {t}) {{ q(v: $v) }}")
        src = g.read("client.py")
        rep["outcome"]["signature"] = [l.strip() for l in src.splitlines() if "v:" in l][:2]
        schema = G.build_schema(sdl)

        def values(tn, depth=0):
            if isinstance(tn, G.NonNullTypeNode):
                return [v for v in values(tn.type, depth) if v is not None]
            if isinstance(tn, G.ListTypeNode):
                inner = values(tn.type, depth + 1)
                return [None, [], inner[:2], [inner[-1]]]
            return [None, 5]
        import typing
        mod = g.module("client")
        hints = typing.get_type_hints(mod.Client.q, {**vars(mod), **vars(typing)})
        import pydantic
        adapter = pydantic.TypeAdapter(hints["v"])
        for v in values(node):
            try:
                adapter.validate_python(v, strict=True)
            except pydantic.ValidationError:
                rep["failed"].append("post.annotation-is-image-of-the-declared-type(list-items-keep-their-own-nullability)")
                rep["outcome"]["rejected_valid_value"] = repr(v)
                break
    except Exception as e:   # noqa
        rep["outcome"]["error"] = f"{type(e).__name__}: {str(e)[:200]}"
    finally:
        if g is not None:
            g.cleanup()
    return rep


def check_local_name_clash(names):
    rep = dict(inputs={"argument_names": names}, failed=[], undetermined=[], pre_ok=True, outcome={}, error=None)
    r = run_cases()
    rep["outcome"] = {k: v for k, v in r["outcome"].items() if "local" in k}
    rep["cases"] = [c for c in r["cases"] if "local" in c]
    if rep["cases"]:
        rep["failed"].append("post.local-query-does-not-collide-with-an-argument")
    return rep


def witness_escaped_local():
    """known finding F18: $query together with $_query"""
    rep = dict(inputs={"operation": "query Clash2($query: String, $_query: String)"}, failed=[], cases=[], outcome={})
    g = None
    try:
        g = generate_client(SCHEMA, "query Clash2($query: String, $_query: String) { q(b: [], query: $query, _query: $_query) }")
        payload = _call(g, "clash_2", query="a")
        if (payload.get("variables") or {}).get("query") != "a":
            rep["cases"].append("argument-named-like-the-escaped-local")
    except Exception as e:   # noqa
        rep["outcome"]["error"] = f"{type(e).__name__}: {str(e)[:200]}"
        rep["cases"].append("argument-named-like-the-escaped-local")
    finally:
        if g is not None:
            g.cleanup()
    if rep["cases"]:
        rep["failed"].append("post.local-query-does-not-collide-with-an-argument")
    return rep
