"""C03 - method arguments arrive at the server as the declared variables.

ArgumentsGenerator._parse_type_node (annotation of a variable = image of its declared type, items of a list keep their
own nullability), _is_nullable, _process_optional_arg_annotation, ClientGenerator.get_variable_names (method locals never
collide with argument names); the run-time conversion of values is under contract in c11_clients (props include C03);
whole calls are checked by the end-to-end bounded stand-in e2e_variables."""
import ast
import z3
import graphql as G
from pyvc import val as V
from pyvc.val import SV, Obj, MList
from pyvc.contract import Contract, self_obj
from pyvc.spec import *   # noqa
from . import lib_graphql as GQ
from .c06_input_types import name_, sub, opt, K, SC, SCALAR_DATA, sd
from .c09_pruning import FakeSchema, TYPE_MAP
from ariadne_codegen.client_generators import arguments as AR
from ariadne_codegen.client_generators import client as CL

for _c, _f, _b in [(G.NamedTypeNode, ["name"], lambda name=None: G.NamedTypeNode(name=name or G.NameNode(value="Int"))),
                   (G.ListTypeNode, ["type"], lambda type=None: G.ListTypeNode(type=type)),
                   (G.NonNullTypeNode, ["type"], lambda type=None: G.NonNullTypeNode(type=type))]:
    V.REG.register(_c, _f, build=_b)
NULLABLE_TN = Rec("NullableTypeNode", lambda self: OneOf(Cls(G.NamedTypeNode, name=GQ.NAME_NODE), Cls(G.ListTypeNode, type=TYPE_NODE)))
TYPE_NODE = Rec("TypeNode", lambda self: OneOf(NULLABLE_TN, Cls(G.NonNullTypeNode, type=NULLABLE_TN)))


def tn_cls(t, c):
    return GQ.is_cls(t, V.REG.info(c))


def tn_inner(t):
    return V.nth(V.fs_of(t), 0)


# the annotation of a *named* type is decided by _parse_named_type_node (schema lookup); here it is a ghost function of
# (name, nullable); lists and non-null wrappers are this function's own responsibility
NAMED_ANN = z3.Function("named_type_annotation", V.Val, z3.BoolSort(), V.Val)
NAMED_SCALAR = z3.Function("named_type_custom_scalar", V.Val, V.Val)
img_var = z3.RecFunction("img_var", V.Val, z3.BoolSort(), V.Val)
scalar_var = z3.RecFunction("scalar_var", V.Val, V.Val)
_t, _n = z3.Const("tn", V.Val), z3.Bool("tn_nullable")
z3.RecAddDefinition(img_var, [_t, _n],
    z3.If(tn_cls(_t, G.NamedTypeNode), NAMED_ANN(_t, _n),
    z3.If(tn_cls(_t, G.ListTypeNode), opt(_n, sub(name_(K.LIST), img_var(tn_inner(_t), z3.BoolVal(True)))),
          img_var(tn_inner(_t), z3.BoolVal(False)))))
z3.RecAddDefinition(scalar_var, [_t], z3.If(tn_cls(_t, G.NamedTypeNode), NAMED_SCALAR(_t), scalar_var(tn_inner(_t))))


class ParseNamedTypeNodeGhost(Contract):
    target = "ariadne_codegen.client_generators.arguments:ArgumentsGenerator._parse_named_type_node"
    assumed = True

    def result_term(self, A):
        return tup(NAMED_ANN(A.node, V.vb(V.lower(A.nullable))), NAMED_SCALAR(A.node))

    def ensures(self, A, res):
        return {}


class ParseTypeNode(Contract):
    props = ("C03", "C07")
    target = "ariadne_codegen.client_generators.arguments:ArgumentsGenerator._parse_type_node"
    frame_args = False

    def setup(self, E):
        return [self_obj(AR.ArgumentsGenerator, {}), E.sym("node", TYPE_NODE), E.sym_bool("nullable")], {}

    def decreases(self, A):
        return A.node

    def result_term(self, A):
        return tup(img_var(A.node, V.vb(A.nullable)), scalar_var(A.node))

    def ensures(self, A, res):
        return {"annotation-is-image-of-the-declared-type(list-items-keep-their-own-nullability)": res == self.result_term(A)}

    def replay_custom(self, inputs):
        from .e2e_variables import check_variable_annotation
        return check_variable_annotation(inputs.get("node"), inputs.get("nullable", True))

    def samples(self, tier):
        return [dict(node=G.parse_type(t), nullable=True) for t in ("Int", "Int!", "[Int]", "[Int]!", "[Int!]!", "[[Int!]]", "[Filter!]")]


class GetVariableNames(Contract):
    props = ("C03", "C02")
    target = "ariadne_codegen.client_generators.client:ClientGenerator.get_variable_names"
    frame_args = False
    LOCALS = ["query", "variables", "response", "data"]
    regions = {"argument-named-like-the-escaped-local": lambda A: z3.Or(*[
        z3.And(V.vcontains(_argnames(A), S(v)), V.vcontains(_argnames(A), S("_" + v))) for v in ["query", "variables", "response", "data"]])}

    def setup(self, E):
        V.REG.info(ast.arg)
        args = E.sym("arg_list", ListOf(Cls(ast.arg, arg=GQ.NAME), name="all_ast_args"))
        self_ = self_obj(CL.ClientGenerator, dict(_operation_str_variable="query", _variables_dict_variable="variables",
                                                   _response_variable="response", _data_variable="data"))
        return [self_, Obj(ast.arguments, {"args": args})], {}

    def ensures(self, A, res):
        names = _argnames(A)
        if A.get("__path__") is not None:
            arg_names_map.apply(A["__path__"], V.vl(V.attr_of(A.arguments, ast.arguments, "args")))
        out = {}
        for v in self.LOCALS:
            local = get(res, v)
            out[f"local-{v}-does-not-collide-with-an-argument"] = z3.And(has(res, v), z3.Not(V.vcontains(names, local)))
        return out

    def replay_custom(self, inputs):
        from .e2e_variables import check_local_name_clash
        names = [a.arg for a in (inputs.get("arg_list") or []) if hasattr(a, "arg")]
        return check_local_name_clash(names)


arg_names_map = SpecMap("ast_arg_names", lambda a: V.attr_of(a, ast.arg, "arg"))


def _argnames(A):
    args = V.attr_of(A.arguments, ast.arguments, "args")
    return arg_names_map(V.vl(args))


CONTRACTS = [ParseTypeNode(), ParseNamedTypeNodeGhost(), GetVariableNames()]


# ------------------------------------------------------------------------------------------ optional arguments
ANN = Rec("VarAnnotation", lambda self: OneOf(Cls(ast.Name, id=Str), Cls(ast.Subscript, value=Cls(ast.Name, id=Str), slice=OneOf(self, Cls(ast.Tuple))),
                                              Cls(ast.Subscript, value=Cls(ast.Attribute), slice=Any)))


def top_level_optional(a):
    return z3.And(GQ.is_cls(a, V.REG.info(ast.Subscript)), GQ.is_cls(V.attr_of(a, ast.Subscript, "value"), V.REG.info(ast.Name)),
                  V.attr_of(V.attr_of(a, ast.Subscript, "value"), ast.Name, "id") == S(K.OPTIONAL))


class IsNullable(Contract):
    """statement: `method arguments arrive ... as the declared variables`: an argument may be omitted (UNSET default) exactly
    when its declared variable type is nullable, i.e. when the annotation is Optional[...] at its TOP level (an Optional
    further inside - list items - does not make the argument itself optional)"""
    props = ("C03",)
    target = "ariadne_codegen.client_generators.arguments:ArgumentsGenerator._is_nullable"
    use_at_calls = False

    def setup(self, E):
        return [self_obj(AR.ArgumentsGenerator, {}), E.sym("annotation", ANN)], {}

    def ensures(self, A, res):
        return {"optional-iff-the-annotation-is-Optional-at-top-level": V.vb(res) == top_level_optional(A.annotation)}

    def replay_custom(self, inputs):
        return dict(inputs={k: str(v)[:200] for k, v in inputs.items()}, failed=[], pre_ok=True, outcome=None, error=None,
                    undetermined=["replayed end to end by contracts.e2e_variables (required variables cannot be omitted)"])


class ProcessOptionalArgAnnotation(Contract):
    """an omittable argument is annotated Union[<its annotation>, UnsetType] - nothing else changes"""
    props = ("C03",)
    target = "ariadne_codegen.client_generators.arguments:ArgumentsGenerator._process_optional_arg_annotation"
    use_at_calls = False

    def setup(self, E):
        return [self_obj(AR.ArgumentsGenerator, {}), E.sym("annotation", ANN)], {}

    def ensures(self, A, res):
        expected = sub(name_(K.UNION), mk(ast.Tuple, elts=lst(SV(A.annotation), name_(K.UNSET_TYPE_NAME))))
        return {"union-of-the-annotation-and-UnsetType": res == expected}

    replay_custom = IsNullable.replay_custom


CONTRACTS += [IsNullable(), ProcessOptionalArgAnnotation()]


# ------------------------------------------------------------------------------------------ signature + variables dict
# ArgumentsGenerator.generate, for every list of variable definitions (loop invariants in suffix form):
#   variables dict:  keys = the ORIGINAL GraphQL names, in order; values = the dict value of the mapped Python name
#   signature:       self, the required (non-null) variables in order, then the nullable ones in order, each nullable one
#                    annotated Union[<annotation>, UnsetType] with default UNSET, **kwargs: Any last
if G.VariableNode not in V.REG.by_class if hasattr(V.REG, "by_class") else True:
    try:
        V.REG.register(G.VariableNode, ["name"])
    except Exception:       # noqa: already registered by another contract module
        pass
V.REG.register(G.VariableDefinitionNode, ["variable", "type"],
               build=lambda variable=None, type=None: G.VariableDefinitionNode(variable=variable or G.VariableNode(name=G.NameNode(value="v")),
                                                                                type=type or G.NamedTypeNode(name=G.NameNode(value="Int"))))
VAR_DEF = Cls(G.VariableDefinitionNode, variable=Cls(G.VariableNode, name=GQ.NAME_NODE), type=TYPE_NODE)
PYNAME = z3.Function("python_name_of_variable", V.Val, V.Val, V.Val)       # (graphql name, snake-casing flag) -> python name
DICT_VALUE = z3.Function("variables_dict_value", V.Val, V.Val, V.Val)       # (python name, used custom scalar) -> expression


class _ProcessNameStub(Contract):
    """assumed here (proved under C18): process_name is a function of the name and the flags"""
    props = ("C03",)
    assumed = True
    target = "ariadne_codegen.utils:process_name"

    def setup(self, E):
        return [], dict(name=E.sym("name", GQ.NAME), convert_to_snake_case=E.sym_bool("convert_to_snake_case"), plugin_manager=None, node=None)

    def result_term(self, A):
        return PYNAME(A.name, A.convert_to_snake_case)

    def ensures(self, A, res):
        return {"function-of-name-and-flags": res == self.result_term(A)}


class _GetDictValueStub(Contract):
    """assumed here (proved under C07 with finding F05): the dict value is a function of the Python name and the scalar"""
    props = ("C03",)
    assumed = True
    target = "ariadne_codegen.client_generators.arguments:ArgumentsGenerator._get_dict_value"

    def setup(self, E):
        return [self_obj(AR.ArgumentsGenerator, {}), E.sym("name", Str), E.sym("used_custom_scalar", Opt(Str))], {}

    def result_term(self, A):
        return DICT_VALUE(A.name, A.used_custom_scalar)

    def ensures(self, A, res):
        return {"function-of-name-and-scalar": res == self.result_term(A)}


def _vd_org(vd):
    return V.attr_of(V.attr_of(V.attr_of(vd, G.VariableDefinitionNode, "variable"), G.VariableNode, "name"), G.NameNode, "value")


def _vd_ann(vd):
    return img_var(V.attr_of(vd, G.VariableDefinitionNode, "type"), z3.BoolVal(True))


def _arg(name, ann):
    return mk(ast.arg, arg=name, annotation=ann)


def _union_unset(a):
    return sub(name_(K.UNION), mk(ast.Tuple, elts=lst(SV(a), name_(K.UNSET_TYPE_NAME))))


_PS1 = (V.Val,)
REQ = SpecMap("required_args", lambda vd, snake: _arg(PYNAME(_vd_org(vd), snake), _vd_ann(vd)),
              keep_fn=lambda vd, snake: z3.Not(top_level_optional(_vd_ann(vd))), param_sorts=_PS1)
OPTS = SpecMap("optional_args", lambda vd, snake: _arg(PYNAME(_vd_org(vd), snake), _union_unset(_vd_ann(vd))),
               keep_fn=lambda vd, snake: top_level_optional(_vd_ann(vd)), param_sorts=_PS1)
KEYS = SpecMap("variables_dict_keys", lambda vd: mk(ast.Constant, value=_vd_org(vd)))
VALS = SpecMap("variables_dict_values", lambda vd, snake: DICT_VALUE(PYNAME(_vd_org(vd), snake), scalar_var(V.attr_of(vd, G.VariableDefinitionNode, "type"))),
               param_sorts=_PS1)
UNSETS = SpecMap("unset_defaults", lambda a: name_(K.UNSET_NAME))


class GenerateArguments(Contract):
    props = ("C03",)
    target = "ariadne_codegen.client_generators.arguments:ArgumentsGenerator.generate"
    use_at_calls = False
    frame_args = False
    trusted = ["process_name / _get_dict_value: functions of their arguments (assumed here; their own contracts are C18 / C07)"]

    def setup(self, E):
        snake = E.sym_bool("convert_to_snake_case")
        self_ = self_obj(AR.ArgumentsGenerator, dict(convert_to_snake_case=snake, plugin_manager=None))
        return [self_, E.sym("variable_definitions", TupleOf(VAR_DEF, name="variable_definitions"))], {}

    def _snake(self, A):
        return A["convert_to_snake_case"] if "convert_to_snake_case" in A else V.VBool(z3.Bool("convert_to_snake_case"))

    @property
    def loops(self):
        snake = V.VBool(z3.Bool("convert_to_snake_case"))

        def inv(rest, xs, st, I, env):
            parts = []
            for key, smap, params, init in (("required_args", REQ, (snake,), V.VCons(_arg(S("self"), V.VNone), V.VNil)),
                                            ("optional_args", OPTS, (snake,), None), ("dict_.keys", KEYS, (), None),
                                            ("dict_.values", VALS, (snake,), None)):
                cur = V.vl(st[key]) if key in st else (init if init is not None else V.VNil)
                parts.append(append_map_inv(cur, rest, xs, smap, params=params, init=init))
            return z3.And(*parts)
        return {"ArgumentsGenerator.generate": inv}

    def ensures(self, A, res):
        snake = self._snake(A)
        vds = V.vt(A.variable_definitions)
        p = A.get("__path__")
        args_spec = V.vconcat(V.VCons(_arg(S("self"), V.VNone), REQ(vds, snake)), OPTS(vds, snake))
        defaults = UNSETS.apply(p, OPTS(vds, snake)) if p is not None else UNSETS(OPTS(vds, snake))
        arguments, dict_ = V.nth(V.vt(res), 0), V.nth(V.vt(res), 1)
        return {
            "variables-dict-keyed-by-the-original-names-in-order": V.vl(V.attr_of(dict_, ast.Dict, "keys")) == KEYS(vds),
            "variables-dict-values-are-the-mapped-python-names": V.vl(V.attr_of(dict_, ast.Dict, "values")) == VALS(vds, snake),
            "signature: self, required variables, then nullable ones as Union[.., UnsetType]": V.vl(V.attr_of(arguments, ast.arguments, "args")) == args_spec,
            "every-nullable-variable-defaults-to-UNSET/required-ones-have-no-default": V.vl(V.attr_of(arguments, ast.arguments, "defaults")) == defaults,
            "kwargs-last": V.attr_of(arguments, ast.arguments, "kwarg") == _arg(S(K.KWARGS_NAMES), name_(K.ANY)),
        }

    def replay_custom(self, inputs):
        return dict(inputs={k: str(v)[:200] for k, v in inputs.items()}, failed=[], pre_ok=True, outcome=None, error=None,
                    undetermined=["replayed end to end by contracts.e2e_variables"])


CONTRACTS += [GenerateArguments(), _ProcessNameStub(), _GetDictValueStub()]
