"""C03 - method arguments arrive at the server as the declared variables.

ArgumentsGenerator._parse_type_node (annotation of a variable = image of its declared type, items of a list keep their
own nullability), _is_nullable, _process_optional_arg_annotation, ClientGenerator.get_variable_names (method locals never
collide with argument names); the run-time conversion of values is under contract in c11_clients (props include C03);
whole calls are checked by the end-to-end bounded stand-in e2e_variables."""
import ast
import z3
import graphql as G
from pyvc import val as V
from pyvc.val import SV, Obj, MList
from pyvc.contract import Contract, self_obj
from pyvc.spec import *   # noqa
from . import lib_graphql as GQ
from .c06_input_types import name_, sub, opt, K, SC, SCALAR_DATA, sd
from .c09_pruning import FakeSchema, TYPE_MAP
from ariadne_codegen.client_generators import arguments as AR
from ariadne_codegen.client_generators import client as CL

for _c, _f, _b in [(G.NamedTypeNode, ["name"], lambda name=None: G.NamedTypeNode(name=name or G.NameNode(value="Int"))),
                   (G.ListTypeNode, ["type"], lambda type=None: G.ListTypeNode(type=type)),
                   (G.NonNullTypeNode, ["type"], lambda type=None: G.NonNullTypeNode(type=type))]:
    V.REG.register(_c, _f, build=_b)
NULLABLE_TN = Rec("NullableTypeNode", lambda self: OneOf(Cls(G.NamedTypeNode, name=GQ.NAME_NODE), Cls(G.ListTypeNode, type=TYPE_NODE)))
TYPE_NODE = Rec("TypeNode", lambda self: OneOf(NULLABLE_TN, Cls(G.NonNullTypeNode, type=NULLABLE_TN)))


def tn_cls(t, c):
    return GQ.is_cls(t, V.REG.info(c))


def tn_inner(t):
    return V.nth(V.fs_of(t), 0)


# the annotation of a *named* type is decided by _parse_named_type_node (schema lookup); here it is a ghost function of
# (name, nullable); lists and non-null wrappers are this function's own responsibility
NAMED_ANN = z3.Function("named_type_annotation", V.Val, z3.BoolSort(), V.Val)
NAMED_SCALAR = z3.Function("named_type_custom_scalar", V.Val, V.Val)
img_var = z3.RecFunction("img_var", V.Val, z3.BoolSort(), V.Val)
scalar_var = z3.RecFunction("scalar_var", V.Val, V.Val)
_t, _n = z3.Const("tn", V.Val), z3.Bool("tn_nullable")
z3.RecAddDefinition(img_var, [_t, _n],
    z3.If(tn_cls(_t, G.NamedTypeNode), NAMED_ANN(_t, _n),
    z3.If(tn_cls(_t, G.ListTypeNode), opt(_n, sub(name_(K.LIST), img_var(tn_inner(_t), z3.BoolVal(True)))),
          img_var(tn_inner(_t), z3.BoolVal(False)))))
z3.RecAddDefinition(scalar_var, [_t], z3.If(tn_cls(_t, G.NamedTypeNode), NAMED_SCALAR(_t), scalar_var(tn_inner(_t))))


class ParseNamedTypeNodeGhost(Contract):
    target = "ariadne_codegen.client_generators.arguments:ArgumentsGenerator._parse_named_type_node"
    assumed = True

    def result_term(self, A):
        return tup(NAMED_ANN(A.node, V.vb(V.lower(A.nullable))), NAMED_SCALAR(A.node))

    def ensures(self, A, res):
        return {}


class ParseTypeNode(Contract):
    props = ("C03", "C07")
    target = "ariadne_codegen.client_generators.arguments:ArgumentsGenerator._parse_type_node"
    frame_args = False

    def setup(self, E):
        return [self_obj(AR.ArgumentsGenerator, {}), E.sym("node", TYPE_NODE), E.sym_bool("nullable")], {}

    def decreases(self, A):
        return A.node

    def result_term(self, A):
        return tup(img_var(A.node, V.vb(A.nullable)), scalar_var(A.node))

    def ensures(self, A, res):
        return {"annotation-is-image-of-the-declared-type(list-items-keep-their-own-nullability)": res == self.result_term(A)}

    def replay_custom(self, inputs):
        from .e2e_variables import check_variable_annotation
        return check_variable_annotation(inputs.get("node"), inputs.get("nullable", True))

    def samples(self, tier):
        return [dict(node=G.parse_type(t), nullable=True) for t in ("Int", "Int!", "[Int]", "[Int]!", "[Int!]!", "[[Int!]]", "[Filter!]")]


class GetVariableNames(Contract):
    props = ("C03", "C02")
    target = "ariadne_codegen.client_generators.client:ClientGenerator.get_variable_names"
    frame_args = False
    LOCALS = ["query", "variables", "response", "data"]
    regions = {"argument-named-like-the-escaped-local": lambda A: z3.Or(*[
        z3.And(V.vcontains(_argnames(A), S(v)), V.vcontains(_argnames(A), S("_" + v))) for v in ["query", "variables", "response", "data"]])}

    def setup(self, E):
        V.REG.info(ast.arg)
        args = E.sym("arg_list", ListOf(Cls(ast.arg, arg=GQ.NAME), name="all_ast_args"))
        self_ = self_obj(CL.ClientGenerator, dict(_operation_str_variable="query", _variables_dict_variable="variables",
                                                   _response_variable="response", _data_variable="data"))
        return [self_, Obj(ast.arguments, {"args": args})], {}

    def ensures(self, A, res):
        names = _argnames(A)
        if A.get("__path__") is not None:
            arg_names_map.apply(A["__path__"], V.vl(V.attr_of(A.arguments, ast.arguments, "args")))
        out = {}
        for v in self.LOCALS:
            local = get(res, v)
            out[f"local-{v}-does-not-collide-with-an-argument"] = z3.And(has(res, v), z3.Not(V.vcontains(names, local)))
        return out

    def replay_custom(self, inputs):
        from .e2e_variables import check_local_name_clash
        names = [a.arg for a in (inputs.get("arg_list") or []) if hasattr(a, "arg")]
        return check_local_name_clash(names)


arg_names_map = SpecMap("ast_arg_names", lambda a: V.attr_of(a, ast.arg, "arg"))


def _argnames(A):
    args = V.attr_of(A.arguments, ast.arguments, "args")
    return arg_names_map(V.vl(args))


CONTRACTS = [ParseTypeNode(), ParseNamedTypeNodeGhost(), GetVariableNames()]
