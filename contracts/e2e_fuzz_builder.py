"""Bounded stand-in for C14 with *generated* builder expressions: on a client generated with enable_custom_operations a
seeded generator walks the schema and builds expression trees through the generated classes (root fields and nested
fields with arguments - some left out -, scalar attributes, aliases on method-built fields, inline fragments via `.on()` on
unions and interfaces, several top-level fields); every document that is sent must be valid against the schema, declare
each variable once with the argument's exact type, carry exactly the values that were passed (arguments left out are
omitted) and contain the fields the expression names; building the same expression again after other operations gives
the same request.  (`.alias()` on the shared class-level scalar attributes is finding F15 and stays out.)"""
import asyncio
import json
import random
import re
import graphql as G
import httpx
from .e2e import generate_client
from . import e2e_builder as B


def _py(name):
    """the Python spelling the generator derives from a GraphQL name: compared modulo case and underscores (independent of utils)"""
    return re.sub(r"_", "", name).lower()


class ExprGen:
    def __init__(self, schema, cf, cq, seed):
        self.s, self.cf, self.cq, self.r = schema, cf, cq, random.Random(seed)
        self.values = []          # every argument value passed, in any order
        self.names = []           # GraphQL name of every field the expression names (with repetitions)
        self.n = 0

    def named(self, t):
        while isinstance(t, (G.GraphQLNonNull, G.GraphQLList)):
            t = t.of_type
        return t

    def value(self, t):
        if isinstance(t, G.GraphQLNonNull):
            t = t.of_type
        if isinstance(t, G.GraphQLList):
            return [self.value(t.of_type) if not (not isinstance(t.of_type, G.GraphQLNonNull) and self.r.random() < 0.2) else None
                    for _ in range(self.r.randint(0, 2))]
        self.n += 1
        return {"Int": self.n, "String": f"s{self.n}", "ID": f"id{self.n}", "Boolean": bool(self.n % 2), "Float": self.n + 0.5}[t.name]

    def attr(self, holder, gql_name):
        for a in dir(holder):
            if not a.startswith("__") and _py(a) == _py(gql_name):
                return getattr(holder, a)
        raise AttributeError(f"{holder.__name__} has nothing for the GraphQL name {gql_name}")

    def call(self, holder, gql_name, field):
        """holder.<method for gql_name>(**arguments): required arguments always, optional ones sometimes"""
        import inspect
        meth = self.attr(holder, gql_name)
        self.names.append(gql_name)
        params = {_py(p): p for p in inspect.signature(meth).parameters}
        kw = {}
        for an, a in field.args.items():
            required = isinstance(a.type, G.GraphQLNonNull) and a.default_value is G.Undefined
            if required or self.r.random() < 0.6:
                v = self.value(a.type)
                kw[params[_py(an)]] = v
                self.values.append(v)
        return meth(**kw)

    def fields_class(self, t):
        return getattr(self.cf, t.name + ("Interface" if isinstance(t, G.GraphQLInterfaceType) else "Fields"))

    def sub(self, t, depth):
        """sub-selections for an object / interface type: list of builder objects"""
        holder = self.fields_class(t)
        out = []
        names = list(t.fields)
        self.r.shuffle(names)
        for fn in names[:self.r.randint(1, 3)]:
            f = t.fields[fn]
            nt = self.named(f.type)
            if isinstance(nt, (G.GraphQLScalarType, G.GraphQLEnumType)):
                if f.args:
                    out.append(self.call(holder, fn, f))
                else:
                    self.names.append(fn)
                    out.append(self.attr(holder, fn))
            elif depth > 0:
                out.append(self.select(self.call(holder, fn, f), nt, depth - 1))
        if not out:
            fn = next(n for n, f in t.fields.items() if not f.args and isinstance(self.named(f.type), (G.GraphQLScalarType, G.GraphQLEnumType)))
            self.names.append(fn)
            out.append(self.attr(holder, fn))
        return out

    def select(self, obj, t, depth):
        if isinstance(t, G.GraphQLUnionType) or (isinstance(t, G.GraphQLInterfaceType) and self.r.random() < 0.6):
            members = list(self.s.get_possible_types(t))
            self.r.shuffle(members)
            if isinstance(t, G.GraphQLInterfaceType) and self.r.random() < 0.6:
                obj = obj.fields(*self.sub(t, 0))
            for m in members[:self.r.randint(1, len(members))]:
                obj = obj.on(m.name, *self.sub(m, max(depth - 1, 0)))
        else:
            obj = obj.fields(*self.sub(t, depth))
        if self.r.random() < 0.25:
            self.n += 1
            obj = obj.alias(f"al{self.n}")
        return obj

    def operation(self):
        q = self.s.query_type
        roots = [n for n in q.fields]
        self.r.shuffle(roots)
        out = []
        for i, fn in enumerate(roots[:self.r.randint(1, 3)]):
            f = q.fields[fn]
            obj = self.call(self.cq.Query, fn, f)
            nt = self.named(f.type)
            if not isinstance(nt, (G.GraphQLScalarType, G.GraphQLEnumType)):
                obj = self.select(obj, nt, 2)
            if len(out) and not getattr(obj, "_alias", None):
                self.n += 1
                obj = obj.alias(f"top{self.n}")      # two top-level fields of one name need different response keys
            out.append(obj)
        return out


def _walk_fields(doc):
    out = []

    class V(G.Visitor):
        def enter_field(self, node, *_):
            out.append(node)
    G.visit(doc, V())
    return out


def check_expressions(n, seed0=100):
    rep = dict(inputs={"scenario": "generated-builder-expressions"}, failed=[], undetermined=[], pre_ok=True, outcome={}, error=None, cases=[])
    g = None
    try:
        g = generate_client(B.SCHEMA, None, enable_custom_operations=True)
        pkg, cf, cq = g.module(), g.module("custom_fields"), g.module("custom_queries")
        schema = G.build_schema(B.SCHEMA)
        previous = None
        for k in range(n):
            seed = seed0 + k
            gen = ExprGen(schema, cf, cq, seed)
            name = f"generated-expression-{seed}"
            try:
                fields = gen.operation()
                payload = B._run(pkg, fields, name="Gen")
                problems = B._check_document(schema, payload, gen.values)
                doc = G.parse(payload["query"])
                declared = {v.variable.name.value: G.print_ast(v.type) for v in doc.definitions[0].variable_definitions}
                # every variable carries the exact type of the argument it is bound to
                info = G.TypeInfo(schema)

                class V(G.Visitor):
                    def enter_argument(self, node, *_):
                        a = info.get_argument()
                        if a is not None and isinstance(node.value, G.VariableNode) and declared.get(node.value.name.value) != str(a.type):
                            problems.append(f"variable ${node.value.name.value}: declared {declared.get(node.value.name.value)} for an argument of type {a.type}")
                G.visit(doc, G.TypeInfoVisitor(info, V()))
                # every field the expression names is in the document, as often as it was named
                sent_names = [n.name.value for n in _walk_fields(doc)]
                for fname in set(gen.names):
                    if sent_names.count(fname) != gen.names.count(fname):
                        problems.append(f"field {fname}: named {gen.names.count(fname)} times, sent {sent_names.count(fname)} times")
                # the same builder objects used once more, in another order (other top-level indices): still a valid document with these values
                if len(fields) > 1:
                    second = B._run(pkg, list(reversed(fields)), name="Gen")
                    p2 = B._check_document(schema, second, gen.values)
                    if p2:
                        problems.append(f"re-used in another order: {p2[:2]}")
                # history-free: the same expression built again (new objects) after this operation sends the same request
                again = B._run(pkg, ExprGen(schema, cf, cq, seed).operation(), name="Gen")
                if again != payload:
                    problems.append("the same expression built again sends another request")
            except Exception as e:      # noqa
                problems = [f"{type(e).__name__}: {str(e)[:300]}"]
            if problems:
                rep["cases"].append(name)
                rep["outcome"][name] = problems[:4]
    except Exception as e:      # noqa
        rep["outcome"]["generation"] = f"{type(e).__name__}: {str(e)[:300]}"
        rep["cases"].append("generation")
    finally:
        if g is not None:
            g.cleanup()
    if rep["cases"]:
        rep["failed"].append("bounded.generated-builder-expressions")
    return rep


def bounded_generated_expressions(tier, seed):
    n = 60 if tier == "quick" else 400
    r = check_expressions(n)
    fails = [dict(inputs={"scenario": c}, outcome=r["outcome"].get(c), failed=["bounded.generated-builder-expressions"]) for c in r["cases"]]
    return dict(function="ariadne_codegen.client_generators.dependencies.base_operation:GraphQLField", name="bounded.generated-builder-expressions",
                kind="bounded stand-in (seeded expression generator, end to end)", domain=f"{n} generated builder expressions (fixed seeds) on one schema",
                cases=n, failed=len(fails), failures=fails)


if __name__ == "__main__":
    import sys
    r = check_expressions(int(sys.argv[1]) if len(sys.argv) > 1 else 30)
    for c in r["cases"]:
        print(c, r["outcome"][c])
    print("done", len(r["cases"]), "failing")
