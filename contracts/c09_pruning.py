"""C09 - pruning unused inputs and enums never removes something needed (InputTypesGenerator side).

_save_dependencies / get_used_enums under contract (unbounded); the transitive closure (_get_dependencies_of_type /
_filter_class_defs) is checked by an exhaustive bounded stand-in on the real generator."""
import itertools
import z3
import graphql as G
from pyvc import val as V
from pyvc.val import SV, Obj, MList, MDefaultDict
from pyvc.contract import Contract, self_obj
from pyvc.spec import *   # noqa
from . import lib_graphql as GQ
from ariadne_codegen.client_generators import input_types as IT


class FakeSchema:
    pass


V.REG.register(FakeSchema, ["type_map"])
V.REG.register(IT.InputTypesGenerator, ["schema", "_dependencies", "_used_enums", "_used_scalars", "_generated_public_names"])
NAMED = OneOf(Cls(G.GraphQLScalarType, name=GQ.NAME), Cls(G.GraphQLEnumType, name=GQ.NAME), Cls(G.GraphQLInputObjectType, name=GQ.NAME),
              Cls(G.GraphQLObjectType, name=GQ.NAME), Cls(G.GraphQLInterfaceType, name=GQ.NAME))
TYPE_MAP = DictOf(GQ.NAME, NAMED, name="type_map")
LISTS = DictOf(Str, Pred(V.is_VList, "list"), name="dict_of_lists")


def gen_self(E):
    tm = E.sym("type_map", TYPE_MAP)
    deps, enums = E.sym("dependencies0", LISTS), E.sym("used_enums0", LISTS)
    return self_obj(IT.InputTypesGenerator, dict(schema=Obj(FakeSchema, {"type_map": tm}), _dependencies=MDefaultDict(deps.t),
                                                 _used_enums=MDefaultDict(enums.t), _used_scalars=E.mlist("used_scalars0", Str),
                                                 _generated_public_names=E.mlist("public_names0", Str)))


def gattr(t, f):
    return V.attr_of(t, IT.InputTypesGenerator, f)


def entry(d, k):
    return V.dget(V.vd(d), k, V.VList(V.VNil))


class SaveDependencies(Contract):
    props = ("C09", "C06")
    target = "ariadne_codegen.client_generators.input_types:InputTypesGenerator._save_dependencies"
    mutates = ("self",)
    use_at_calls = False
    frame_args = False

    def setup(self, E):
        s = gen_self(E)
        ft = E.sym("field_type", Str)
        tm = s.attrs["schema"].attrs["type_map"].t
        E.assume(z3.Or(ft.t == S(""), has(tm, ft.t)))      # call site: leaf type name from the schema, or ""
        return [s, E.sym("root_type", GQ.NAME), ft], {}

    def ensures(self, A, res):
        tm = V.attr_of(gattr(A.self, "schema"), FakeSchema, "type_map")
        t = get(tm, A.field_type)
        none = A.field_type == S("")
        is_in = z3.And(z3.Not(none), GQ.is_cls(t, GQ.INPUT))
        is_en = z3.And(z3.Not(none), GQ.is_cls(t, GQ.ENUM))
        is_sc = z3.And(z3.Not(none), GQ.is_cls(t, GQ.SCALAR))

        def appended(f):
            old = gattr(A.self, f)
            return V.VDict(V.d_set(V.vd(old), A.root_type, V.VList(V.vsnoc(V.vl(entry(old, A.root_type)), A.field_type))))
        return {
            "input-dependency-recorded-under-its-owner": gattr(A.final_self, "_dependencies") == z3.If(is_in, appended("_dependencies"), gattr(A.self, "_dependencies")),
            "enum-use-recorded-under-every-owner": gattr(A.final_self, "_used_enums") == z3.If(is_en, appended("_used_enums"), gattr(A.self, "_used_enums")),
            "scalar-use-recorded": V.vl(gattr(A.final_self, "_used_scalars")) == z3.If(is_sc, V.vsnoc(V.vl(gattr(A.self, "_used_scalars")), A.field_type), V.vl(gattr(A.self, "_used_scalars"))),
        }


flat_enums = z3.RecFunction("flat_used_enums", V.VL, V.Val, V.VL)     # concat of used_enums[name] for name in names
_l, _d = z3.Const("names", V.VL), z3.Const("ue", V.Val)
z3.RecAddDefinition(flat_enums, [_l, _d], z3.If(V.is_VNil(_l), V.VNil, V.vl_concat(V.vl(entry(_d, V.hd(_l))), flat_enums(V.tl(_l), _d))))


class GetUsedEnums(Contract):
    props = ("C09", "C06")
    target = "ariadne_codegen.client_generators.input_types:InputTypesGenerator.get_used_enums"
    use_at_calls = False
    frame_args = False
    trusted = ["list concatenation is associative (lemma instance supplied to the solver)"]

    def setup(self, E):
        return [gen_self(E)], {}

    # loop invariant (suffix form): enums ++ flat(rest) == flat(all names)
    @property
    def loops(self):
        def inv(rest, xs, st, I, env):
            cur = V.vl(st["enums"]) if "enums" in st else V.VNil
            d = V.lower(env.lookup("self").attrs["_used_enums"])
            # associativity instance needed for the step: (a ++ b) ++ c == a ++ (b ++ c)
            if z3.is_app(rest) and rest.decl().name() == "VCons":
                b = V.vl(entry(d, V.hd(rest)))
                V.LEMMAS.append(V.vl_concat(V.vl_concat(cur, b), flat_enums(V.tl(rest), d)) == V.vl_concat(cur, V.vl_concat(b, flat_enums(V.tl(rest), d))))
            if z3.is_app(rest) and rest.decl().name() == "VNil":
                return cur == flat_enums(xs, d)          # flat(nil) = nil and cur ++ nil = cur
            return V.vl_concat(cur, flat_enums(rest, d)) == flat_enums(xs, d)
        return {"InputTypesGenerator.get_used_enums": inv}

    def ensures(self, A, res):
        names = V.vl(gattr(A.self, "_generated_public_names"))
        return {"enums-of-exactly-the-retained-inputs-in-order": V.vl(res) == flat_enums(names, gattr(A.self, "_used_enums"))}


CONTRACTS = [SaveDependencies(), GetUsedEnums()]


# ------------------------------------------------------------------------------------------ enum filter
import ast                                                             # noqa: E402
from ariadne_codegen.client_generators import enums as EN              # noqa: E402

CLASS_DEF = Cls(ast.ClassDef, name=GQ.NAME)
CLASS_DEFS = ListOf(CLASS_DEF, name="enum_class_defs")
keep_listed = SpecMap("enum_defs_kept", lambda c, names: c,
                      keep_fn=lambda c, names: V.vcontains(V.vl(names), V.attr_of(c, ast.ClassDef, "name")), param_sorts=(V.Val,))


class FilterEnumClassDefs(Contract):
    """statement: `pruning ... never removes something needed`: with a list of used enums exactly the class definitions
    whose name is listed are kept (each once, in their original order); without a list nothing is removed"""
    props = ("C09",)
    target = "ariadne_codegen.client_generators.enums:EnumsGenerator._filter_class_defs"
    use_at_calls = False
    frame_args = False

    def setup(self, E):
        defs = E.sym("class_defs", CLASS_DEFS)
        include = E.sym("types_to_include", Opt(ListOf(GQ.NAME, name="used_enum_names")))
        return [self_obj(EN.EnumsGenerator, {"_class_defs": defs})], dict(types_to_include=include)

    def ensures(self, A, res):
        defs = A["class_defs"] if "class_defs" in A else z3.Const("class_defs", V.Val)
        inc = A.types_to_include
        p = A.get("__path__")
        kept = keep_listed.apply(p, V.vl(defs), inc) if p is not None else keep_listed(V.vl(defs), inc)
        return {"no-list-nothing-removed": z3.Implies(V.is_VNone(inc), res == defs),
                "keeps-exactly-the-listed-enums-in-order": z3.Implies(z3.Not(V.is_VNone(inc)), res == V.VList(kept))}

    def native_self(self):
        g = EN.EnumsGenerator.__new__(EN.EnumsGenerator)
        g._class_defs = self._inputs["class_defs"]
        return g

    def native_args(self, inputs):
        self._inputs = inputs
        return [], dict(types_to_include=inputs.get("types_to_include"))

    def native_names(self, inputs, args, kwargs):
        return dict(class_defs=inputs["class_defs"], types_to_include=inputs.get("types_to_include"))

    def samples(self, tier):
        mk_ = lambda n: ast.ClassDef(name=n, bases=[], keywords=[], body=[], decorator_list=[])      # noqa: E731
        defs = [mk_("A"), mk_("B"), mk_("C")]
        return [dict(class_defs=defs, types_to_include=i) for i in (None, [], ["B"], ["C", "A"], ["X"], ["A", "A"])]


CONTRACTS.append(FilterEnumClassDefs())


# ------------------------------------------------------------------------------------------ bounded stand-in

def bounded_pruning(tier, seed):
    """Exhaustive native check on the real InputTypesGenerator: every schema with 3 input types whose fields are chosen
    from {reference to one of the 3 inputs, enum E1, enum E2} (at most 2 fields each, 3 in the thorough tier), every
    root: retained inputs == least closed set (independent fixpoint), enums reported == enums of the retained inputs,
    retained classes are the same objects as in the unpruned module."""
    import ast as _ast
    names = ["I1", "I2", "I3"]
    options = ["I1", "I2", "I3", "E1", "E2"]
    k = 2 if tier == "quick" else 3
    field_sets = [()] + [c for n in range(1, k + 1) for c in itertools.combinations(options, n)]
    cases, fails = 0, []
    for combo in itertools.product(field_sets, repeat=3):
        sdl = "enum E1 { A B }\nenum E2 { C D }\n"
        for n, fs in zip(names, combo):
            body = " ".join(f"f{i}: {t}" for i, t in enumerate(fs)) or "x: Int"
            sdl += f"input {n} {{ {body} }}\n"
        sdl += "type Query { q(a: I1, b: I2, c: I3): Int }\n"
        schema = G.build_schema(sdl)
        deps = {n: [t for t in fs if t.startswith("I")] for n, fs in zip(names, combo)}
        enums = {n: [t for t in fs if t.startswith("E")] for n, fs in zip(names, combo)}
        for root in names:
            cases += 1
            closed = {root}
            changed = True
            while changed:
                changed = False
                for n in list(closed):
                    for d in deps[n]:
                        if d not in closed:
                            closed.add(d)
                            changed = True
            gen = IT.InputTypesGenerator(schema=schema)
            full = {c.name: c for c in gen._class_defs}
            module = gen.generate(types_to_include=[root])
            kept = [n.name for n in module.body if isinstance(n, _ast.ClassDef)]
            bad = []
            if set(kept) != closed or len(kept) != len(set(kept)):
                bad.append("retained-inputs-are-exactly-the-closure")
            if any(c is not full[c.name] for c in module.body if isinstance(c, _ast.ClassDef)):
                bad.append("retained-definitions-identical-to-unpruned")
            want_enums = {e for n in closed for e in enums[n]}
            if set(gen.get_used_enums()) != want_enums:
                bad.append("enums-of-retained-inputs-reported")
            imported = {a.name for n in module.body if isinstance(n, _ast.ImportFrom) and n.module == "enums" for a in n.names}
            if not want_enums <= imported:
                bad.append("enums-of-retained-inputs-imported")
            if bad:
                fails.append(dict(inputs=dict(schema=sdl, root=root), outcome=dict(kept=kept, used_enums=gen.get_used_enums()), failed=bad))
    return dict(function="ariadne_codegen.client_generators.input_types:InputTypesGenerator.generate", name="bounded.pruning",
                kind="bounded stand-in (exhaustive, native)",
                domain=f"3 input types x field sets of size <= {k} over {{I1,I2,I3,E1,E2}} x 3 roots", cases=cases, failed=len(fails), failures=fails[:20])
