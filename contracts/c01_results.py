"""C01 - result models accept and preserve every conformant response (generator side).

parse_union_type (the annotation lists one class per union member, each registered as related class; nullable applied
on top), _process_field_implementation (alias = original response key iff the Python name differs, discriminator iff
union, default kept), together with the C05 contracts on the non-abstract translator.  The acceptance property itself
is checked natively by the reference-executor stand-in e2e_results."""
import ast
import z3
import graphql as G
from pyvc import val as V
from pyvc.val import SV, Obj, MList
from pyvc.contract import Contract, self_obj
from pyvc.spec import *   # noqa
from . import lib_graphql as GQ
from .c06_input_types import name_, sub, opt, const, call, K
from .c05_result_fields import RF, quoted, ctx_field, RESULT_SCALARS, ANN, ParseOperationFieldType
from ariadne_codegen.client_generators import result_types as RT

MEMBERS = ListOf(Cls(G.GraphQLObjectType, name=GQ.NAME), name="union_members")
UNION_T = Cls(G.GraphQLUnionType, name=GQ.NAME, types=MEMBERS)


def member_cls_name(t, cn):
    return V.VStr(z3.Concat(V.vs(cn), V.vs(GQ.name_of(t))))


member_anns = SpecMap("union_member_annotations", lambda t, cn: name_(quoted(V.vs(member_cls_name(t, cn)))), param_sorts=(V.Val,))
member_related = SpecMap("union_member_related", lambda t, cn: mk(RF.RelatedClassData, class_name=member_cls_name(t, cn), type_name=GQ.name_of(t)),
                         param_sorts=(V.Val,))


def _union_inv(rest, xs, st, I, env):
    cn = V.lower(env.lookup("class_name"))
    out = V.vl(st["__comp_out"]) if "__comp_out" in st else V.VNil
    ctx = env.lookup("context")
    rel = V.vl(V.lower(ctx.attrs["related_classes"]))
    rel0 = I.ctx.__dict__["union_related0"]
    enums_same = V.lower(ctx.attrs["enums"]) == I.ctx.__dict__["union_enums0"]
    scal_same = V.lower(ctx.attrs["custom_scalars"]) == I.ctx.__dict__["union_scalars0"]
    return z3.And(append_map_inv(out, rest, xs, member_anns, (cn,)), append_map_inv(rel, rest, xs, member_related, (cn,), init=rel0),
                  enums_same, scal_same)


_union_inv.extra_mutated = [("context", "related_classes"), ("context", "enums"), ("context", "custom_scalars")]


class ParseUnionType(Contract):
    props = ("C01", "C05")
    target = "ariadne_codegen.client_generators.result_fields:parse_union_type"
    mutates = ("context",)
    use_at_calls = False
    frame_args = False
    comprehension_loops = {"parse_union_type": _union_inv}

    def setup(self, E):
        defs = Obj(RF.Definitions, dict(schema=None, field_node=None, custom_scalars=E.sym("scalars", RESULT_SCALARS), fragments_definitions={}))
        ctx = Obj(RF.FieldContext, dict(definitions=defs, enums=E.mlist("enums0", Str), custom_scalars=E.mlist("scalars0", Str),
                                        related_classes=E.mlist("related0"), abstract_type=False))
        E.ctx.union_related0 = V.vl(ctx.attrs["related_classes"].t)
        E.ctx.union_enums0 = ctx.attrs["enums"].t
        E.ctx.union_scalars0 = ctx.attrs["custom_scalars"].t
        return [], dict(type_=E.sym("type_", UNION_T), nullable=E.sym_bool("nullable"), context=ctx, class_name=E.sym("class_name", Str))

    def ensures(self, A, res):
        types = V.vl(V.attr_of(A.type_, G.GraphQLUnionType, "types"))
        union = sub(name_(K.UNION), mk(ast.Tuple, elts=V.VList(member_anns(types, A.class_name))))
        return {"one-class-per-union-member/optional-iff-nullable": res == opt(V.vb(A.nullable), union),
                "every-member-class-registered-for-generation": V.vl(ctx_field(A.final_context, "related_classes")) ==
                V.vconcat(V.vl(ctx_field(A.context, "related_classes")), member_related(types, A.class_name)),
                "position-marked-abstract": ctx_field(A.final_context, "abstract_type") == V.VBool(z3.BoolVal(True))}

    def replay_custom(self, inputs):
        from .e2e_results import check_operation, OPS
        r = check_operation("single_member_union", OPS["single_member_union"])
        r2 = check_operation("union_members", OPS["union_members"])
        r["failed"] = (["post.one-class-per-union-member/optional-iff-nullable"] if (r["failed"] or r2["failed"]) else [])
        r["outcome"] = {"single_member_union": r["outcome"], "union_members": r2["outcome"]}
        return r


from . import lib_generator as _lg      # noqa: E402,F401  (registers ResultTypesGenerator)


class ProcessFieldImplementation(Contract):
    props = ("C01", "C18")
    target = "ariadne_codegen.client_generators.result_types:ResultTypesGenerator._process_field_implementation"
    use_at_calls = False
    frame_args = False
    mutates = ("field_implementation",)

    def setup(self, E):
        fi = Obj(ast.AnnAssign, dict(target=Obj(ast.Name, {"id": E.sym("python_name", GQ.NAME)}), annotation=E.sym("annotation", ANN),
                                     value=E.sym("value", Opt(Cls(ast.Constant))), simple=1))
        return [self_obj(RT.ResultTypesGenerator, dict(plugin_manager=None)), fi, E.sym("field_schema_name", GQ.NAME), None], {}

    def ensures(self, A, res):
        fi = A.field_implementation
        py = V.attr_of(V.attr_of(fi, ast.AnnAssign, "target"), ast.Name, "id")
        ann = V.attr_of(fi, ast.AnnAssign, "annotation")
        val = V.attr_of(fi, ast.AnnAssign, "value")
        renamed = py != A.field_schema_name
        is_union = z3.And(GQ.is_cls(ann, V.REG.info(ast.Subscript)), GQ.is_cls(V.attr_of(ann, ast.Subscript, "value"), V.REG.info(ast.Name)),
                          V.attr_of(V.attr_of(ann, ast.Subscript, "value"), ast.Name, "id") == S(K.UNION))
        has_default = GQ.is_cls(val, V.REG.info(ast.Constant))

        def kw(arg, value):
            return mk(ast.keyword, arg=arg, value=value)

        def field(*kws):
            return call(name_(K.FIELD_CLASS), keywords=list(kws))
        alias = kw(K.ALIAS_KEYWORD, const(A.field_schema_name))
        disc = kw(K.DISCRIMINATOR_KEYWORD, const(S(K.TYPENAME_ALIAS)))
        dflt = kw(K.DEFAULT_KEYWORD, const(V.attr_of(val, ast.Constant, "value")))
        expected = z3.If(renamed,
                         z3.If(is_union, z3.If(has_default, field(alias, disc, dflt), field(alias, disc)),
                               z3.If(has_default, field(alias, dflt), field(alias))),
                         z3.If(is_union, z3.If(has_default, field(disc, dflt), field(disc)), val))
        new_val = V.attr_of(A.final_field_implementation, ast.AnnAssign, "value")
        return {"wire-name-kept-as-alias-iff-renamed/discriminator-iff-union/default-kept": new_val == expected,
                "name-and-annotation-untouched": z3.And(V.attr_of(A.final_field_implementation, ast.AnnAssign, "target") == V.attr_of(fi, ast.AnnAssign, "target"),
                                                        V.attr_of(A.final_field_implementation, ast.AnnAssign, "annotation") == ann),
                "returns-the-same-statement": res == A.final_field_implementation}


CONTRACTS = [ParseUnionType(), ProcessFieldImplementation()]
