"""One registration of ResultTypesGenerator for every contract module that speaks about its state (the field list is the
union of what the contracts read; attributes a setup does not provide lower to the <missing> atom)."""
from pyvc import val as V
from ariadne_codegen.client_generators import result_types as RT

RTG_FIELDS = ["_imports", "plugin_manager", "schema", "fragments_definitions", "_unpacked_fragments", "_fragments_used_as_mixins",
              "_public_names", "_used_enums", "_used_scalars", "custom_scalars", "operation_definition"]
if RT.ResultTypesGenerator not in V.REG.by_cls:
    V.REG.register(RT.ResultTypesGenerator, RTG_FIELDS)
